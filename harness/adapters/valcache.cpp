// Adapter for specs/ValidationCache (C13): replays model paths on a real in-process regtest node with the validation caches at
// their normal sizes: real signed transactions through ChainstateManager::ProcessTransaction (submit / test-accept), real blocks
// through ProcessNewBlock, TestBlockValidity (the caching block path), InvalidateBlock (reorg + mempool resurrection).
//   valcache replay <tests.ndjson> <universe.json> [nocache] [threads]
// universe.json: {universe: [tx...], coins: [class...], h0, flagheights: {CLTV: h, CSV: h}} as printed by the specification.
// Compared (mismatch): the verdict of every call, the tip height and the mempool content after it.
// Counted only (the property is about verdicts): the content of the script-execution cache and of the signature cache, probed
// for every (wtxid, flag set) and (signature, public key, digest) the universe can produce.
#include <chainsim.h>
#include <addresstype.h>
#include <policy/policy.h>
#include <script/interpreter.h>
#include <script/sigcache.h>
using namespace vfh;

namespace {
UniValue g_uni;
bool g_nocache{false};
int g_threads{0};
constexpr CAmount COIN_VALUE{10000}, OUT_VALUE{5000};

struct Base {
    uint256 tip_hash; int h0; int64_t t0;
    CTransactionRef funding;
};
Base g_base;

CKey KeyOf(const std::string& name)
{
    std::array<unsigned char, 32> k{}; k[31] = name == "K1" ? 1 : name == "K2" ? 2 : 0;
    if (!k[31]) throw std::runtime_error("unknown key " + name);
    CKey key; key.Set(k.begin(), k.end(), true);
    return key;
}
// The encodings of a public key (X, Y) the model distinguishes: "c" 02/03|X, "u" 04|X|Y, "h" 06/07|X|Y (header = parity of Y): all parse to the
// same point; "hx" hybrid with the wrong parity header, "ux" 04|X|Y' with Y' off the curve and the low bit of Y: both rejected by the parser.
std::vector<unsigned char> KeyBytes(const std::string& name, const std::string& enc)
{
    const CPubKey c = KeyOf(name).GetPubKey();
    if (enc == "c") return ToByteVector(c);
    CPubKey u = c; if (!u.Decompress()) throw std::runtime_error("decompress failed");
    std::vector<unsigned char> b = ToByteVector(u);
    if (b.size() != 65 || b[0] != 4) throw std::runtime_error("unexpected uncompressed key");
    if (enc == "u") return b;
    if (enc == "h") { b[0] = 6 | (b[64] & 1); return b; }
    if (enc == "hx") { b[0] = 6 | ((b[64] & 1) ^ 1); if (CPubKey(b).IsFullyValid()) throw std::runtime_error("hx key parses"); return b; }
    if (enc == "ux") {
        for (size_t pos = 40; pos < 60; ++pos) { auto v = b; v[pos] ^= 0x5a; if (!CPubKey(v).IsFullyValid() && CPubKey(v).IsValid()) return v; }
        throw std::runtime_error("could not build an off-curve key");
    }
    throw std::runtime_error("unknown key encoding " + enc);
}
// (r, s) -> (r, n - s): the other serialisation of the same ECDSA signature (as in src/test/script_tests.cpp)
void NegateSignatureS(std::vector<unsigned char>& vchSig)
{
    std::vector<unsigned char> r(vchSig.begin() + 4, vchSig.begin() + 4 + vchSig[3]);
    std::vector<unsigned char> s(vchSig.begin() + 6 + vchSig[3], vchSig.begin() + 6 + vchSig[3] + vchSig[5 + vchSig[3]]);
    static const unsigned char order[33] = {0x00, 0xFF, 0xFF, 0xFF, 0xFF, 0xFF, 0xFF, 0xFF, 0xFF, 0xFF, 0xFF, 0xFF, 0xFF, 0xFF, 0xFF, 0xFF, 0xFE,
                                            0xBA, 0xAE, 0xDC, 0xE6, 0xAF, 0x48, 0xA0, 0x3B, 0xBF, 0xD2, 0x5E, 0x8C, 0xD0, 0x36, 0x41, 0x41};
    while (s.size() < 33) s.insert(s.begin(), 0x00);
    int carry = 0;
    for (int p = 32; p >= 1; p--) { int n = (int)order[p] - s[p] - carry; s[p] = (n + 256) & 0xFF; carry = (n < 0); }
    if (carry) throw std::runtime_error("negate S: carry");
    if (s.size() > 1 && s[0] == 0 && s[1] < 0x80) s.erase(s.begin());
    vchSig.clear();
    vchSig.push_back(0x30); vchSig.push_back(4 + r.size() + s.size());
    vchSig.push_back(0x02); vchSig.push_back(r.size()); vchSig.insert(vchSig.end(), r.begin(), r.end());
    vchSig.push_back(0x02); vchSig.push_back(s.size()); vchSig.insert(vchSig.end(), s.begin(), s.end());
}
CScript CkScript() { return CScript() << OP_CHECKSIG; }
CScript MsEncScript() { return CScript() << OP_2 << KeyBytes("K1", "ux") << KeyBytes("K1", "u") << OP_2 << OP_CHECKMULTISIG; }
CScript WshEqScript() { return CScript() << OP_1 << OP_EQUAL; }
CScript MsScript() { return CScript() << OP_2 << ToByteVector(KeyOf("K1").GetPubKey()) << ToByteVector(KeyOf("K2").GetPubKey()) << OP_2 << OP_CHECKMULTISIG; }
CScript SpkOfClass(const std::string& cls)
{
    if (cls == "true") return CScript() << OP_TRUE;
    if (cls == "fail") return CScript() << OP_1 << OP_VERIFY << OP_0;
    if (cls == "cltv") return CScript() << OP_1 << OP_CHECKLOCKTIMEVERIFY << OP_DROP << OP_TRUE;
    if (cls == "csv") return CScript() << OP_1 << OP_CHECKSEQUENCEVERIFY << OP_DROP << OP_TRUE;
    if (cls == "nopx") return CScript() << OP_NOP4 << OP_TRUE;
    if (cls == "p2pk") return CScript() << ToByteVector(KeyOf("K1").GetPubKey()) << OP_CHECKSIG;
    if (cls == "wpkh") return GetScriptForDestination(WitnessV0KeyHash(KeyOf("K1").GetPubKey()));
    if (cls == "wsheq") return GetScriptForDestination(WitnessV0ScriptHash(WshEqScript()));
    if (cls == "ms") return GetScriptForDestination(WitnessV0ScriptHash(MsScript()));
    if (cls == "wshck") return GetScriptForDestination(WitnessV0ScriptHash(CkScript()));
    if (cls == "shck") return GetScriptForDestination(ScriptHash(CkScript()));
    if (cls == "msenc") return MsEncScript();
    throw std::runtime_error("bad coin class " + cls);
}

std::unique_ptr<ChainSim> MakeBaseSim()
{
    SimOptions o;
    o.args = {"-acceptnonstdtxn=1"};     // bare scripts as outputs; the script flags of the mempool path do not depend on it
    const UniValue& fh = g_uni["flagheights"];
    for (const auto& k : fh.getKeys()) {
        const std::string name = k == "CLTV" ? "cltv" : k == "CSV" ? "csv" : "";
        if (name.empty()) throw std::runtime_error("flag " + k + " cannot be mapped to a deployment");
        o.args.push_back("-testactivationheight=" + name + "@" + std::to_string(fh[k].getInt<int>()));
    }
    o.validation_cache = !g_nocache;
    o.worker_threads = g_threads;
    auto sim = MakeSim(o);
    const int h0 = g_uni["h0"].getInt<int>();
    if (h0 < 103) throw std::runtime_error("h0 must be at least 103");
    const int64_t g = Params().GenesisBlock().nTime;
    SetMockTime(g + h0 + 100000);
    g_base = Base{}; g_base.h0 = h0;
    uint256 prev = Params().GenesisBlock().GetHash();
    CTransactionRef cb1;
    for (int h = 1; h <= h0; ++h) {
        ChainSim::BlockSpec s; s.prev = prev; s.height = h; s.time = g + h; s.extra_nonce = 7;
        s.cb_value = h == 1 ? GetBlockSubsidy(1, sim->consensus()) : 0;
        if (h == 102) {
            // the funding transaction: one output per coin of the universe, spends the (now mature) coinbase of height 1
            CMutableTransaction m; m.version = 1;
            m.vin.emplace_back(COutPoint(cb1->GetHash(), 0));
            for (size_t i = 0; i < g_uni["coins"].size(); ++i) m.vout.emplace_back(COIN_VALUE, SpkOfClass(g_uni["coins"][i].get_str()));
            sim->SignP2PK(m, 0, cb1->vout[0]);
            g_base.funding = MakeTransactionRef(m);
            s.txs.push_back(g_base.funding);
        }
        auto b = sim->BuildBlock(s);
        auto [r, nb] = sim->SubmitBlock(b, true);
        if (!r || sim->Tip()->GetBlockHash() != b->GetHash()) throw std::runtime_error("base chain block rejected at height " + std::to_string(h) + ": " + sim->Reason(b->GetHash()));
        if (h == 1) cb1 = b->vtx[0];
        prev = b->GetHash();
    }
    g_base.tip_hash = prev; g_base.t0 = g + h0;
    if (sim->m_node.mempool->m_opts.require_standard) throw std::runtime_error("node requires standard transactions");
    return sim;
}

struct Blk { uint256 hash; int height; int64_t time; };
struct SigCtx { CScript script_code; CAmount amount; SigVersion sv; };

struct World {
    std::unique_ptr<ChainSim> sim;
    std::vector<Blk> chain;                       // active chain from the base tip ([0]) upwards
    int nblocks{0};
    std::vector<CTransactionRef> txu;             // index = model wtxid (1-based)
    std::vector<int> tid;                         // model txid of each
    std::map<uint256, int> by_wtxid;
    std::map<int, CMutableTransaction> body;      // model txid -> transaction without scriptSig / witness
    std::map<int, SigCtx> sigctx;                 // model txid -> what its (single) signature-checking input commits to
    std::map<int, std::string> cls_of;            // model txid -> class of the spent coin
    std::vector<int> dg;                          // digest id of each (twins share it)
    std::map<std::string, std::vector<unsigned char>> sig_bytes;   // every signature of the universe: "sp:sd:sht:senc" -> bytes without the hash type
    std::map<std::string, CPubKey> key_forms;     // every public key encoding of the universe: "p:enc" -> the key as CPubKey holds it
    std::map<std::string, uint256> digests;       // every digest: "dg:ht"
    std::set<std::vector<std::string>> flagsets;  // the flag sets lookups can be made under
    std::set<int> legacy;

    World()
    {
        sim = MakeBaseSim();
        chain.push_back({g_base.tip_hash, g_base.h0, g_base.t0});
        BuildUniverse();
        // flag sets: STANDARD and the consensus flags of every height near the base tip
        flagsets.insert(StdNames());
        for (int h = g_base.h0; h <= g_base.h0 + 12; ++h) flagsets.insert(ConsNames(h));
    }
    CTxMemPool& mp() { return *sim->m_node.mempool; }
    ValidationCache& vc() { return sim->cm().m_validation_cache; }

    // ---- flags
    static std::vector<std::string> ConsNames(int h)
    {
        std::vector<std::string> f;
        const UniValue& fh = g_uni["flagheights"];
        for (const auto& k : fh.getKeys()) if (h >= fh[k].getInt<int>()) f.push_back(k);
        std::sort(f.begin(), f.end());
        return f;
    }
    static std::vector<std::string> StdNames()
    {
        std::vector<std::string> f = g_uni["flagheights"].getKeys(); f.push_back("POLICY");
        std::sort(f.begin(), f.end());
        return f;
    }
    static script_verify_flags RealFlags(const std::vector<std::string>& names)
    {
        if (std::find(names.begin(), names.end(), "POLICY") != names.end()) return STANDARD_SCRIPT_VERIFY_FLAGS;
        script_verify_flags f{SCRIPT_VERIFY_P2SH | SCRIPT_VERIFY_WITNESS | SCRIPT_VERIFY_TAPROOT};
        f |= SCRIPT_VERIFY_DERSIG; f |= SCRIPT_VERIFY_NULLDUMMY;
        const UniValue& fh = g_uni["flagheights"];
        auto on = [&](const char* n) { return !fh.exists(n) || std::find(names.begin(), names.end(), n) != names.end(); };
        if (on("CLTV")) f |= SCRIPT_VERIFY_CHECKLOCKTIMEVERIFY;
        if (on("CSV")) f |= SCRIPT_VERIFY_CHECKSEQUENCEVERIFY;
        return f;
    }

    // ---- universe
    COutPoint OutPointOf(const UniValue& op)
    {
        const int t = op[0].getInt<int>(), i = op[1].getInt<int>();
        if (t == 0) return COutPoint(g_base.funding->GetHash(), i - 1);
        if (!body.count(t)) throw std::runtime_error("parent precedes child in the universe");
        return COutPoint(Txid::FromUint256(CTransaction(body.at(t)).GetHash().ToUint256()), i - 1);
    }
    static int HashType(const std::string& ht) { if (ht == "all") return SIGHASH_ALL; if (ht == "none") return SIGHASH_NONE; throw std::runtime_error("hash type " + ht); }
    uint256 Digest(int d, const std::string& ht) { const SigCtx& c = sigctx.at(d); return SignatureHash(c.script_code, body.at(d), 0, HashType(ht), c.amount, c.sv); }
    // the signature the model calls [sp, sd, sht, senc]: made with key sp over the digest of sd under hash type sht, low or high S (without the hash type byte)
    static std::string SigId(const UniValue& g) { return g["sp"].get_str() + ":" + std::to_string(g["sd"].getInt<int>()) + ":" + g["sht"].get_str() + ":" + g["senc"].get_str(); }
    const std::vector<unsigned char>& SigBytes(const UniValue& g)
    {
        const std::string id = SigId(g);
        auto it = sig_bytes.find(id);
        if (it != sig_bytes.end()) return it->second;
        std::vector<unsigned char> sig;
        if (!KeyOf(g["sp"].get_str()).Sign(Digest(g["sd"].getInt<int>(), g["sht"].get_str()), sig)) throw std::runtime_error("signing failed");
        if (g["senc"].get_str() == "high") NegateSignatureS(sig); else if (g["senc"].get_str() != "low") throw std::runtime_error("bad senc");
        return sig_bytes[id] = sig;
    }
    std::vector<unsigned char> SigPush(const UniValue& g)
    {
        auto s = SigBytes(g); s.push_back((unsigned char)HashType(g["ht"].get_str()));
        return s;
    }
    std::vector<unsigned char> KeyPush(const UniValue& g)
    {
        auto b = KeyBytes(g["p"].get_str(), g["enc"].get_str());
        key_forms.emplace(g["p"].get_str() + ":" + g["enc"].get_str(), CPubKey(b));
        return b;
    }
    void BuildUniverse()
    {
        const UniValue& U = g_uni["universe"];
        txu.resize(U.size() + 1); tid.assign(U.size() + 1, 0); dg.assign(U.size() + 1, 0);
        // pass 1: bodies (twins share one), in universe order so that parents precede children
        for (size_t t = 1; t <= U.size(); ++t) {
            const UniValue& T = U[t - 1];
            const int d = T["dg"].getInt<int>();
            tid[t] = T["tid"].getInt<int>(); dg[t] = d;
            if (body.count(d)) continue;
            if (d != tid[t]) throw std::runtime_error("the first transaction of a digest class names it");
            if (T["ins"].size() != 1) throw std::runtime_error("universe transactions have one input");
            CMutableTransaction m; m.version = 1; m.nLockTime = 0;
            m.vin.emplace_back(OutPointOf(T["ins"][0]));
            const bool from_funding = T["ins"][0][0].getInt<int>() == 0;
            m.vout.emplace_back(from_funding ? OUT_VALUE : OUT_VALUE / 2, CScript() << OP_TRUE);    // children pay a fee too
            m.vout.emplace_back(0, CScript() << OP_RETURN << std::vector<unsigned char>(30, (unsigned char)(0xA0 + d)));   // distinct, and above the 65-byte minimum
            body[d] = m;
            const int pt = T["ins"][0][0].getInt<int>();
            const std::string cls = pt == 0 ? g_uni["coins"][T["ins"][0][1].getInt<int>() - 1].get_str() : "true";
            cls_of[d] = cls;
            const CAmount amount = pt == 0 ? COIN_VALUE : OUT_VALUE;
            if (cls == "wpkh") sigctx[d] = {GetScriptForDestination(PKHash(KeyOf("K1").GetPubKey())), amount, SigVersion::WITNESS_V0};
            else if (cls == "ms") sigctx[d] = {MsScript(), amount, SigVersion::WITNESS_V0};
            else if (cls == "p2pk") sigctx[d] = {SpkOfClass("p2pk"), amount, SigVersion::BASE};
            else if (cls == "wshck") sigctx[d] = {CkScript(), amount, SigVersion::WITNESS_V0};
            else if (cls == "shck") sigctx[d] = {CkScript(), amount, SigVersion::BASE};
            else if (cls == "msenc") sigctx[d] = {MsEncScript(), amount, SigVersion::BASE};
            const bool wit = cls == "wpkh" || cls == "ms" || cls == "wshck";
            if (T["sigs"].size() && T["sv"].get_str() != (wit ? "wit" : "base")) throw std::runtime_error("sv of the model does not fit the coin class " + cls);
        }
        // pass 2: scriptSig / witness of every variant
        for (size_t t = 1; t <= U.size(); ++t) {
            const UniValue& T = U[t - 1];
            const int d = dg[t];
            CMutableTransaction m = body.at(d);
            const std::string cls = cls_of.at(d);
            const UniValue& sigs = T["sigs"];
            const bool wok = T["wok"].get_bool();
            auto plain_key = [&](const UniValue& g, const char* k) { return g["p"].get_str() == k && g["enc"].get_str() == "c"; };
            auto& wit = m.vin[0].scriptWitness.stack;
            if (cls == "wsheq") {
                const CScript ws = WshEqScript();
                wit = {std::vector<unsigned char>{(unsigned char)(wok ? 1 : 2)}, std::vector<unsigned char>(ws.begin(), ws.end())};
            } else if (cls == "wpkh") {
                if (sigs.size() != 1 || !plain_key(sigs[0], "K1") || !wok) throw std::runtime_error("wpkh spend: one signature checked against K1");
                wit = {SigPush(sigs[0]), KeyPush(sigs[0])};
            } else if (cls == "ms") {
                // OP_CHECKMULTISIG compares the topmost signature with the topmost key first: model check 1 = (upper signature, K2), check 2 = (lower signature, K1)
                if (sigs.size() != 2 || !plain_key(sigs[0], "K2") || !plain_key(sigs[1], "K1") || !wok) throw std::runtime_error("ms spend: checks against K2 then K1");
                KeyPush(sigs[0]); KeyPush(sigs[1]);
                const CScript ws = MsScript();
                wit = {std::vector<unsigned char>{}, SigPush(sigs[1]), SigPush(sigs[0]), std::vector<unsigned char>(ws.begin(), ws.end())};
            } else if (cls == "p2pk") {
                if (sigs.size() != 1 || !plain_key(sigs[0], "K1") || !wok) throw std::runtime_error("p2pk spend: one signature checked against K1");
                KeyPush(sigs[0]);
                m.vin[0].scriptSig = CScript() << SigPush(sigs[0]);
                legacy.insert(tid[t]);
            } else if (cls == "wshck") {
                // the spender supplies the key: <sig> <key in the model's encoding> <witness script>
                if (sigs.size() != 1 || !wok) throw std::runtime_error("wshck spend: one signature check");
                const CScript ws = CkScript();
                wit = {SigPush(sigs[0]), KeyPush(sigs[0]), std::vector<unsigned char>(ws.begin(), ws.end())};
            } else if (cls == "shck") {
                if (sigs.size() != 1 || !wok) throw std::runtime_error("shck spend: one signature check");
                const CScript rs = CkScript();
                m.vin[0].scriptSig = CScript() << SigPush(sigs[0]) << KeyPush(sigs[0]) << std::vector<unsigned char>(rs.begin(), rs.end());
                legacy.insert(tid[t]);
            } else if (cls == "msenc") {
                // OP_CHECKMULTISIG compares the topmost signature with the topmost key (the last one of the script, K1 as "u") first, then the next with K1 as "ux"
                if (sigs.size() != 2 || sigs[0]["p"].get_str() != "K1" || sigs[0]["enc"].get_str() != "u" || sigs[1]["p"].get_str() != "K1" || sigs[1]["enc"].get_str() != "ux" || !wok)
                    throw std::runtime_error("msenc spend: checks against K1(u) then K1(ux)");
                KeyPush(sigs[0]); KeyPush(sigs[1]);
                m.vin[0].scriptSig = CScript() << OP_0 << SigPush(sigs[1]) << SigPush(sigs[0]);
                legacy.insert(tid[t]);
            } else {
                if (sigs.size() != 0 || !wok) throw std::runtime_error("plain spend with signatures / failing witness");
            }
            // legacy: the scriptSig is part of the txid, so every variant has its own txid (and must say so), and none has children in the universe
            if (legacy.count(tid[t]) && (int)t != tid[t]) throw std::runtime_error("scriptSig twins have different txids");
            if (!legacy.count(tid[t]) && tid[t] != d) throw std::runtime_error("only scriptSig twins share a digest without sharing the txid");
            if (legacy.count(T["ins"][0][0].getInt<int>())) throw std::runtime_error("legacy spends have no children");
            for (size_t k = 0; k < sigs.size(); ++k) { SigBytes(sigs[k]); for (const char* ht : {"all", "none"}) digests.emplace(std::to_string(d) + ":" + ht, Digest(d, ht)); }
            txu[t] = MakeTransactionRef(m);
            by_wtxid[txu[t]->GetWitnessHash().ToUint256()] = (int)t;
        }
    }

    // ---- actions
    static std::string Norm(const std::string& why)
    {
        if (why.rfind("mempool-script-verify-flag-failed", 0) == 0 || why.rfind("mandatory-script-verify-flag-failed", 0) == 0 ||
            why.rfind("non-mandatory-script-verify-flag", 0) == 0 || why.rfind("block-script-verify-flag-failed", 0) == 0) return "script";
        if (why == "bad-txns-inputs-missingorspent" || why == "txn-already-known") return "noinputs";
        if (why == "txn-already-in-mempool" || why == "txn-same-nonwitness-data-in-mempool") return "dup";
        if (why == "bad-txns-BIP30") return "bip30";
        if (why.rfind("insufficient fee", 0) == 0 || why == "txn-mempool-conflict" || why.rfind("replacement", 0) == 0 || why == "bip125-replacement-disallowed" ||
            why.rfind("too many potential replacements", 0) == 0) return "conflict";
        return why;
    }
    std::shared_ptr<CBlock> MakeBlock(const UniValue& list)
    {
        const Blk& p = chain.back();
        ChainSim::BlockSpec s; s.prev = p.hash; s.height = p.height + 1; s.time = p.time + 1; s.extra_nonce = ++nblocks; s.cb_value = 0;
        for (size_t i = 0; i < list.size(); ++i) { s.txs.push_back(txu.at(list[i].getInt<int>())); if (s.txs.back()->HasWitness()) s.witness_commitment = true; }
        return sim->BuildBlock(s);
    }
    UniValue Apply(const UniValue& a)
    {
        const std::string op = a[0].get_str();
        std::string v = "none";
        if (op == "submit" || op == "test") {
            const MempoolAcceptResult res = WITH_LOCK(cs_main, return sim->cm().ProcessTransaction(txu.at(a[1].getInt<int>()), op == "test"));
            v = res.m_result_type == MempoolAcceptResult::ResultType::VALID ? "ok" : Norm(res.m_state.GetRejectReason());
        } else if (op == "mine") {
            auto b = MakeBlock(a[1]);
            sim->SubmitBlock(b, true);
            const std::string why = sim->Reason(b->GetHash());
            if (!why.empty()) v = Norm(why);
            else if (sim->Tip()->GetBlockHash() == b->GetHash()) { v = "ok"; chain.push_back({b->GetHash(), chain.back().height + 1, (int64_t)b->nTime}); }
            else v = "not-connected";
        } else if (op == "testblock") {
            auto b = MakeBlock(a[1]);
            const BlockValidationState st = WITH_LOCK(cs_main, return TestBlockValidity(sim->cm().ActiveChainstate(), *b, /*check_pow=*/true, /*check_merkle_root=*/true));
            v = st.IsValid() ? "ok" : Norm(st.GetRejectReason());
        } else if (op == "invalidate") {
            if (chain.size() < 2) throw std::runtime_error("invalidate below the base tip");
            sim->Invalidate(chain.back().hash);
            chain.pop_back();
            if (sim->Tip()->GetBlockHash() != chain.back().hash) v = "tip-not-parent";
        } else throw std::runtime_error("unknown op " + op);
        {
            LOCK(cs_main);
            mp().check(sim->cm().ActiveChainstate().CoinsTip(), sim->cm().ActiveChain().Height() + 1);
        }
        UniValue r(UniValue::VARR); r.push_back(v);
        return r;
    }

    // ---- projection
    UniValue Observable()
    {
        LOCK(cs_main);
        std::set<int> pool;
        {
            LOCK(mp().cs);
            for (const auto& e : mp().entryAll()) {
                auto it = by_wtxid.find(e.get().GetTx().GetWitnessHash().ToUint256());
                pool.insert(it == by_wtxid.end() ? -1 : it->second);
            }
        }
        const CBlockIndex* tip = sim->cm().ActiveChain().Tip();
        // the harness's flag mapping must be the node's
        if (RealFlags(ConsNames(tip->nHeight)) != GetBlockScriptFlags(*tip, sim->cm())) throw std::runtime_error("flag mapping of the harness differs from GetBlockScriptFlags");
        return Obj({{"tip", tip->nHeight}, {"pool", SortedIntArr(pool)}});
    }
    // cache contents as canonical strings, in the model's vocabulary
    std::set<std::string> ExecCache()
    {
        LOCK(cs_main);
        std::set<std::string> have;
        for (size_t t = 1; t < txu.size(); ++t) for (const auto& names : flagsets) {
            const script_verify_flags flags = RealFlags(names);
            uint256 entry;
            CSHA256 hasher = vc().ScriptExecutionCacheHasher();
            hasher.Write(UCharCast(txu[t]->GetWitnessHash().begin()), 32).Write((unsigned char*)&flags, sizeof(flags)).Finalize(entry.begin());
            if (vc().m_script_execution_cache.contains(entry, false)) have.insert(EcStr((int)t, names));
        }
        return have;
    }
    static std::string EcStr(int w, const std::vector<std::string>& names) { std::string s = std::to_string(w) + "|"; for (auto& n : names) s += n + ","; return s; }
    std::set<std::string> SigCache()
    {
        std::set<std::string> have;
        for (const auto& [sid, sig] : sig_bytes) for (const auto& [kid, key] : key_forms) for (const auto& [did, hash] : digests) {
            uint256 entry;
            vc().m_signature_cache.ComputeEntryECDSA(entry, hash, sig, key);
            if (vc().m_signature_cache.Get(entry, false)) have.insert(sid + "|" + kid + "|" + did);
        }
        return have;
    }
};

std::set<std::string> ExpEc(const UniValue& ec)
{
    std::set<std::string> s;
    for (size_t i = 0; i < ec.size(); ++i) {
        std::vector<std::string> names; for (size_t j = 0; j < ec[i]["f"].size(); ++j) names.push_back(ec[i]["f"][j].get_str());
        std::sort(names.begin(), names.end());
        s.insert(World::EcStr(ec[i]["w"].getInt<int>(), names));
    }
    return s;
}
std::set<std::string> ExpSc(const UniValue& sc)
{
    std::set<std::string> s;
    for (size_t i = 0; i < sc.size(); ++i) {
        const UniValue& e = sc[i];
        s.insert(e["s"][0].get_str() + ":" + std::to_string(e["s"][1].getInt<int>()) + ":" + e["s"][2].get_str() + ":" + e["s"][3].get_str() + "|" +
                 e["p"][0].get_str() + ":" + e["p"][1].get_str() + "|" + std::to_string(e["d"][0].getInt<int>()) + ":" + e["d"][1].get_str());
    }
    return s;
}
std::string Join(const std::set<std::string>& s) { std::string o; for (auto& x : s) o += x + " "; return o; }

// Like vfh::ReplayMain, except that a difference in the cache contents neither ends the test nor counts as a mismatch: the
// model's verdicts are cache free, so they stay the reference whatever the caches hold.
int Replay(const std::string& path)
{
    InstallAbortHandlers();
    bool reported_cache{false};
    ForEachLine(path, [&](size_t n, const UniValue& t) {
        R().cur_test = n; R().cur_step = 0; R().cur_action = UniValue::VNULL;
        std::unique_ptr<World> w;
        const UniValue& st = t["steps"];
        for (size_t i = 0; i < st.size(); ++i) {
            R().cur_step = i; R().cur_action = st[i]["a"];
            std::string why;
            try {
                if (!w) w = std::make_unique<World>();
                const UniValue res = w->Apply(st[i]["a"]);
                why = JsonDiff(st[i]["r"], res, "result");
                if (why.empty()) {
                    const UniValue have = w->Observable();
                    const UniValue& exp = st[i]["exp"];
                    for (const char* k : {"tip", "pool"}) { if (why.empty()) why = JsonDiff(exp[k], have[k], std::string("state.") + k); }
                }
                if (why.empty() && !g_nocache && g_threads == 0) {
                    const auto he = w->ExecCache(), hs = w->SigCache(), ee = ExpEc(st[i]["exp"]["ec"]), es = ExpSc(st[i]["exp"]["sc"]);
                    R().Count("cache_states_compared");
                    if (he != ee || hs != es) {
                        R().Count("cache_state_differs");
                        if (!reported_cache) {
                            reported_cache = true;
                            R().Info(Obj({{"kind", "cachediff"}, {"test", (uint64_t)n}, {"step", (uint64_t)i}, {"action", st[i]["a"]},
                                          {"exec_have", Join(he)}, {"exec_model", Join(ee)}, {"sig_have", Join(hs)}, {"sig_model", Join(es)}}));
                        }
                    }
                }
            } catch (const std::exception& e) { why = std::string("exception: ") + e.what(); }
            ++R().steps;
            if (!why.empty()) { R().Mismatch(st[i]["a"], why); break; }
        }
        ++R().tests;
    });
    R().Summary();
    return 0;
}
} // namespace

int main(int argc, char** argv)
{
    if (argc < 4) { std::cerr << "usage: valcache replay <tests> <universe.json> [nocache] [threads]\n"; return 2; }
    { std::ifstream f(argv[3]); std::stringstream ss; ss << f.rdbuf(); if (!g_uni.read(ss.str())) { std::cerr << "bad universe\n"; return 2; } }
    for (int i = 4; i < argc; ++i) { if (std::string(argv[i]) == "nocache") g_nocache = true; if (std::string(argv[i]) == "threads") g_threads = 2; }
    if (std::string(argv[1]) == "replay") return Replay(argv[2]);
    return 2;
}
