// Adapter for specs/Framing (C48). Every row of the TLC-enumerated table carries an input (a byte string assembled by the
// specification's reference serialiser, or a character string of a text codec) and the specification's verdict:
//   cs / varint   ReadCompactSize / VARINT: accept?, value, bytes consumed; canonical rows: the writer produces exactly the bytes
//   tx            UnserializeTransaction under TX_WITH_WITNESS / TX_NO_WITNESS: accept?, decoded transaction field by field,
//                 unread bytes; rows that are the serialisation of a known object: SerializeTransaction produces exactly the
//                 bytes, GetHash() = SHA256d(txidpre), GetWitnessHash() = SHA256d(wtxidpre)
//   p2p           CBlockHeader, CBlock, CInv, CBlockLocator, BlockTransactionsRequest, CBlockHeaderAndShortTxIDs, CAddress
//   money / fmtmoney / int / b58    ParseMoney, FormatMoney, ToIntegral<T>, DecodeBase58Check decision tables
// Only accept / reject, decoded values and produced bytes are compared (the class of a failure is counted, not judged).
#include <vfh.h>
#include <base58.h>
#include <blockencodings.h>
#include <consensus/amount.h>
#include <hash.h>
#include <netaddress.h>
#include <primitives/block.h>
#include <primitives/transaction.h>
#include <protocol.h>
#include <serialize.h>
#include <streams.h>
#include <uint256.h>
#include <util/moneystr.h>
#include <util/strencodings.h>
#include <util/string.h>
#include <util/time.h>
#include <cstring>
using namespace vfh;

namespace {
using Bytes = std::vector<unsigned char>;

Bytes BytesOf(const UniValue& a) { Bytes b; for (size_t i = 0; i < a.size(); ++i) b.push_back((unsigned char)a[i].getInt<int>()); return b; }
UniValue JBytes(std::span<const unsigned char> b) { UniValue a(UniValue::VARR); for (unsigned char c : b) a.push_back((int)c); return a; }
template <typename T> UniValue JLE(T v, size_t n) { UniValue a(UniValue::VARR); uint64_t x = (uint64_t)v; for (size_t i = 0; i < n; ++i) { a.push_back((int)(x & 0xff)); x >>= 8; } return a; }
uint64_t FromLimbs(const UniValue& l) { uint64_t v = 0; for (int i = 3; i >= 0; --i) v = (v << 16) | (uint64_t)l[i].getInt<int>(); return v; }
UniValue ToLimbs(uint64_t v) { UniValue a(UniValue::VARR); for (int i = 0; i < 4; ++i) { a.push_back((int)(v & 0xffff)); v >>= 16; } return a; }
std::string Hex(const Bytes& b) { return HexStr(b); }

// failure class of a deserialisation exception (informational)
std::string ClassOf(const std::string& what)
{
    if (what.find("non-canonical") != std::string::npos) return "noncanonical";
    if (what.find("size too large") != std::string::npos) return "toolarge";
    if (what.find("end of data") != std::string::npos) return "eof";
    if (what.find("Superfluous witness record") != std::string::npos) return "superfluous";
    if (what.find("Unknown transaction optional data") != std::string::npos) return "unknownflag";
    if (what.find("differential value overflow") != std::string::npos) return "overflow";
    if (what.find("exceeds limit of type") != std::string::npos) return "typelimit";
    return "other:" + what;
}
void NoteClass(const std::string& model, const std::string& impl) { if (model != impl) R().Count("failure_class_differs"); }

std::string Verdict(bool impl_ok, const std::string& impl_class, const UniValue& row)
{
    const std::string st = row["st"].get_str();
    if (impl_ok != (st == "ok")) return std::string("implementation ") + (impl_ok ? "accepts" : "rejects (" + impl_class + ")") + ", specification says " + st;
    if (!impl_ok) NoteClass(st, impl_class);
    return "";
}

// ---------------------------------------------------------------- cs
std::string CheckCs(const UniValue& row)
{
    const Bytes bytes = BytesOf(row["bytes"]);
    const bool rc = row["rc"].get_bool();
    for (int mode = 0; mode < 3; ++mode) {
        if (mode == 2 && !rc) continue;                         // COMPACTSIZE() is always range checked
        bool ok = true; std::string cls; uint64_t v = 0; size_t used = 0;
        try {
            if (mode == 0) { DataStream ds{bytes}; v = ReadCompactSize(ds, rc); used = bytes.size() - ds.size(); }
            else if (mode == 1) { SpanReader sr{bytes}; v = ReadCompactSize(sr, rc); used = bytes.size() - sr.size(); }
            else { DataStream ds{bytes}; ds >> COMPACTSIZE(v); used = bytes.size() - ds.size(); }
        } catch (const std::ios_base::failure& e) { ok = false; cls = ClassOf(e.what()); }
        R().Count("evaluations");
        std::string why = Verdict(ok, cls, row);
        if (!why.empty()) return "ReadCompactSize: " + why;
        if (ok) {
            if (v != FromLimbs(row["val"])) return "ReadCompactSize returns " + std::to_string(v) + ", specification " + std::to_string(FromLimbs(row["val"]));
            if ((int64_t)used != row["used"].getInt<int64_t>()) return "ReadCompactSize consumed " + std::to_string(used) + " bytes";
        }
    }
    if (row["canonical"].get_bool()) {
        const uint64_t v = FromLimbs(row["full"]);
        DataStream out; WriteCompactSize(out, v);
        const Bytes got(UCharCast(out.data()), UCharCast(out.data()) + out.size());
        if (got != bytes) return "WriteCompactSize(" + std::to_string(v) + ") writes " + Hex(got) + ", specification " + Hex(bytes);
        if (GetSizeOfCompactSize(v) != bytes.size()) return "GetSizeOfCompactSize disagrees with the written length";
        R().Count("evaluations");
    }
    return "";
}

// ---------------------------------------------------------------- varint
template <typename T, VarIntMode Mode>
std::string CheckVarIntT(const UniValue& row)
{
    const Bytes bytes = BytesOf(row["bytes"]);
    bool ok = true; std::string cls; T v{0}; size_t used = 0;
    DataStream ds{bytes};
    try { ds >> Using<VarIntFormatter<Mode>>(v); used = bytes.size() - ds.size(); }
    catch (const std::ios_base::failure& e) { ok = false; cls = ClassOf(e.what()); }
    R().Count("evaluations");
    std::string why = Verdict(ok, cls, row);
    if (!why.empty()) return "ReadVarInt: " + why;
    if (!ok) return "";
    if ((int64_t)v != row["val"].getInt<int64_t>()) return "ReadVarInt returns " + std::to_string((int64_t)v) + ", specification " + std::to_string(row["val"].getInt<int64_t>());
    if ((int64_t)used != row["used"].getInt<int64_t>()) return "ReadVarInt consumed " + std::to_string(used) + " bytes";
    DataStream out; out << Using<VarIntFormatter<Mode>>(v);
    const Bytes got(UCharCast(out.data()), UCharCast(out.data()) + out.size());
    if (got != Bytes(bytes.begin(), bytes.begin() + used)) return "WriteVarInt of the value read does not give back the bytes consumed";
    return "";
}
std::string CheckVarInt(const UniValue& row)
{
    const std::string T = row["T"].get_str();
    if (T == "u8") return CheckVarIntT<uint8_t, VarIntMode::DEFAULT>(row);
    if (T == "u16") return CheckVarIntT<uint16_t, VarIntMode::DEFAULT>(row);
    return CheckVarIntT<int32_t, VarIntMode::NONNEGATIVE_SIGNED>(row);
}

// ---------------------------------------------------------------- transactions
template <typename Tx>
UniValue JTx(const Tx& tx)
{
    UniValue vin(UniValue::VARR), vout(UniValue::VARR);
    for (const CTxIn& in : tx.vin) {
        UniValue prev = JBytes(std::span<const unsigned char>(in.prevout.hash.ToUint256().begin(), 32));
        const UniValue n = JLE(in.prevout.n, 4);
        for (size_t k = 0; k < 4; ++k) prev.push_back(n[k]);
        UniValue wit(UniValue::VARR);
        for (const auto& item : in.scriptWitness.stack) wit.push_back(JBytes(item));
        vin.push_back(Obj({{"prev", prev}, {"script", JBytes(std::span<const unsigned char>(in.scriptSig.data(), in.scriptSig.size()))}, {"seq", JLE(in.nSequence, 4)}, {"wit", wit}}));
    }
    for (const CTxOut& out : tx.vout) {
        vout.push_back(Obj({{"val", JLE((uint64_t)out.nValue, 8)}, {"script", JBytes(std::span<const unsigned char>(out.scriptPubKey.data(), out.scriptPubKey.size()))}}));
    }
    return Obj({{"ver", JLE(tx.version, 4)}, {"vin", vin}, {"vout", vout}, {"lock", JLE(tx.nLockTime, 4)}});
}
uint32_t U32(const UniValue& a) { uint32_t v = 0; for (int i = 3; i >= 0; --i) v = (v << 8) | (uint32_t)a[i].getInt<int>(); return v; }
CMutableTransaction TxFromModel(const UniValue& o)
{
    CMutableTransaction tx;
    tx.version = U32(o["ver"]); tx.nLockTime = U32(o["lock"]);
    for (size_t i = 0; i < o["vin"].size(); ++i) {
        const UniValue& in = o["vin"][i];
        const Bytes prev = BytesOf(in["prev"]);
        uint256 h; std::memcpy(h.begin(), prev.data(), 32);
        uint32_t n = 0; for (int k = 3; k >= 0; --k) n = (n << 8) | prev[32 + k];
        const Bytes sc = BytesOf(in["script"]);
        CTxIn txin(COutPoint(Txid::FromUint256(h), n), CScript(sc.begin(), sc.end()), U32(in["seq"]));
        for (size_t k = 0; k < in["wit"].size(); ++k) txin.scriptWitness.stack.push_back(BytesOf(in["wit"][k]));
        tx.vin.push_back(txin);
    }
    for (size_t j = 0; j < o["vout"].size(); ++j) {
        const Bytes val = BytesOf(o["vout"][j]["val"]);
        uint64_t v = 0; for (int k = 7; k >= 0; --k) v = (v << 8) | val[k];
        const Bytes sc = BytesOf(o["vout"][j]["script"]);
        tx.vout.emplace_back((CAmount)v, CScript(sc.begin(), sc.end()));
    }
    return tx;
}
template <typename T, typename P> Bytes SerWith(const P& params, const T& obj) { DataStream s; s << params(obj); return Bytes(UCharCast(s.data()), UCharCast(s.data()) + s.size()); }
template <typename T> Bytes Ser(const T& obj) { DataStream s; s << obj; return Bytes(UCharCast(s.data()), UCharCast(s.data()) + s.size()); }

std::string CheckTx(const UniValue& row)
{
    const Bytes bytes = BytesOf(row["bytes"]);
    const bool aw = row["aw"].get_bool();
    const auto& params = aw ? TX_WITH_WITNESS : TX_NO_WITNESS;
    for (int mode = 0; mode < 3; ++mode) {
        bool ok = true; std::string cls; size_t rest = 0; UniValue have;
        try {
            if (mode == 0) { DataStream ds{bytes}; CMutableTransaction tx; ds >> params(tx); rest = ds.size(); have = JTx(tx); }
            else if (mode == 1) { SpanReader sr{bytes}; const CTransaction tx(deserialize, params, sr); rest = sr.size(); have = JTx(tx); }
            else { DataStream ds{bytes}; CTransactionRef tx; ds >> params(tx); rest = ds.size(); have = JTx(*tx); }
        } catch (const std::ios_base::failure& e) { ok = false; cls = ClassOf(e.what()); }
        R().Count("evaluations");
        std::string why = Verdict(ok, cls, row);
        if (!why.empty()) return "UnserializeTransaction: " + why;
        if (ok) {
            const std::string d = JsonDiff(row["tx"], have, "tx");
            if (!d.empty()) return "decoded transaction differs: " + d;
            if ((int64_t)rest != row["rest"].getInt<int64_t>()) return "unread bytes: implementation " + std::to_string(rest) + ", specification " + std::to_string(row["rest"].getInt<int64_t>());
        }
    }
    if (row["plain"].get_bool()) {
        // the row is the serialisation of a known object: writer and hashes
        const CMutableTransaction mtx = TxFromModel(row["obj"]);
        const CTransaction tx(mtx);
        const bool aws = row["aws"].get_bool();
        const Bytes got = aws ? SerWith(TX_WITH_WITNESS, tx) : SerWith(TX_NO_WITNESS, tx);
        if (got != bytes) return std::string("SerializeTransaction(") + (aws ? "TX_WITH_WITNESS" : "TX_NO_WITNESS") + ") writes " + Hex(got) + ", specification " + Hex(bytes);
        if ((aws ? SerWith(TX_WITH_WITNESS, mtx) : SerWith(TX_NO_WITNESS, mtx)) != bytes) return "CMutableTransaction serialises differently from CTransaction";
        if (::GetSerializeSize(aws ? TX_WITH_WITNESS(tx) : TX_NO_WITNESS(tx)) != bytes.size()) return "GetSerializeSize disagrees with the written length";
        const Bytes txidpre = BytesOf(row["txidpre"]), wtxidpre = BytesOf(row["wtxidpre"]);
        if (tx.GetHash().ToUint256() != Hash(txidpre)) return "GetHash() is not the double SHA256 of the specification's no-witness serialisation";
        if (tx.GetWitnessHash().ToUint256() != Hash(wtxidpre)) return "GetWitnessHash() is not the double SHA256 of the specification's witness serialisation";
        if (mtx.GetHash().ToUint256() != Hash(txidpre)) return "CMutableTransaction::GetHash() is not the double SHA256 of the no-witness serialisation";
        if (tx.HasWitness() != (txidpre != wtxidpre)) return "HasWitness() disagrees with the specification";
        R().Count("evaluations", 5);
        R().Count("hash_checks", 3);
    }
    return "";
}

// ---------------------------------------------------------------- p2p payloads
UniValue JHeader(const CBlockHeader& h)
{
    return Obj({{"ver", JLE((uint32_t)h.nVersion, 4)}, {"prev", JBytes(std::span<const unsigned char>(h.hashPrevBlock.begin(), 32))},
                {"root", JBytes(std::span<const unsigned char>(h.hashMerkleRoot.begin(), 32))}, {"time", JLE(h.nTime, 4)}, {"bits", JLE(h.nBits, 4)}, {"nonce", JLE(h.nNonce, 4)}});
}
// field access to a CBlockHeaderAndShortTxIDs the way src/test/blockencodings_tests.cpp does it: a mirror with the same layout
// that reads the serialisation of the real object
struct CmpctMirror {
    CBlockHeader header;
    uint64_t nonce{0};
    std::vector<uint64_t> shorttxids;
    std::vector<PrefilledTransaction> prefilledtxn;
    SERIALIZE_METHODS(CmpctMirror, obj) { READWRITE(obj.header, obj.nonce, Using<VectorFormatter<CustomUintFormatter<CBlockHeaderAndShortTxIDs::SHORTTXIDS_LENGTH>>>(obj.shorttxids), obj.prefilledtxn); }
};

// deserialises `bytes` as the object kind of the row; returns the decoded object as JSON (shape of the specification), the
// number of unread bytes and the object's own serialisation
struct Decoded { UniValue v; size_t rest{0}; Bytes reser; };
Decoded DecodeP2p(const UniValue& row, const Bytes& bytes)
{
    const std::string obj = row["obj"].get_str();
    Decoded d;
    DataStream ds{bytes};
    if (obj == "header") { CBlockHeader h; ds >> h; d.v = JHeader(h); d.reser = Ser(h); }
    else if (obj == "block") {
        const auto& params = row["aw"].get_bool() ? TX_WITH_WITNESS : TX_NO_WITNESS;
        CBlock b; ds >> params(b);
        UniValue vtx(UniValue::VARR); for (const auto& tx : b.vtx) vtx.push_back(JTx(*tx));
        d.v = Obj({{"header", JHeader(static_cast<const CBlockHeader&>(b))}, {"vtx", vtx}}); d.reser = SerWith(params, b);
    } else if (obj == "inv") { CInv i; ds >> i; d.v = Obj({{"type", JLE(i.type, 4)}, {"hash", JBytes(std::span<const unsigned char>(i.hash.begin(), 32))}}); d.reser = Ser(i); }
    else if (obj == "locator") {
        CBlockLocator l; ds >> l;
        UniValue a(UniValue::VARR); for (const auto& h : l.vHave) a.push_back(JBytes(std::span<const unsigned char>(h.begin(), 32)));
        d.v = a; d.reser = Ser(l);
    } else if (obj == "getblocktxn") {
        BlockTransactionsRequest r; ds >> r;
        UniValue ix(UniValue::VARR); for (uint16_t i : r.indexes) ix.push_back((int)i);
        d.v = Obj({{"hash", JBytes(std::span<const unsigned char>(r.blockhash.begin(), 32))}, {"ix", ix}}); d.reser = Ser(r);
    } else if (obj == "cmpctblock") {
        CBlockHeaderAndShortTxIDs real; ds >> real;
        d.reser = Ser(real);
        CmpctMirror c; { DataStream again{d.reser}; again >> c; }
        UniValue ids(UniValue::VARR); for (uint64_t s : c.shorttxids) ids.push_back(JLE(s, 6));
        UniValue pf(UniValue::VARR); for (const auto& p : c.prefilledtxn) pf.push_back(Obj({{"index", (int)p.index}, {"tx", JTx(*p.tx)}}));
        d.v = Obj({{"header", JHeader(c.header)}, {"nonce", JLE(c.nonce, 8)}, {"shortids", ids}, {"prefilled", pf}});
    } else if (obj == "addr") {
        const auto params = row["v2"].get_bool() ? CAddress::V2_NETWORK : CAddress::V1_NETWORK;
        CAddress a; ds >> params(a);
        if (!a.IsIPv4()) throw std::ios_base::failure("harness: not an IPv4 address");
        Bytes ab = a.GetAddrBytes();                           // IPv4 comes back in the 16-byte IPv4-mapped form
        if (ab.size() == 16) ab.erase(ab.begin(), ab.begin() + 12);
        d.v = Obj({{"time", JLE((uint32_t)TicksSinceEpoch<std::chrono::seconds>(a.nTime), 4)}, {"services", ToLimbs((uint64_t)a.nServices)}, {"ip", JBytes(ab)}, {"port", (int)a.GetPort()}});
        d.reser = SerWith(params, a);
    } else throw std::runtime_error("unknown object kind " + obj);
    d.rest = ds.size();
    return d;
}

std::string CheckP2p(const UniValue& row)
{
    const Bytes bytes = BytesOf(row["bytes"]);
    bool ok = true; std::string cls; Decoded d;
    try { d = DecodeP2p(row, bytes); } catch (const std::ios_base::failure& e) { ok = false; cls = ClassOf(e.what()); }
    R().Count("evaluations");
    const std::string what = row["obj"].get_str();
    std::string why = Verdict(ok, cls, row);
    if (!why.empty()) return what + ": " + why;
    if (!ok) return "";
    const std::string diff = JsonDiff(row["v"][0], d.v, what);
    if (!diff.empty()) return what + ": decoded object differs: " + diff;
    if ((int64_t)d.rest != row["rest"].getInt<int64_t>()) return what + ": unread bytes: implementation " + std::to_string(d.rest) + ", specification " + std::to_string(row["rest"].getInt<int64_t>());
    if (row["canon"].get_bool()) {
        if (d.reser != bytes) return what + ": the object serialises to " + Hex(d.reser) + ", specification " + Hex(bytes);
        R().Count("evaluations");
    }
    return "";
}

// ---------------------------------------------------------------- text codecs
std::string Render(const UniValue& codes)
{
    std::string s;
    for (size_t i = 0; i < codes.size(); ++i) {
        const int c = codes[i].getInt<int>();
        if (c <= 9) s.push_back((char)('0' + c));
        else if (c == 10) s.push_back('.');
        else if (c == 11) s.push_back(' ');
        else if (c == 12) s.push_back('\t');
        else if (c == 13) s.push_back('-');
        else if (c == 14) s.push_back('+');
        else if (c == 15) s.push_back('x');
        else if (c == 16) s.push_back('\0');
    }
    return s;
}
std::string Show(const std::string& s) { std::string o; for (char c : s) { if (c == '\0') o += "\\0"; else if (c == '\t') o += "\\t"; else o.push_back(c); } return "\"" + o + "\""; }

std::string CheckMoneyParse(const std::string& s, const UniValue& row)
{
    const std::optional<CAmount> v = ParseMoney(s);
    R().Count("evaluations");
    if (v.has_value() != row["ok"].get_bool()) return "ParseMoney(" + Show(s) + ") " + (v ? "accepts" : "rejects") + ", specification " + (row["ok"].get_bool() ? "accepts" : "rejects");
    if (v && *v != AmountFromLimbs(row["v"])) return "ParseMoney(" + Show(s) + ") = " + std::to_string(*v) + ", specification " + std::to_string(AmountFromLimbs(row["v"]));
    return "";
}
std::string CheckMoney(const UniValue& row) { return CheckMoneyParse(Render(row["str"]), row); }
std::string CheckFmtMoney(const UniValue& row)
{
    const CAmount a = AmountFromLimbs(row["amt"]);
    const std::string want = Render(row["str"]);
    const std::string got = FormatMoney(a);
    R().Count("evaluations");
    if (got != want) return "FormatMoney(" + std::to_string(a) + ") = " + Show(got) + ", specification " + Show(want);
    return CheckMoneyParse(got, row);
}

template <typename T>
std::string CheckIntT(const std::string& s, const UniValue& row)
{
    const std::optional<T> v = ToIntegral<T>(s);
    R().Count("evaluations");
    if (v.has_value() != row["ok"].get_bool()) return "ToIntegral<" + row["T"].get_str() + ">(" + Show(s) + ") " + (v ? "accepts" : "rejects") + ", specification " + (row["ok"].get_bool() ? "accepts" : "rejects");
    if (v) {
        std::string want = row["neg"].get_bool() ? "-" : "";
        for (size_t i = 0; i < row["mag"].size(); ++i) want.push_back((char)('0' + row["mag"][i].getInt<int>()));
        const std::string got2 = util::ToString((int64_t)0 + *v);   // the sum promotes 8-bit types to numbers and keeps uint64_t
        if (got2 != want) return "ToIntegral<" + row["T"].get_str() + ">(" + Show(s) + ") = " + got2 + ", specification " + want;
    }
    return "";
}
std::string CheckInt(const UniValue& row)
{
    const std::string s = Render(row["str"]);
    const std::string T = row["T"].get_str();
    if (T == "u8") return CheckIntT<uint8_t>(s, row);
    if (T == "i8") return CheckIntT<int8_t>(s, row);
    if (T == "u16") return CheckIntT<uint16_t>(s, row);
    if (T == "i32") return CheckIntT<int32_t>(s, row);
    if (T == "u32") return CheckIntT<uint32_t>(s, row);
    if (T == "i64") return CheckIntT<int64_t>(s, row);
    return CheckIntT<uint64_t>(s, row);
}

std::string CheckB58(const UniValue& row)
{
    const Bytes payload = BytesOf(row["payload"]);
    const std::string cs = row["checksum"].get_str();
    Bytes data = payload;
    const uint256 h = Hash(payload);
    data.insert(data.end(), h.begin(), h.begin() + 4);
    if (cs == "wrong") data.back() ^= 0x01;
    if (cs == "short") data.resize(3);                       // fewer than four bytes in total (payload is empty)
    std::string s = EncodeBase58(data);
    if (cs == "right" && s != EncodeBase58Check(payload)) return "EncodeBase58Check is not EncodeBase58(payload + 4 bytes of the double SHA256)";
    const std::string inner = row["inner"].get_str();
    if (inner != "none") {
        if (s.size() < 2) return "harness: encoded string too short to put a character inside";
        s.insert(s.size() / 2, 1, inner == "space" ? ' ' : '0');   // '0' is not in the base58 alphabet
    }
    const std::string ws = row["ws"].get_str();
    if (ws == "lead" || ws == "both") s = " " + s;
    if (ws == "trail" || ws == "both") s += "  ";
    if (row["nul"].get_bool()) { s.push_back('\0'); s.push_back('1'); }
    const std::string ml = row["maxlen"].get_str();
    const int max_ret = ml == "less" ? (int)payload.size() - 1 : ml == "exact" ? (int)payload.size() : (int)payload.size() + 10;
    Bytes out;
    const bool ok = DecodeBase58Check(s, out, max_ret);
    R().Count("evaluations");
    if (ok != row["ok"].get_bool()) return "DecodeBase58Check(" + Show(s) + ", max " + std::to_string(max_ret) + ") " + (ok ? "accepts" : "rejects") + ", specification " + (row["ok"].get_bool() ? "accepts" : "rejects");
    if (ok && out != payload) return "DecodeBase58Check(" + Show(s) + ") returns a different payload";
    if (!ok && !out.empty()) return "DecodeBase58Check leaves data in the output after a failure";
    // codec fidelity of the other alphabets is not decided by the model; plain round trips of the same payload as a sanity check
    if (cs == "right" && inner == "none" && ws == "none" && !row["nul"].get_bool() && ml == "more") {
        if (TryParseHex<unsigned char>(HexStr(payload)) != std::optional<Bytes>(payload)) return "hex round trip fails";
        if (DecodeBase64(EncodeBase64(payload)) != std::optional<Bytes>(payload)) return "base64 round trip fails";
        if (DecodeBase32(EncodeBase32(payload)) != std::optional<Bytes>(payload)) return "base32 round trip fails";
        Bytes plain; if (!DecodeBase58(EncodeBase58(payload), plain, (int)payload.size()) || plain != payload) return "base58 round trip fails";
        if (!payload.empty()) {
            if (TryParseHex<unsigned char>(HexStr(payload) + "0")) return "odd-length hex accepted";
            if (TryParseHex<unsigned char>(HexStr(payload) + "zz")) return "non-hex characters accepted";
            if (DecodeBase64(EncodeBase64(payload) + "*")) return "base64 with an invalid character accepted";
            if (DecodeBase32(EncodeBase32(payload) + "1")) return "base32 with an invalid character accepted";
        }
        R().Count("codec_round_trips", 4);
    }
    return "";
}

std::string CheckRow(const UniValue& row)
{
    const std::string kind = row["kind"].get_str();
    R().Count("rows_" + kind);
    if (kind == "cs") return CheckCs(row);
    if (kind == "varint") return CheckVarInt(row);
    if (kind == "tx") return CheckTx(row);
    if (kind == "p2p") return CheckP2p(row);
    if (kind == "money") return CheckMoney(row);
    if (kind == "fmtmoney") return CheckFmtMoney(row);
    if (kind == "int") return CheckInt(row);
    if (kind == "b58") return CheckB58(row);
    return "unknown row kind " + kind;
}

} // namespace

int main(int argc, char** argv)
{
    if (argc < 3) return 2;
    if (std::string(argv[1]) != "table") return 2;
    // TableMain, but a mismatch is reported with a short form of the row (the replay file holds the whole row)
    InstallAbortHandlers();
    ForEachLine(argv[2], [&](size_t n, const UniValue& row) {
        UniValue act(UniValue::VOBJ);
        for (const std::string& k : row.getKeys()) {
            const UniValue& v = row[k];
            if (k == "bytes") { const Bytes b = BytesOf(v); act.pushKV("bytes_hex", HexStr(b).substr(0, 160) + (b.size() > 80 ? "..." : "")); }
            else if (v.isStr() || v.isBool() || v.isNum()) act.pushKV(k, v);
            else if (k == "str" || k == "payload" || k == "val" || k == "full" || k == "amt" || k == "mag") act.pushKV(k, v);
        }
        R().cur_test = n; R().cur_step = 0; R().cur_action = act;
        std::string why;
        try { why = CheckRow(row); } catch (const std::exception& e) { why = std::string("exception: ") + e.what(); }
        ++R().steps; ++R().tests;
        if (!why.empty()) R().Mismatch(act, why);
    });
    R().Summary();
    return 0;
}
