// Adapter for specs/Transport (C32): replays behaviours of the Transport specification on two real transport objects
// (V1Transport / V2Transport) wired back to back, or on one real V2Transport talking to a scripted BIP324 peer that is
// written here from the specification (on top of BIP324Cipher) and can also send decoys and a non-empty version packet.
#include <vfh.h>
#include <bip324.h>
#include <chainparams.h>
#include <crypto/sha256.h>
#include <key.h>
#include <net.h>
#include <protocol.h>
#include <random.h>
#include <span.h>
#include <test/util/setup_common.h>
#include <test/util/random.h>
#include <uint256.h>
#include <map>
#include <memory>
#include <optional>
#include <stdexcept>

using namespace vfh;

namespace {
uint256 Tag(const std::string& s)
{
    uint256 h;
    CSHA256().Write(reinterpret_cast<const unsigned char*>(s.data()), s.size()).Finalize(h.begin());
    return h;
}
std::vector<uint8_t> Bytes(const std::string& tag, size_t n)
{
    FastRandomContext rng(Tag(tag));
    return rng.randbytes<uint8_t>(n);
}

//! payload bytes of a payload id (generated once per process: some are megabytes long)
const std::vector<uint8_t>& Payload(const std::string& id, size_t n)
{
    static std::map<std::string, std::vector<uint8_t>> cache;
    auto it = cache.find(id);
    if (it == cache.end() || it->second.size() != n) it = cache.insert_or_assign(id, Bytes("payload " + id, n)).first;
    return it->second;
}

constexpr size_t MAX_CONTENTS = 1 + 12 + 4000000;

//! The harness's own BIP324 endpoint, following specs/Transport/Transport.tla (not V2Transport).
class ScriptedV2 final : public Transport
{
    BIP324Cipher m_cipher;
    const bool m_initiator;
    const std::vector<uint8_t> m_garbage;
    const int m_pre, m_vlen, m_dlen0;
    const std::map<std::string, int>& m_sids;
    std::vector<uint8_t> m_send; size_t m_sendpos{0};
    bool m_started{false}, m_ready{false};
    enum class RS { KEY, GARB, PKT, MSG } m_rs{RS::KEY};
    std::vector<uint8_t> m_rbuf, m_their_garbage, m_contents;
    bool m_have_len{false}, m_aad_pending{false}, m_version_seen{false};
    uint32_t m_plen{0};
    std::string m_none;

    void Append(std::span<const std::byte> b) { for (auto x : b) m_send.push_back(uint8_t(x)); }
    void Packet(std::span<const uint8_t> contents, std::span<const uint8_t> aad, bool ignore)
    {
        std::vector<std::byte> out(contents.size() + BIP324Cipher::EXPANSION);
        m_cipher.Encrypt(MakeByteSpan(contents), MakeByteSpan(aad), ignore, out);
        Append(out);
    }
    void Start()
    {
        m_started = true;
        Append(m_cipher.GetOurPubKey());
        m_send.insert(m_send.end(), m_garbage.begin(), m_garbage.end());
    }
public:
    ScriptedV2(bool initiator, const CKey& key, std::span<const std::byte> ent, std::vector<uint8_t> garbage, int pre, int vlen, int dlen0,
               const std::map<std::string, int>& sids)
        : m_cipher{key, ent}, m_initiator{initiator}, m_garbage{std::move(garbage)}, m_pre{pre}, m_vlen{vlen}, m_dlen0{dlen0}, m_sids{sids}
    {
        if (initiator) Start();
    }
    Info GetInfo() const noexcept override
    {
        Info i;
        if (m_version_seen) { i.transport_type = TransportProtocolType::V2; i.session_id = uint256(MakeUCharSpan(m_cipher.GetSessionID())); }
        else i.transport_type = TransportProtocolType::DETECTING;
        return i;
    }
    bool ReceivedMessageComplete() const override { return m_rs == RS::MSG; }
    bool ReceivedBytes(std::span<const uint8_t>& in) override
    {
        while (!in.empty()) {
            if (m_rs == RS::MSG) return true;
            if (m_rs == RS::KEY) {
                if (!m_started) Start();
                size_t n = std::min(in.size(), size_t{64} - m_rbuf.size());
                m_rbuf.insert(m_rbuf.end(), in.begin(), in.begin() + n); in = in.subspan(n);
                if (m_rbuf.size() < 64) continue;
                m_cipher.Initialize(EllSwiftPubKey(MakeByteSpan(m_rbuf)), m_initiator);
                m_rbuf.clear(); m_rs = RS::GARB; m_ready = true;
                Append(m_cipher.GetSendGarbageTerminator());
                bool first = true;
                std::vector<uint8_t> decoy = Bytes("decoy", m_dlen0), vers = Bytes("version contents", m_vlen);
                for (int i = 0; i < m_pre; ++i) { Packet(decoy, first ? std::span<const uint8_t>{m_garbage} : std::span<const uint8_t>{}, true); first = false; }
                Packet(vers, first ? std::span<const uint8_t>{m_garbage} : std::span<const uint8_t>{}, false);
            } else if (m_rs == RS::GARB) {
                m_rbuf.push_back(in[0]); in = in.subspan(1);
                if (m_rbuf.size() >= 16 && std::ranges::equal(MakeByteSpan(m_rbuf).last(16), m_cipher.GetReceiveGarbageTerminator())) {
                    m_their_garbage.assign(m_rbuf.begin(), m_rbuf.end() - 16);
                    m_rbuf.clear(); m_rs = RS::PKT; m_aad_pending = true;
                } else if (m_rbuf.size() == 4095 + 16) return false;
            } else {
                if (!m_have_len) {
                    size_t n = std::min(in.size(), size_t{3} - m_rbuf.size());
                    m_rbuf.insert(m_rbuf.end(), in.begin(), in.begin() + n); in = in.subspan(n);
                    if (m_rbuf.size() < 3) continue;
                    m_plen = m_cipher.DecryptLength(MakeByteSpan(m_rbuf));
                    if (m_plen > MAX_CONTENTS) return false;
                    m_have_len = true;
                } else {
                    size_t n = std::min(in.size(), size_t{m_plen} + 20 - m_rbuf.size());
                    m_rbuf.insert(m_rbuf.end(), in.begin(), in.begin() + n); in = in.subspan(n);
                    if (m_rbuf.size() < size_t{m_plen} + 20) continue;
                    m_contents.resize(m_plen);
                    bool ignore{false};
                    if (!m_cipher.Decrypt(MakeByteSpan(m_rbuf).subspan(3), m_aad_pending ? MakeByteSpan(m_their_garbage) : std::span<const std::byte>{}, ignore,
                                          MakeWritableByteSpan(m_contents))) return false;
                    m_aad_pending = false; m_have_len = false; m_rbuf.clear();
                    if (!ignore) { if (!m_version_seen) m_version_seen = true; else m_rs = RS::MSG; }
                }
            }
        }
        return true;
    }
    CNetMessage GetReceivedMessage(NodeClock::time_point time, bool& reject) override
    {
        CNetMessage msg{DataStream{}};
        reject = true;
        std::span<const uint8_t> c{m_contents};
        if (!c.empty()) {
            if (c[0] != 0) {
                for (const auto& [t, id] : m_sids) if (id == c[0]) { msg.m_type = t; reject = false; }
                c = c.subspan(1);
            } else if (c.size() >= 13) {
                size_t l = 0; while (l < 12 && c[1 + l] != 0) ++l;
                bool pad = true; for (size_t i = l; i < 12; ++i) pad = pad && c[1 + i] == 0;
                if (pad) { msg.m_type.assign(reinterpret_cast<const char*>(c.data() + 1), l); reject = false; }
                c = c.subspan(13);
            }
        }
        if (!reject) { msg.m_recv.resize(c.size()); std::copy(c.begin(), c.end(), UCharCast(msg.m_recv.data())); msg.m_message_size = c.size(); }
        m_rs = RS::PKT;
        return msg;
    }
    bool SetMessageToSend(CSerializedNetMsg& msg) noexcept override
    {
        if (!m_ready || !m_send.empty()) return false;
        std::vector<uint8_t> c;
        auto it = m_sids.find(msg.m_type);
        if (it != m_sids.end() && it->second != 0) c.push_back(uint8_t(it->second));
        else { c.assign(13, 0); std::copy(msg.m_type.begin(), msg.m_type.end(), c.begin() + 1); }
        c.insert(c.end(), msg.data.begin(), msg.data.end());
        Packet(c, {}, false);
        return true;
    }
    bool Decoy(size_t n)
    {
        if (!m_ready || !m_send.empty()) return false;
        Packet(Bytes("decoy", n), {}, true);
        return true;
    }
    BytesToSend GetBytesToSend(bool) const noexcept override { return {std::span{m_send}.subspan(m_sendpos), false, m_none}; }
    void MarkBytesSent(size_t n) noexcept override { m_sendpos += n; if (m_sendpos == m_send.size()) { m_send.clear(); m_sendpos = 0; } }
    size_t GetSendMemoryUsage() const noexcept override { return m_send.size(); }
    bool ShouldReconnectV1() const noexcept override { return false; }
};

struct World {
    std::unique_ptr<Transport> tr[2];
    ScriptedV2* scripted[2]{nullptr, nullptr};
    std::map<std::string, const std::vector<uint8_t>*> payloads;
    std::map<std::string, int> sids;
    UniValue recvlog[2]{UniValue{UniValue::VARR}, UniValue{UniValue::VARR}};
    bool failed[2]{false, false};
    uint64_t sent_total[2]{0, 0};
    std::optional<std::pair<uint64_t, int>> flip[2];

    explicit World(const UniValue& init)
    {
        const UniValue& cfg = init["cfg"];
        for (const auto& p : cfg["plen"].getKeys()) payloads[p] = &Payload(p, cfg["plen"][p].getInt<int64_t>());
        for (const auto& t : cfg["sids"].getKeys()) sids[t] = cfg["sids"][t].getInt<int>();
        const auto magic0 = Params().MessageStart()[0];
        for (int s = 0; s < 2; ++s) {
            const std::string kind = cfg["kind"][s].get_str();
            if (kind == "v1") { tr[s] = std::make_unique<V1Transport>(NodeId(s)); continue; }
            const UniValue& su = cfg["setup"][s];
            const int g = su["g"].getInt<int>();
            // deterministic key material; no single flipped bit of the first key byte may turn it into the first magic byte
            // (the responder would then keep waiting for a v1 header instead of answering with its key)
            for (int ctr = 0;; ++ctr) {
                const uint256 kb = Tag("vfh key " + std::to_string(s) + " " + std::to_string(ctr)), ent = Tag("vfh ent " + std::to_string(s) + " " + std::to_string(ctr));
                CKey key; key.Set(kb.begin(), kb.end(), true);
                if (!key.IsValid()) continue;
                BIP324Cipher probe(key, MakeByteSpan(ent));
                if (std::popcount(uint8_t(uint8_t(*probe.GetOurPubKey().data()) ^ magic0)) < 2) continue;
                std::vector<uint8_t> garbage = Bytes("garbage " + std::to_string(s), g);
                if (cfg["scripted"][s].get_bool()) {
                    auto p = std::make_unique<ScriptedV2>(s == 0, key, MakeByteSpan(ent), std::move(garbage), su["pre"].getInt<int>(), su["vlen"].getInt<int>(),
                                                          cfg["dlen0"].getInt<int>(), sids);
                    scripted[s] = p.get(); tr[s] = std::move(p);
                } else {
                    tr[s] = std::make_unique<V2Transport>(NodeId(s), /*initiating=*/s == 0, key, MakeByteSpan(ent), std::move(garbage));
                }
                break;
            }
        }
    }
    std::string PayloadId(std::span<const std::byte> data) const
    {
        for (const auto& [id, b] : payloads) if (b->size() == data.size() && std::ranges::equal(MakeByteSpan(*b), data)) return id;
        return "garbled(" + std::to_string(data.size()) + " bytes)";
    }
    // k bytes of direction d; returns {ok, n}
    std::pair<bool, size_t> Pump(int d, size_t k)
    {
        const auto& [bytes, more, type] = tr[d]->GetBytesToSend(false);
        if (bytes.size() < k) throw std::runtime_error("GetBytesToSend() offers " + std::to_string(bytes.size()) + " bytes, the model pumps " + std::to_string(k));
        std::vector<uint8_t> chunk(bytes.begin(), bytes.begin() + k);
        if (flip[d] && flip[d]->first >= sent_total[d] && flip[d]->first < sent_total[d] + k) chunk[flip[d]->first - sent_total[d]] ^= uint8_t(1u << flip[d]->second);
        std::span<const uint8_t> in{chunk};
        bool ok = true; size_t old;
        do { old = in.size(); ok = tr[1 - d]->ReceivedBytes(in); } while (ok && !in.empty() && in.size() < old);
        if (!ok) { failed[1 - d] = true; return {false, 0}; }
        const size_t n = k - in.size();
        tr[d]->MarkBytesSent(n);
        sent_total[d] += n;
        return {true, n};
    }
    UniValue Receive(int s, bool log)
    {
        if (!tr[s]->ReceivedMessageComplete()) throw std::runtime_error("ReceivedMessageComplete() is false");
        bool reject{false};
        CNetMessage msg = tr[s]->GetReceivedMessage({}, reject);
        if (reject) return Obj({{"r", "reject"}, {"t", ""}, {"p", ""}});
        if (msg.m_message_size != msg.m_recv.size()) throw std::runtime_error("m_message_size differs from the payload size");
        const std::string p = PayloadId(std::span<const std::byte>{msg.m_recv.data(), msg.m_recv.size()});
        if (log) recvlog[s].push_back(Obj({{"t", msg.m_type}, {"p", p}}));
        return Obj({{"r", "ok"}, {"t", msg.m_type}, {"p", p}});
    }
    UniValue Apply(const UniValue& a)
    {
        const std::string op = a[0].get_str();
        const int s = a[1].getInt<int>() - 1;
        if (op == "send") {
            CSerializedNetMsg msg; msg.m_type = a[2].get_str(); msg.data = *payloads.at(a[3].get_str());
            return UniValue{tr[s]->SetMessageToSend(msg)};
        }
        if (op == "decoy") {
            if (!scripted[s]) throw std::runtime_error("decoy on a real transport");
            return UniValue{scripted[s]->Decoy(a[2].getInt<int>())};
        }
        if (op == "pump") {
            auto [ok, n] = Pump(s, a[2].getInt<int64_t>());
            return Obj({{"ok", ok}, {"n", (int64_t)n}});
        }
        if (op == "recv") return Receive(s, true);
        if (op == "tamper") {
            const uint64_t pos = a[2].getInt<int64_t>();   // counted from the next byte to be delivered
            flip[s] = std::make_pair(sent_total[s] + pos, a[3].getInt<int>());
            return UniValue{true};
        }
        if (op == "burst") {
            // n small messages sent, delivered in changing fragmentations and retrieved one after the other
            const int n = a[2].getInt<int>();
            for (int i = 0; i < n; ++i) {
                // types of the universe only (a scripted peer knows the short ids of those)
                auto ty = sids.begin(); std::advance(ty, i % sids.size());
                CSerializedNetMsg msg; msg.m_type = ty->first;
                const std::vector<uint8_t> data = Bytes("burst " + std::to_string(i), i % 5 == 0 ? 0 : 8 + i % 40);
                msg.data = data;
                const std::string type = msg.m_type;
                if (!tr[s]->SetMessageToSend(msg)) throw std::runtime_error("burst: SetMessageToSend refused message " + std::to_string(i));
                for (int guard = 0; !tr[1 - s]->ReceivedMessageComplete(); ++guard) {
                    const size_t avail = std::get<0>(tr[s]->GetBytesToSend(false)).size();
                    if (avail == 0 || guard > 1000) throw std::runtime_error("burst: message " + std::to_string(i) + " does not arrive");
                    auto [ok, cnt] = Pump(s, i % 4 == 0 ? 1 : i % 4 == 1 ? std::min<size_t>(avail, 7) : avail);
                    if (!ok) throw std::runtime_error("burst: ReceivedBytes failed at message " + std::to_string(i));
                }
                bool reject{false};
                CNetMessage got = tr[1 - s]->GetReceivedMessage({}, reject);
                if (reject || got.m_type != type || !std::ranges::equal(MakeByteSpan(data), std::span<const std::byte>{got.m_recv.data(), got.m_recv.size()}))
                    throw std::runtime_error("burst: message " + std::to_string(i) + " arrives altered or rejected");
                if (std::get<0>(tr[s]->GetBytesToSend(false)).size() != 0) throw std::runtime_error("burst: bytes left after message " + std::to_string(i));
            }
            recvlog[1 - s].push_back(Obj({{"t", "burst"}, {"p", "burst"}}));
            return UniValue{true};
        }
        throw std::runtime_error("unknown op " + op);
    }
    UniValue Project()
    {
        UniValue rl(UniValue::VARR), fl(UniValue::VARR), tt(UniValue::VARR), av(UniValue::VARR), co(UniValue::VARR);
        std::optional<uint256> sid[2];
        bool both = true;
        for (int s = 0; s < 2; ++s) {
            rl.push_back(recvlog[s]); fl.push_back(failed[s]);
            const Transport::Info info = tr[s]->GetInfo();
            tt.push_back(info.transport_type == TransportProtocolType::V1 ? "v1" : info.transport_type == TransportProtocolType::V2 ? "v2" : "detecting");
            sid[s] = info.session_id; both = both && info.session_id.has_value();
            av.push_back((int64_t)std::get<0>(tr[s]->GetBytesToSend(false)).size());
            co.push_back(tr[s]->ReceivedMessageComplete());
        }
        return Obj({{"recv", rl}, {"failed", fl}, {"ttype", tt}, {"sideq", both ? (*sid[0] == *sid[1] ? "eq" : "neq") : "na"}, {"avail", av}, {"complete", co}});
    }
};

} // namespace

int main(int argc, char** argv)
{
    if (argc < 3) { std::cerr << "usage: transport replay <behaviours.ndjson>\n"; return 2; }
    const std::string mode = argv[1];
    auto setup = MakeNoLogFileContext<const BasicTestingSetup>(ChainType::REGTEST);
    if (mode == "replay") {
        return ReplayMain<World>(argv[2],
            [](const UniValue& init) { return std::make_unique<World>(init); },
            [](World& w, const UniValue& a) { return w.Apply(a); },
            [](World& w) { return w.Project(); });
    }
    std::cerr << "unknown mode\n";
    return 2;
}
