// Adapter for specs/CheckTx (C03): each row of the TLC-enumerated table is concretised into a real CTransaction and
// the verdict + reject reason of CheckTransaction are compared with the specification's.
#include <vfh.h>
#include <consensus/tx_check.h>
#include <consensus/validation.h>
#include <primitives/transaction.h>
#include <script/script.h>
#include <serialize.h>
using namespace vfh;

static std::string CheckRow(const UniValue& row)
{
    CMutableTransaction mtx;
    const UniValue& ins = row["ins"];
    const UniValue& outs = row["outs"];
    const std::string size = row["size"].get_str();
    for (size_t i = 0; i < ins.size(); ++i) {
        CTxIn in;
        const int p = ins[i].getInt<int>();
        if (p == 0) in.prevout.SetNull(); else in.prevout = COutPoint(Txid::FromUint256(uint256{(uint8_t)(p == 3 ? 3 : 1)}), p == 2 ? 8 : 7);
        { std::vector<unsigned char> b(i == 0 ? row["cbLen"].getInt<int>() : 2, 0x51); in.scriptSig = CScript(b.begin(), b.end()); }
        mtx.vin.push_back(in);
        // bulk-input rows: pairwise distinct further outputs of the transaction that prevouts 1 and 2 belong to
        const int nb = row.exists("bulkIn") ? row["bulkIn"].getInt<int>() : 0;
        if (nb > 0 && ((row["bulkPos"].get_str() == "mid" && i == 0) || (row["bulkPos"].get_str() == "end" && i + 1 == ins.size()))) {
            for (int k = 0; k < nb; ++k) {
                CTxIn f; f.prevout = COutPoint(Txid::FromUint256(uint256{(uint8_t)1}), 100 + k);
                f.scriptSig = CScript() << OP_TRUE << OP_TRUE;
                mtx.vin.push_back(f);
            }
        }
    }
    if (row.exists("bulk")) for (int k = 0; k < row["bulk"].getInt<int>(); ++k) mtx.vout.emplace_back(MAX_MONEY, CScript() << OP_TRUE);
    for (size_t i = 0; i < outs.size(); ++i) {
        mtx.vout.emplace_back(AmountFromLimbs(outs[i]), CScript() << OP_TRUE);
    }
    if (size != "small") {
        const size_t want = size == "lim_m1" ? 999999 : size == "lim" ? 1000000 : 1000001;
        // pad the last output's script, or (no outputs) the first scriptSig of a non-coinbase; iterate because the
        // compact-size prefix of the script grows with it
        for (int iter = 0; iter < 4; ++iter) {
            const size_t cur = ::GetSerializeSize(TX_NO_WITNESS(CTransaction(mtx)));
            if (cur == want) break;
            std::vector<unsigned char>* target = nullptr;
            CScript* sc = !mtx.vout.empty() ? &mtx.vout.back().scriptPubKey : &mtx.vin.at(0).scriptSig;
            const int64_t delta = (int64_t)want - (int64_t)cur;
            if (delta > 0) sc->insert(sc->end(), (size_t)delta, 0x6a); else sc->resize(sc->size() + delta);
            (void)target;
        }
        const size_t got = ::GetSerializeSize(TX_NO_WITNESS(CTransaction(mtx)));
        if (got != want) return "harness could not realise size class " + size + " (got " + std::to_string(got) + ")";
    }
    const CTransaction tx(mtx);
    TxValidationState st;
    const bool ok = CheckTransaction(tx, st);
    const std::string have = ok ? "ok" : st.GetRejectReason();
    if (ok != st.IsValid()) return "return value and state disagree";
    if (!ok && st.GetResult() != TxValidationResult::TX_CONSENSUS) return "failure is not classified TX_CONSENSUS";
    if (have != row["res"].get_str()) return "CheckTransaction says " + have + ", specification says " + row["res"].get_str();
    // determinism: a second evaluation gives the same answer
    TxValidationState st2;
    if (CheckTransaction(tx, st2) != ok || st2.GetRejectReason() != st.GetRejectReason()) return "second evaluation differs";
    return "";
}

int main(int argc, char** argv)
{
    if (argc < 3) return 2;
    if (std::string(argv[1]) == "table") return TableMain(argv[2], CheckRow);
    return 2;
}
