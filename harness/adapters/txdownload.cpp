// Adapter for specs/TxDownload (C64): replays model behaviours on a real node::TxDownloadManagerImpl with real mempool validation.
//   txdownload replay <tests.ndjson> <haspar 0|1> <kinds csv>
// A test is {init, steps:[{a, r, exp}]} as produced by vflib.Graph / vflib.sim_behaviours. Every test gets a fresh TxDownloadManagerImpl
// (two wtxid-relay peers: 1 preferred, 2 not) and a fresh universe of real transactions on the shared regtest node (netsim.h):
//   G      spends a P2WSH output (witness script  OP_DROP <pubkey> OP_CHECKSIG, witness  <sig> <filler> <script>)
//   Vbad   same transaction, signature corrupted          (script verification fails)
//   Vbig   same transaction, 81-byte filler               (bad-witness-nonstandard)
//   Vstrip same transaction, no witness                   (witness stripped)
//   Par    (haspar = 1) the unconfirmed transaction whose output they all spend
// The glue around the manager is the one net_processing.cpp has: tx message branch (ReceivedTx, ProcessTransaction, MempoolAcceptedTx /
// MempoolRejectedTx), ProcessOrphanTx until no work is left, and BlockConnected / BlockDisconnected / ActiveTipChange forwarded from
// the node's real validation signals. Compared after every step: mempool / orphanage membership of the universe, membership of every
// universe hash in the three filters, the peers with live (CANDIDATE / REQUESTED) announcements per hash, AlreadyHaveTx(W), and the
// call results (dropped inv, requested hashes, validated / verdict class).
#include "netsim.h"
#include <node/txdownloadman_impl.h>
#include <kernel/types.h>
#include <policy/packages.h>
using namespace vfh;
using namespace netsim;

namespace {

constexpr CAmount LARGE_COIN{10'000'000};     // coins above 0.1 BTC are split into 100 before tests spend them

struct Forwarder : public CValidationInterface {
    Mutex m;
    node::TxDownloadManagerImpl* target GUARDED_BY(m){nullptr};
    void Set(node::TxDownloadManagerImpl* t) { LOCK(m); target = t; }
    void ActiveTipChange(const CBlockIndex&, bool is_ibd) override { LOCK(m); if (target && !is_ibd) target->ActiveTipChange(); }
    void BlockConnected(const kernel::ChainstateRole& role, const std::shared_ptr<const CBlock>& block, const CBlockIndex*) override
    {
        LOCK(m); if (target && !role.historical) target->BlockConnected(block);
    }
    void BlockDisconnected(const std::shared_ptr<const CBlock>&, const CBlockIndex*) override { LOCK(m); if (target) target->BlockDisconnected(); }
};

struct Shared {
    std::unique_ptr<NetSim> sim;
    std::shared_ptr<Forwarder> fwd{std::make_shared<Forwarder>()};
    CScript wscript, wsh;
    std::deque<SimCoin> wsh_coins;      // confirmed P2WSH(wscript) coins
    bool haspar{false};
    bool two_parents{false};            // third universe (TxDownloadOrphan.tla): two missing parents, orphan reconsideration as separate turns
    std::set<std::string> kinds;

    Shared()
    {
        NetOptions o; o.fund_coins = 100;
        sim = std::make_unique<NetSim>(o);
        wscript = CScript() << OP_DROP << ToByteVector(sim->key.GetPubKey()) << OP_CHECKSIG;
        wsh = GetScriptForDestination(WitnessV0ScriptHash(wscript));
        sim->m_node.validation_signals->RegisterSharedValidationInterface(fwd);
    }
    ~Shared() { sim->m_node.validation_signals->UnregisterSharedValidationInterface(fwd); }

    // every test spends a coin: the funded 2 BTC coins are split into 100 small ones each (the large ones wait at the back of the queue)
    void NeedCoins()
    {
        NetSim& S = *sim;
        if (S.coins.size() >= 30 && S.coins.front().out.nValue < LARGE_COIN) return;
        if (S.coins.empty() || S.coins.back().out.nValue < LARGE_COIN) S.Fund(100);
        auto sp = S.OnTip();
        std::vector<CMutableTransaction> made;
        for (int i = 0; i < 40 && !S.coins.empty() && S.coins.back().out.nValue > LARGE_COIN; ++i) {
            const SimCoin c = S.coins.back(); S.coins.pop_back();
            CMutableTransaction m; m.version = 2;
            m.vin.emplace_back(c.op, CScript(), MAX_BIP125_RBF_SEQUENCE);
            for (int j = 0; j < 100; ++j) m.vout.emplace_back((c.out.nValue - 200000) / 100, S.wpkh);
            S.SignWpkh(m, 0, c.out);
            sp.txs.push_back(MakeTransactionRef(m));
            made.push_back(m);
        }
        auto b = S.BuildBlock(sp);
        if (!S.SubmitOwn(b) || S.Tip()->GetBlockHash() != b->GetHash()) throw std::runtime_error("split block not connected");
        std::deque<SimCoin> small;
        for (const auto& m : made) for (uint32_t j = 0; j < m.vout.size(); ++j) small.push_back(NetSim::OutputOf(m, j));
        for (auto it = small.rbegin(); it != small.rend(); ++it) S.coins.push_front(*it);
        S.Advance(std::chrono::seconds{1});
    }

    // confirms more P2WSH coins of 100,000 sat each (from a large coin if there is one)
    void FundWsh()
    {
        NetSim& S = *sim;
        NeedCoins();
        SimCoin c;
        if (S.coins.back().out.nValue > LARGE_COIN) { c = S.coins.back(); S.coins.pop_back(); } else c = S.TakeCoin();
        const int count = (int)std::min<CAmount>(50, (c.out.nValue - 50000) / 100000);
        if (count < 1) throw std::runtime_error("coin too small to fund P2WSH outputs");
        CMutableTransaction m; m.version = 2;
        m.vin.emplace_back(c.op, CScript(), MAX_BIP125_RBF_SEQUENCE);
        for (int i = 0; i < count; ++i) m.vout.emplace_back(100000, wsh);
        if (c.out.nValue - 50000 - (CAmount)count * 100000 > 1000) m.vout.emplace_back(c.out.nValue - 50000 - (CAmount)count * 100000, S.wpkh);   // change (not reused)
        S.SignWpkh(m, 0, c.out);
        auto sp = S.OnTip(); sp.txs = {MakeTransactionRef(m)};
        auto b = S.BuildBlock(sp);
        if (!S.SubmitOwn(b) || S.Tip()->GetBlockHash() != b->GetHash()) throw std::runtime_error("funding block not connected");
        for (int i = 0; i < count; ++i) wsh_coins.push_back(NetSim::OutputOf(m, (uint32_t)i));
        S.Advance(std::chrono::seconds{1});
    }

    // input 0 of m spends a P2WSH(wscript) output: witness <sig> <filler> <wscript>
    void SignWsh(CMutableTransaction& m, const CTxOut& spent, size_t filler_len, unsigned int in = 0)
    {
        const uint256 h = SignatureHash(wscript, m, in, SIGHASH_ALL, spent.nValue, SigVersion::WITNESS_V0);
        std::vector<unsigned char> sig;
        if (!sim->key.Sign(h, sig)) throw std::runtime_error("sign failed");
        sig.push_back((unsigned char)SIGHASH_ALL);
        m.vin[in].scriptWitness.stack = {sig, std::vector<unsigned char>(filler_len, 0x42), std::vector<unsigned char>(wscript.begin(), wscript.end())};
    }
};

std::string VerdictClass(const MempoolAcceptResult& r)
{
    if (r.m_result_type == MempoolAcceptResult::ResultType::VALID) return "ok";
    const TxValidationState& st = r.m_state;
    const std::string reason = st.GetRejectReason();
    switch (st.GetResult()) {
    case TxValidationResult::TX_MISSING_INPUTS: return "missing";
    case TxValidationResult::TX_WITNESS_STRIPPED: return "stripped";
    case TxValidationResult::TX_WITNESS_MUTATED: return "witmut";
    case TxValidationResult::TX_NOT_STANDARD: return reason.find("script-verify-flag-failed") != std::string::npos ? "script" : "nonstandard:" + reason;
    case TxValidationResult::TX_CONFLICT:
        if (reason == "txn-same-nonwitness-data-in-mempool") return "conflict";
        if (reason == "txn-already-known") return "known";
        if (reason == "txn-already-in-mempool") return "inpool";
        return "conflict:" + reason;
    default: return "other:" + reason;
    }
}

struct World {
    Shared& sh;
    NetSim& S;
    FastRandomContext rng{/*fDeterministic=*/true};
    std::unique_ptr<node::TxDownloadManagerImpl> dm;
    std::map<std::string, CTransactionRef> tx;         // "G", "Vbad", "Vbig", "Vstrip", "Par"
    std::map<std::string, uint256> hash;                // "T", "W", "Wbad", "Wbig", "PT", "PW"
    std::set<std::string> confirmed;

    explicit World(Shared& s) : sh(s), S(*s.sim)
    {
        dm = std::make_unique<node::TxDownloadManagerImpl>(node::TxDownloadOptions{S.pool(), rng, /*m_deterministic_txrequest=*/true});
        dm->ConnectedPeer(1, node::TxDownloadConnectionInfo{/*m_preferred=*/true, /*m_relay_permissions=*/false, /*m_wtxid_relay=*/true});
        dm->ConnectedPeer(2, node::TxDownloadConnectionInfo{/*m_preferred=*/false, /*m_relay_permissions=*/false, /*m_wtxid_relay=*/true});
        S.Advance(std::chrono::seconds{1});
        if (sh.two_parents) { BuildTwoParents(); sh.fwd->Set(dm.get()); return; }
        SimCoin in;
        if (sh.haspar) {
            sh.NeedCoins();
            const SimCoin c = S.TakeCoin();
            CMutableTransaction par; par.version = 2;
            par.vin.emplace_back(c.op, CScript(), MAX_BIP125_RBF_SEQUENCE);
            par.vout.emplace_back(c.out.nValue - 20000, sh.wsh);
            S.SignWpkh(par, 0, c.out);
            tx["Par"] = MakeTransactionRef(par);
            hash["PT"] = tx["Par"]->GetHash().ToUint256(); hash["PW"] = tx["Par"]->GetWitnessHash().ToUint256();
            in = NetSim::OutputOf(par, 0);
        } else {
            if (sh.wsh_coins.empty()) sh.FundWsh();
            in = sh.wsh_coins.front(); sh.wsh_coins.pop_front();
        }
        CMutableTransaction g; g.version = 2;
        g.vin.emplace_back(in.op, CScript(), MAX_BIP125_RBF_SEQUENCE);
        g.vout.emplace_back(in.out.nValue - 20000, S.wpkh);
        sh.SignWsh(g, in.out, 1);
        tx["G"] = MakeTransactionRef(g);
        CMutableTransaction bad(g); bad.vin[0].scriptWitness.stack[0][10] ^= 0x01; tx["Vbad"] = MakeTransactionRef(bad);
        CMutableTransaction big(g); big.vin[0].scriptWitness.stack[1] = std::vector<unsigned char>(81, 0x42); tx["Vbig"] = MakeTransactionRef(big);
        CMutableTransaction strip(g); strip.vin[0].scriptWitness.SetNull(); tx["Vstrip"] = MakeTransactionRef(strip);
        hash["T"] = tx["G"]->GetHash().ToUint256(); hash["W"] = tx["G"]->GetWitnessHash().ToUint256();
        hash["Wbad"] = tx["Vbad"]->GetWitnessHash().ToUint256(); hash["Wbig"] = tx["Vbig"]->GetWitnessHash().ToUint256();
        if (tx["Vstrip"]->GetWitnessHash().ToUint256() != hash["T"] || tx["Vbad"]->GetHash().ToUint256() != hash["T"] || hash["Wbad"] == hash["W"] || hash["Wbig"] == hash["W"])
            throw std::runtime_error("universe: the copies do not share the txid / differ in wtxid");
        sh.fwd->Set(dm.get());
    }
    // P1, P2: unconfirmed parents with one P2WSH output each; G spends both; Vlo / Vhi: G with a corrupted signature and a junk witness
    // element ground until the wtxid is lower / higher than G's (the orphanage walks the spenders of an outpoint in wtxid order)
    void BuildTwoParents()
    {
        SimCoin ins[2];
        for (int i = 0; i < 2; ++i) {
            sh.NeedCoins();
            const SimCoin c = S.TakeCoin();
            CMutableTransaction par; par.version = 2;
            par.vin.emplace_back(c.op, CScript(), MAX_BIP125_RBF_SEQUENCE);
            par.vout.emplace_back(c.out.nValue - 20000, sh.wsh);
            S.SignWpkh(par, 0, c.out);
            const std::string nme = i == 0 ? "P1" : "P2";
            tx[nme] = MakeTransactionRef(par);
            hash[nme + "W"] = tx[nme]->GetWitnessHash().ToUint256();
            ins[i] = NetSim::OutputOf(par, 0);
        }
        // (a genuine wtxid at the very edge of the range would make one of the two orders unreachable: vary the fee by a satoshi then)
        for (int attempt = 0; attempt < 50 && (!tx.count("Vlo") || !tx.count("Vhi")); ++attempt) {
            tx.erase("Vlo"); tx.erase("Vhi");
            CMutableTransaction g; g.version = 2;
            for (int i = 0; i < 2; ++i) g.vin.emplace_back(ins[i].op, CScript(), MAX_BIP125_RBF_SEQUENCE);
            g.vout.emplace_back(ins[0].out.nValue + ins[1].out.nValue - 30000 - attempt, S.wpkh);
            for (unsigned int i = 0; i < 2; ++i) sh.SignWsh(g, ins[i].out, 1, i);
            tx["G"] = MakeTransactionRef(g);
            hash["W"] = tx["G"]->GetWitnessHash().ToUint256();
            const Wtxid w = tx["G"]->GetWitnessHash();
            for (unsigned int junk = 0; junk < 512 && (!tx.count("Vlo") || !tx.count("Vhi")); ++junk) {
                CMutableTransaction c(g);
                c.vin[0].scriptWitness.stack[0][10] ^= 0x01;                                                          // invalid signature
                c.vin[1].scriptWitness.stack[1] = {(unsigned char)(junk & 0xff), (unsigned char)(junk >> 8)};          // third-party malleable junk
                const CTransactionRef r = MakeTransactionRef(c);
                if (r->GetHash() != tx["G"]->GetHash()) throw std::runtime_error("copy changed the txid");
                const std::string nme = r->GetWitnessHash() < w ? "Vlo" : "Vhi";
                if (!tx.count(nme)) { tx[nme] = r; hash[nme == "Vlo" ? "Wlo" : "Whi"] = r->GetWitnessHash().ToUint256(); }
            }
        }
        if (!tx.count("Vlo") || !tx.count("Vhi")) throw std::runtime_error("could not realise both wtxid orders");
    }
    ~World()
    {
        sh.fwd->Set(nullptr);
        // keep the shared node's mempool small (its consistency check runs on every acceptance and walks the whole pool)
        LOCK2(cs_main, S.pool().cs);
        for (const char* nme : {"Par", "P1", "P2", "G"}) if (tx.count(nme)) S.pool().removeRecursive(*tx.at(nme), MemPoolRemovalReason::EXPIRY);
    }

    GenTxid Gtx(const std::string& h) const
    {
        if (h == "PT") return Txid::FromUint256(hash.at(h));
        return Wtxid::FromUint256(hash.at(h));
    }
    std::string NameOf(const uint256& u) const
    {
        for (const auto& [k, v] : hash) if (v == u) return k;
        return "?" + u.ToString().substr(0, 8);
    }
    std::chrono::microseconds Now() const { return GetTime<std::chrono::microseconds>(); }

    // ProcessOrphanTx for every peer until nothing is left to reconsider
    void Drain() EXCLUSIVE_LOCKS_REQUIRED(cs_main)
    {
        for (bool progress = true; progress;) {
            progress = false;
            for (NodeId p : {NodeId{1}, NodeId{2}}) {
                while (CTransactionRef o = dm->GetTxToReconsider(p)) {
                    progress = true;
                    const MempoolAcceptResult r = S.cm().ProcessTransaction(o);
                    if (r.m_result_type == MempoolAcceptResult::ResultType::VALID) dm->MempoolAcceptedTx(o);
                    else if (r.m_state.GetResult() != TxValidationResult::TX_MISSING_INPUTS) dm->MempoolRejectedTx(o, r.m_state, p, /*first_time_failure=*/false);
                }
            }
        }
    }

    UniValue Apply(const UniValue& a)
    {
        const std::string op = a[0].get_str();
        UniValue res(UniValue::VOBJ);
        if (op == "inv") {
            const bool dropped = dm->AddTxAnnouncement(a[1].getInt<int>(), Gtx(a[2].get_str()), Now());
            res.pushKV("dropped", dropped);
        } else if (op == "poll") {
            S.Advance(std::chrono::seconds{10 * a[2].getInt<int>()});
            UniValue ask(UniValue::VARR);
            for (const GenTxid& g : dm->GetRequestsToSend(a[1].getInt<int>(), Now())) ask.push_back(NameOf(g.ToUint256()));
            res.pushKV("ask", ask);
        } else if (op == "notfound") {
            dm->ReceivedNotFound(a[1].getInt<int>(), {Gtx(a[2].get_str())});
            res.pushKV("none", true);
        } else if (op == "tx") {
            const NodeId p = a[1].getInt<int>();
            const CTransactionRef ptx = tx.at(a[2].get_str());
            LOCK(cs_main);
            const auto [should_validate, package] = dm->ReceivedTx(p, ptx);
            std::string verdict = "none";
            if (should_validate) {
                const MempoolAcceptResult r = S.cm().ProcessTransaction(ptx);
                verdict = VerdictClass(r);
                if (r.m_result_type == MempoolAcceptResult::ResultType::VALID) dm->MempoolAcceptedTx(ptx);
                if (r.m_state.IsInvalid()) {
                    const auto todo = dm->MempoolRejectedTx(ptx, r.m_state, p, /*first_time_failure=*/true);
                    if (todo.m_package_to_validate) {
                        const auto pr = ProcessNewPackage(S.cm().ActiveChainstate(), S.pool(), todo.m_package_to_validate->m_txns, /*test_accept=*/false, /*client_maxfeerate=*/std::nullopt);
                        if (pr.m_state.IsInvalid()) dm->MempoolRejectedPackage(todo.m_package_to_validate->m_txns);
                    }
                }
            } else if (package) {
                verdict = "package";
            }
            if (!sh.two_parents) Drain();         // (third universe: orphans are reconsidered only in the "turn" action)
            res.pushKV("validated", should_validate); res.pushKV("verdict", verdict);
        } else if (op == "turn") {
            // PeerManagerImpl::ProcessOrphanTx for peer p
            const NodeId p = a[1].getInt<int>();
            UniValue done(UniValue::VARR);
            LOCK(cs_main);
            while (CTransactionRef o = dm->GetTxToReconsider(p)) {
                const MempoolAcceptResult r = S.cm().ProcessTransaction(o);
                std::string nme = "?";
                for (const auto& [k, t] : tx) if (t->GetWitnessHash() == o->GetWitnessHash()) nme = k;
                UniValue e(UniValue::VARR); e.push_back(nme); e.push_back(VerdictClass(r)); done.push_back(e);
                if (r.m_result_type == MempoolAcceptResult::ResultType::VALID) { dm->MempoolAcceptedTx(o); break; }
                if (r.m_state.GetResult() != TxValidationResult::TX_MISSING_INPUTS) { dm->MempoolRejectedTx(o, r.m_state, p, /*first_time_failure=*/false); break; }
            }
            res.pushKV("done", done);
        } else if (op == "block") {
            const std::string kind = a[1].get_str();
            auto sp = S.OnTip();
            std::vector<std::string> names;
            if (kind == "par") names = {"Par"};
            if (kind == "g") { if (sh.haspar && !confirmed.count("Par")) names.push_back("Par"); names.push_back("G"); }
            for (const auto& nme : names) sp.txs.push_back(tx.at(nme));
            auto b = S.BuildBlock(sp);
            if (!S.SubmitOwn(b) || S.Tip()->GetBlockHash() != b->GetHash()) throw std::runtime_error("block not connected: " + kind);
            for (const auto& nme : names) confirmed.insert(nme);
            S.Advance(std::chrono::seconds{1});
            { LOCK(cs_main); Drain(); }
            UniValue t(UniValue::VARR); for (const auto& nme : names) t.push_back(nme);
            res.pushKV("txs", t);
        } else {
            throw std::runtime_error("unknown action " + op);
        }
        return res;
    }

    UniValue Project()
    {
        if (sh.two_parents) {
            UniValue o(UniValue::VOBJ), pool(UniValue::VARR), orph(UniValue::VARR), rej(UniValue::VARR), hw(UniValue::VOBJ);
            for (const auto& [nme, t] : tx) {
                if (S.pool().exists(t->GetWitnessHash())) pool.push_back(nme);
                if (dm->m_orphanage->HaveTx(t->GetWitnessHash())) orph.push_back(nme);
            }
            for (const auto& [h, u] : hash) if (dm->m_lazy_recent_rejects && dm->m_lazy_recent_rejects->contains(u)) rej.push_back(h);
            hw.pushKV("p1", dm->HaveMoreWork(1)); hw.pushKV("p2", dm->HaveMoreWork(2));
            o.pushKV("pool", pool); o.pushKV("orph", orph); o.pushKV("rej", rej); o.pushKV("hw", hw);
            o.pushKV("ahW", dm->AlreadyHaveTx(Wtxid::FromUint256(hash.at("W")), /*include_reconsiderable=*/true));
            dm->m_orphanage->SanityCheck();
            return o;
        }
        UniValue o(UniValue::VOBJ);
        UniValue pool(UniValue::VARR), orph(UniValue::VARR);
        for (const auto& [nme, t] : tx) {
            if (S.pool().exists(t->GetWitnessHash())) pool.push_back(nme);
            if (dm->m_orphanage->HaveTx(t->GetWitnessHash())) orph.push_back(nme);
        }
        const bool masked = S.pool().exists(tx.at("G")->GetWitnessHash()) || confirmed.count("G");
        UniValue rej(UniValue::VARR), recon(UniValue::VARR), conf(UniValue::VARR), live(UniValue::VOBJ);
        // the filters are created lazily (1.3 MB each): a filter that does not exist yet contains nothing
        const auto in_rej = [&](const uint256& u) { return dm->m_lazy_recent_rejects && dm->m_lazy_recent_rejects->contains(u); };
        for (const auto& [h, u] : hash) {
            if (in_rej(u) && !(masked && h == "T")) rej.push_back(h);
            if (dm->m_lazy_recent_rejects_reconsiderable && dm->m_lazy_recent_rejects_reconsiderable->contains(u)) recon.push_back(h);
            if (dm->m_lazy_recent_confirmed_transactions && dm->m_lazy_recent_confirmed_transactions->contains(u)) conf.push_back(h);
            std::vector<NodeId> peers; dm->m_txrequest.GetCandidatePeers(u, peers);
            std::set<NodeId> uniq(peers.begin(), peers.end());
            UniValue l(UniValue::VARR); for (NodeId p : uniq) l.push_back((int64_t)p);
            live.pushKV(h, l);
        }
        o.pushKV("pool", pool); o.pushKV("orph", orph); o.pushKV("rej", rej);
        o.pushKV("rejT", masked ? "na" : (in_rej(hash.at("T")) ? "yes" : "no"));
        o.pushKV("recon", recon); o.pushKV("conf", conf); o.pushKV("live", live);
        o.pushKV("ahW", dm->AlreadyHaveTx(Wtxid::FromUint256(hash.at("W")), /*include_reconsiderable=*/true));
        o.pushKV("ahT", masked ? "na" : (dm->AlreadyHaveTx(Txid::FromUint256(hash.at("T")), /*include_reconsiderable=*/true) ? "yes" : "no"));
        dm->m_txrequest.SanityCheck();
        dm->m_orphanage->SanityCheck();
        return o;
    }
};

// sets come out of TLC as arrays in TLC's order: compare arrays of scalars as sorted lists
UniValue Canon(const UniValue& v)
{
    if (v.isObject()) { UniValue o(UniValue::VOBJ); for (const auto& k : v.getKeys()) o.pushKV(k, Canon(v[k])); return o; }
    if (v.isArray()) {
        std::vector<std::string> items; bool scalars = true;
        for (size_t i = 0; i < v.size(); ++i) { if (v[i].isObject() || v[i].isArray()) scalars = false; }
        UniValue a(UniValue::VARR);
        if (!scalars) { for (size_t i = 0; i < v.size(); ++i) a.push_back(Canon(v[i])); return a; }
        std::vector<std::pair<std::string, UniValue>> xs;
        for (size_t i = 0; i < v.size(); ++i) xs.emplace_back(v[i].write(), v[i]);
        std::sort(xs.begin(), xs.end(), [](const auto& l, const auto& r) { return l.first < r.first; });
        for (auto& x : xs) a.push_back(x.second);
        return a;
    }
    return v;
}

} // namespace

int main(int argc, char** argv)
{
    if (argc < 5) { std::cerr << "usage: txdownload replay <tests.ndjson> <haspar> <kinds>\n"; return 2; }
    if (std::string(argv[1]) != "replay") return 2;
    InstallAbortHandlers();
    Shared sh;
    sh.haspar = std::string(argv[3]) == "1";
    sh.two_parents = std::string(argv[3]) == "2";
    ForEachLine(argv[2], [&](size_t tn, const UniValue& t) {
        R().cur_test = tn; R().cur_step = 0; R().cur_action = UniValue::VNULL;
        std::string why;
        try {
            World w(sh);
            const UniValue& st = t["steps"];
            for (size_t i = 0; i < st.size() && why.empty(); ++i) {
                R().cur_step = i; R().cur_action = st[i]["a"];
                const UniValue res = Canon(w.Apply(st[i]["a"]));
                ++R().steps;
                R().Count(std::string("act_") + st[i]["a"][0].get_str());
                if (res.exists("verdict") && res["verdict"].get_str() != "none") R().Count("verdict_" + res["verdict"].get_str());
                // every differing key is reported (with the implementation's value), so that the driver can tell a difference the
                // property talks about (G / W / T) from one in the bookkeeping around it
                UniValue keys(UniValue::VARR), obs(UniValue::VOBJ);
                const UniValue expr = Canon(st[i]["r"]);
                for (const auto& k : expr.getKeys()) {
                    if (!res.exists(k) || !JsonDiff(expr[k], res[k], k).empty()) { keys.push_back("result." + k); obs.pushKV("result." + k, res.exists(k) ? res[k] : UniValue()); }
                }
                const UniValue have = Canon(w.Project());
                const UniValue exp = Canon(st[i]["exp"]);
                for (const auto& k : exp.getKeys()) {
                    if (k == "hid") continue;
                    if (k == "live") {
                        for (const auto& h : exp[k].getKeys()) {
                            if (!JsonDiff(exp[k][h], have[k][h], h).empty()) { keys.push_back("state.live." + h); obs.pushKV("state.live." + h, have[k][h]); }
                        }
                        continue;
                    }
                    if (!JsonDiff(exp[k], have[k], k).empty()) { keys.push_back("state." + k); obs.pushKV("state." + k, have[k]); }
                }
                if (keys.size() > 0) {
                    UniValue d(UniValue::VOBJ); d.pushKV("keys", keys); d.pushKV("obs", obs);
                    why = d.write();
                }
            }
        } catch (const std::exception& e) { why = std::string("exception: ") + e.what(); }
        if (!why.empty()) R().Mismatch(R().cur_action, why);
        ++R().tests;
    });
    R().Summary();
    return 0;
}
