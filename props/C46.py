"""C46 — signing produces valid spends and never fakes a satisfaction (specs/MiniscriptSat, engine E4)."""
import collections, json
import vflib

META = dict(
    engine="E4",
    level="model_checking",
    text="specs/MiniscriptSat defines Sat(tree, avail): the semantic satisfiability of a miniscript expression (pk/pkh/pk_k/pk_h, older, after, "
         "the four hashes, and_v/and_b/and_n, or_b/or_c/or_d/or_i, andor, thresh, multi/multi_a, wrappers a s c d v j n t l u) given the "
         "available private keys and hash preimages and the spending transaction's version / nLockTime / this input's nSequence (BIP65, BIP68/112 "
         "as the signature checker implements them). TLC enumerates two families of roughly type-correct trees (all two-level trees over the leaf "
         "alphabet; and_v(v:pk(C), T) for every two-level tree T incl. the ternary combinators) and the non-miniscript descriptors (pk, pkh, wpkh, "
         "sh(wpkh), sh/wsh/sh(wsh) multi, sortedmulti, tr key path and script path, rawtr, and three raw outputs with an uncompressed key in a witness "
         "program), each with every subset of its keys x every subset of its preimages x 1-18 transaction environments around the timelock boundaries, "
         "and checks the oracle's own monotonicity. Each expression is wrapped in wsh() and tr(unspendable, ...), parsed and expanded by the real descriptor "
         "code, funded in a synthetic transaction and signed by ProduceSignature (keys in a FlatSigningProvider, preimages in SignatureData) and by "
         "SignTransaction. Compared: complete => Sat, and complete => an independent VerifyScript with STANDARD_SCRIPT_VERIFY_FLAGS passes.",
    note="One-directional (SAFE): Sat && !complete is counted, never reported. Expressions the real parser / type checker rejects (invalid, not sane: "
         "no signature on every path, duplicate keys, timelock mixes, malleable) are skipped and counted by the harness. Malleability and resource "
         "limits are not modelled (they can only make the signer more conservative). Tree depth <= 3, 3 keys, 2 hashes, 2 values per timelock kind.",
    technique="TLA+ recursive satisfiability oracle, TLC-enumerated table replayed through descriptor parsing, ProduceSignature, SignTransaction and VerifyScript",
)

FRAGMENTS = ["pk", "pkh", "pk_k", "pk_h", "older", "after", "sha256", "hash256", "ripemd160", "hash160", "and_v", "and_b", "and_n", "or_b", "or_c",
             "or_d", "or_i", "andor", "thresh", "%M"]
WRAPPERS = list("ascdvjntlu")


def run(ctx):
    binary = ctx.build_adapter("signing")
    cfg = "MC_quick.cfg" if ctx.tier == "quick" else "MC_thorough.cfg"
    r = ctx.tlc("MiniscriptSat", "MiniscriptSat", cfg, workers=min(3, vflib.free_cpus()), xmx="6g", timeout=2700)
    rows = [json.loads(l) for l in open(r.emit_path)]
    kinds = collections.Counter(x["t"] for x in rows)
    if not kinds["ms"] or not kinds["plain"]:
        raise vflib.InfraError("vacuity: rows by kind %s" % dict(kinds))
    ncases = sum(len(x["cases"]) for x in rows)
    verdicts = collections.Counter(c["sat"] for x in rows for c in x["cases"])
    if not verdicts[True] or not verdicts[False]:
        raise vflib.InfraError("vacuity: the oracle never says %s" % ("satisfiable" if not verdicts[True] else "unsatisfiable"))
    res = ctx.run_harness(binary, "table", rows, args=[str(ctx.seed)])
    s = res["summary"]
    ctx.evaluations = int(s.get("produce_calls", 0)) + int(s.get("signtx_calls", 0))
    ctx.traces = int(s.get("produce_complete", 0)) + int(s.get("signtx_complete", 0))      # spends verified independently
    ctx.nontrivial = set(vflib.digest([x["ms"], c]) for x in rows for c in x["cases"] if len(c["k"]) + len(c["p"]) > 0)
    ctx.extra["rows"] = dict(kinds)
    ctx.extra["cases"] = ncases
    ctx.extra["oracle_verdicts"] = {"satisfiable": verdicts[True], "unsatisfiable": verdicts[False]}
    ctx.extra["descriptors"] = {k: int(v) for k, v in s.items() if k.startswith("accepted_") or k.startswith("rejected_")}
    ctx.extra["signer"] = {k: int(v) for k, v in s.items() if k.startswith("produce_") or k.startswith("signtx_")}
    # information only (completeness is not claimed by C46)
    ctx.extra["satisfiable_but_incomplete"] = int(s.get("produce_incomplete_though_satisfiable", 0)) + int(s.get("signtx_incomplete_though_satisfiable", 0))
    for x in (rows[0], rows[len(rows) // 2], rows[-1]):
        ctx.sample(dict(t=x["t"], ms=x["ms"], cases=x["cases"][:2]))
    vflib.report_mismatches(ctx, binary, "table", res, args=[str(ctx.seed)], adapter="signing", what_prefix="Signing: ",
                            key_fn=lambda m, case: "row:" + vflib.digest((m.get("why") or "").split(":")[-1]))
    # vacuity: the real parser accepted expressions with every fragment and wrapper in both contexts, the signer completed some
    # spends and refused others, the uncompressed-key outputs were exercised
    missing = [f for ctxname in ("wsh", "tr") for f in FRAGMENTS if not s.get("frag_%s:%s" % (ctxname, f))]
    missing += ["%s wrapper %s" % (ctxname, w) for ctxname in ("wsh", "tr") for w in WRAPPERS if not s.get("wrap_%s:%s" % (ctxname, w))]
    if missing and not ctx.violations:
        raise vflib.InfraError("vacuity: no accepted expression contains %s" % missing)
    for k in ("accepted_wsh", "accepted_tr", "accepted_plain", "accepted_raw", "produce_complete", "produce_incomplete_unsatisfiable",
              "signtx_complete", "signtx_incomplete_unsatisfiable"):
        if not s.get(k) and not ctx.violations:
            raise vflib.InfraError("vacuity: harness counter %s is zero (%s)" % (k, dict(s)))
    ctx.assumptions += ["the signer is driven through ProduceSignature / SignTransaction with a FlatSigningProvider; wallets, PSBT and external signers are other paths",
                        "timelock values between the enumerated boundaries behave like their neighbours"]
    return ctx.finish(level="model_checking", exhaustive=True,
                      rule="every tree of the two bounded families and every listed descriptor x every subset of its keys and preimages x the timelock "
                           "environments; non-trivial = cases with at least one key or preimage available")
