"""C16 — the node recovers a consistent chainstate after a crash at any point (specs/CrashRecovery + UtxoChain/CrashObs,
crash images of real runs)."""
import collections, json, os, re, subprocess, sys
sys.path.insert(0, os.path.dirname(os.path.abspath(__file__)))
sys.path.insert(0, os.path.join(os.path.dirname(os.path.dirname(os.path.abspath(__file__))), "tools"))
import vflib, crashfs, _utxochain

META = dict(
    engine="E2",
    level="fault_enumeration",
    text="Design level: CrashRecovery.tla models the flush protocol (fsync block/undo files, synced block-index batch, coin batches with the "
         "head-blocks marker, final batch), process kill and power loss (any prefix of the unsynced coins log) and ReplayBlocks; TLC checks exhaustively "
         "that every crash point recovers a chainstate equal to the UTXO set of a previously connected tip, and finds the violation when index and coins "
         "are written in the wrong order. Code level: UtxoChain behaviours (blocks with transactions, reorgs, invalidate/reconsider, flushes) chosen by TLC "
         "run on a real node with on-disk LevelDBs and tiny coin batches under strace; the syscall stream is replayed into a file model that yields, at "
         "every sampled write/fsync/rename boundary, the kill image and three power-loss images (only fsynced data; unsynced chainstate lost; unsynced "
         "block files and index lost); a fresh node is started on each image and TLC evaluates the property's clauses on what it recovered: start succeeds, "
         "recovered UTXO set = replay of the recovered tip, the tip had been connected before the crash, and after resuming the tip has at least the work of "
         "the last completed full flush.",
    note="Power-loss model: a file's durable content is its content at its last fsync (no torn writes, no reordering inside a file); files never "
         "fsynced may be absent; three extreme cross-file combinations are tried per point. Crash points are sampled (every k-th boundary, seeded offset) "
         "in quick and complete in thorough. Pruning crashes are not covered.",
    technique="TLA+ spec of the flush/recovery protocol model-checked with TLC; crash images of strace-traced real runs restarted and judged by TLC (UtxoChain replay as oracle)",
)

MODES = [("kill", ()), ("power", ()), ("power", ("/chainstate/",)), ("power", ("/blocks/",))]
MODE_NAMES = ["kill", "power-all-unsynced-lost", "power-chainstate-kept", "power-blocks-kept"]
RELEVANT = ["CrashLoadOK", "CrashTipWasConnected", "CrashUtxoOfTip", "CrashResumeWork", "CrashPostValid"]


def behaviours(ctx, n, depth):
    r = ctx.tlc("UtxoChain", "MC_crash", "Sim_crash.cfg", name="sim_crash", simulate=(n, depth))
    recs = vflib.load_emitted(r.emit_path)
    uni = [x for x in recs if "universe" in x][0]
    tmp = os.path.join(ctx.work, "sim.ndjson")
    with open(tmp, "w") as f:
        for e in recs:
            if "universe" not in e:
                f.write(json.dumps(e) + "\n")
    behs = [b for b in vflib.sim_behaviours(tmp) if any(s["a"][0] == "mine" for s in b["steps"])]
    # a hand-shaped behaviour that is always included: spend, flush, conflicting longer branch (reorg across the flush), flush
    fixed = dict(init=behs[0]["init"] if behs else None, steps=[dict(a=a) for a in (
        ["mine", 0, [1], "zero", 1], ["flush"], ["mine", 1, [3], "max", 1], ["mine", 0, [2], "zero", 1], ["mine", 3, [], "zero", 1],
        ["mine", 4, [], "zero", 1], ["flush"], ["invalidate", 3], ["flush"], ["reconsider", 3])])
    return uni, [fixed] + behs


def anc_ids(blk, b):
    out = {0}
    while b > 0:
        out.add(b); b = blk[b]["parent"]
    return out


def run(ctx):
    binary = ctx.build_adapter("crashnode")
    # ---- design level
    ctx.tlc("CrashRecovery", "MC_tree5", "MC_ok.cfg")
    neg = ctx.tlc("CrashRecovery", "MC_tree5", "MC_wrongorder.cfg", expect_violation=True)
    if neg.violated != "RecoveryOK":
        raise vflib.InfraError("negative control of the specification (coins written before the block index) was not caught by TLC")
    # ---- code level
    quick = ctx.tier == "quick"
    uni, behs = behaviours(ctx, 3 if quick else 24, 9)
    behs = behs[:2] if quick else behs
    stride = 1
    upath = os.path.join(ctx.work, "universe.json"); json.dump(uni, open(upath, "w"))
    env = dict(os.environ); env["TMPDIR"] = ctx.tmp
    jobs = []          # (image dir, beh path, line skeleton)
    nested = []        # (image as {relative path: bytes}, beh path, line skeleton) for second-level crashes
    per_mode = collections.Counter(); outcomes = collections.Counter()
    for bi, beh in enumerate(behs):
        bpath = os.path.join(ctx.work, "beh%d.json" % bi); json.dump(dict(steps=beh["steps"]), open(bpath, "w"))
        trace = os.path.join(ctx.work, "trace%d.txt" % bi)
        p = subprocess.run(["timeout", "600", "strace", "-f", "-y", "-xx", "-s", "8000000", "-o", trace, "-e", "trace=" + crashfs.SYSCALLS,
                            binary, "workload", bpath, upath, "64"], capture_output=True, text=True, env=env, cwd=ctx.tmp)
        wl = [json.loads(l) for l in p.stdout.splitlines() if l.startswith('{"kind":"workload"')]
        if p.returncode != 0 or not wl:
            raise vflib.InfraError("workload run failed: rc=%s %s" % (p.returncode, (p.stderr or p.stdout)[-800:]))
        wl = wl[0]; root = wl["datadir"]
        calls = list(crashfs.parse(trace))
        # world and per-step tips of the uncrashed run
        case = dict(init=dict(world=dict(n=0, blk=[dict(parent=0, txs=[], cb="zero", dt=1)] * 6)), steps=beh["steps"])
        world = _utxochain.world_after(case, len(beh["steps"]))
        tips = [s["obs"]["tip"] for s in wl["steps"]]
        # marker positions
        step_begin, step_end, base_end = {}, {}, None
        for i, (_, _, _, m) in enumerate(calls):
            if not m:
                continue
            if m == "VF:base:end":
                base_end = i
            mm = re.match(r"VF:step:(\d+):(begin|end)", m)
            if mm:
                (step_begin if mm.group(2) == "begin" else step_end)[int(mm.group(1))] = i
        fs = crashfs.FS(root)
        mutating = []
        for i, (call, args, ret, m) in enumerate(calls):
            before = len(fs.ops)
            fs.apply(call, args, ret, i)
            if base_end is not None and i > base_end and len(fs.ops) > before:
                mutating.append(i)
        # sanity of the file model: it must reproduce the final data directory byte for byte
        diffs = 0
        for dp, _, names in os.walk(root):
            for nm in names:
                pth = os.path.join(dp, nm)
                if nm in (".lock", "debug.log") or "/wallets" in pth:
                    continue
                if open(pth, "rb").read() != bytes(fs.files.get(pth, b"<missing>")):
                    diffs += 1
        if diffs:
            raise vflib.InfraError("file model does not reproduce the data directory (%d files differ)" % diffs)
        points = mutating[(ctx.seed + bi) % stride::stride]
        ctx.extra.setdefault("workloads", []).append(dict(steps=[s["a"] for s in beh["steps"]], syscalls=len(calls), mutating_after_base=len(mutating), crash_points=len(points)))
        # rebuild the file model incrementally and cut images at the chosen points
        fs = crashfs.FS(root); want = set(points)
        for i, (call, args, ret, m) in enumerate(calls):
            fs.apply(call, args, ret, i)
            if i not in want:
                continue
            last_op_path = fs.ops[-1][2] if fs.ops else ""
            done = [j for j in step_end if step_end[j] <= i]
            cur = [j for j in step_begin if step_begin[j] <= i and step_end.get(j, 10 ** 12) > i]
            upto = max(done + cur) if (done or cur) else -1
            conn = set([0])
            for j in range(0, upto + 1):
                if tips[j] >= 0:
                    conn |= anc_ids(world["blk"], tips[j])
            # blocks under a manual invalidation at the crash point: invalidate steps that had started, minus reconsider steps that
            # had completed (a manual invalidation legitimately lowers the work the node returns to)
            minv = set()
            for j in sorted(set(done + cur)):
                a = beh["steps"][j]["a"]
                if a[0] == "invalidate":
                    minv.add(a[1])
                elif a[0] == "reconsider" and j in done:
                    minv = {x for x in minv if not (x in anc_ids(world["blk"], a[1]) or a[1] in anc_ids(world["blk"], x))}
            flushed = [j for j in sorted(done) if beh["steps"][j]["a"][0] == "flush" and tips[j] >= 0 and not (anc_ids(world["blk"], tips[j]) & minv)]
            lastflush = tips[flushed[-1]] if flushed else 0
            for mi, (mode, keep) in enumerate(MODES):
                img = os.path.join(ctx.work, "img", "b%d_p%d_m%d" % (bi, i, mi))
                image = fs.image(mode, keep)
                fs.dump(image, img)
                if mi == 0 and cur and "/chainstate/" in last_op_path and (not quick or (bi == 0 and beh["steps"][cur[0]]["a"][0] == "flush")):
                    # candidate for a second crash *during the recovery* from this image (kill images taken inside a step)
                    nested.append((dict((p[len(root):], b) for p, b in image.items()), bpath, None))
                skel = dict(world=world, inv=[], act=["crash", bi, i, MODE_NAMES[mi]], exp=dict(tip=0), conn=sorted(conn), lastflush=lastflush,
                            where=("during step %d %s" % (cur[0], beh["steps"][cur[0]]["a"][0]) if cur else "between steps"))
                jobs.append((img, bpath, skel))
                if mi == 0 and cur and "/chainstate/" in last_op_path and (not quick or (bi == 0 and beh["steps"][cur[0]]["a"][0] == "flush")):
                    nested[-1] = (nested[-1][0], bpath, skel)
                per_mode[MODE_NAMES[mi]] += 1
    ctx.log("%d workloads, %d crash images" % (len(behs), len(jobs)))
    # ---- restart a node on every image
    import concurrent.futures

    def recover(job):
        img, bpath, skel = job
        pr = subprocess.run(["timeout", "300", binary, "recover", bpath, upath, img], capture_output=True, text=True, env=env, cwd=ctx.tmp)
        import shutil
        shutil.rmtree(img, ignore_errors=True)
        rec = [json.loads(l) for l in pr.stdout.splitlines() if l.startswith("{")]
        got = [r for r in rec if r.get("kind") == "recovered"]
        ab = [r for r in rec if r.get("kind") == "abort"]
        line = dict(skel)
        if got:
            g = got[0]
            line["load"] = g["load"]
            line["pre"] = _utxochain.norm_obs(g["pre"]) if "pre" in g else dict(tip=-9998, stored=[], failed=[], utxo=[])
            line["post"] = dict(tip=g["post"]["tip"]) if "post" in g else dict(tip=-9998)
        else:
            why = ab[0]["why"] if ab else "process ended with status %s: %s" % (pr.returncode, (pr.stderr or "")[-300:].replace("\n", " "))
            line["load"] = "restart aborted: " + why
            line["pre"] = dict(tip=-9998, stored=[], failed=[], utxo=[]); line["post"] = dict(tip=-9998)
        return line
    with concurrent.futures.ThreadPoolExecutor(max_workers=vflib.free_cpus()) as ex:
        lines = list(ex.map(recover, jobs))

    # ---- second level: crash the *recovery run* itself (its replay / flush writes), then restart once more
    def second_level(item):
        n, (image, bpath, skel) = item
        img1 = os.path.join(ctx.work, "img2", "n%d_base" % n)
        f0 = crashfs.FS("/x"); f0.files = {"/x" + rel: bytearray(b) for rel, b in image.items()}
        f0.dump({p: bytes(b) for p, b in f0.files.items()}, img1)
        trace = os.path.join(ctx.work, "img2", "n%d.trace" % n)
        pr = subprocess.run(["timeout", "300", "strace", "-f", "-y", "-xx", "-s", "8000000", "-o", trace, "-e", "trace=" + crashfs.SYSCALLS,
                             binary, "recover", bpath, upath, img1], capture_output=True, text=True, env=env, cwd=ctx.tmp)
        got = [json.loads(l) for l in pr.stdout.splitlines() if l.startswith('{"kind":"recovered"')]
        out = []
        if not got or "datadir" not in got[0]:
            return out
        root2 = got[0]["datadir"]
        calls = list(crashfs.parse(trace))
        start = next((i for i, c in enumerate(calls) if c[3] == "VF:preload:end"), None)
        if start is None:
            return out
        fs2 = crashfs.FS(root2, preload=image)
        pts = []
        for i in range(start + 1, len(calls)):
            call, args, ret, m = calls[i]
            before = len(fs2.ops)
            fs2.apply(call, args, ret, i)
            if len(fs2.ops) > before and "/chainstate/" in fs2.ops[-1][2] and fs2.ops[-1][1] == "write" and fs2.ops[-1][2].endswith(".log"):
                pts.append(i)        # every batch the recovery writes to the coins database log
        fs2 = crashfs.FS(root2, preload=image); want = set(pts)
        for i in range(start + 1, len(calls)):
            call, args, ret, m = calls[i]
            fs2.apply(call, args, ret, i)
            if i in want:
                for mi, (mode, keep) in enumerate(MODES[:2]):
                    img2 = os.path.join(ctx.work, "img2", "n%d_p%d_m%d" % (n, i, mi))
                    fs2.dump(fs2.image(mode, keep), img2)
                    sk = dict(skel); sk["act"] = ["crash-during-recovery", skel["act"][1], skel["act"][2], MODE_NAMES[mi], i]
                    sk["where"] = skel["where"] + ", then again at syscall %d of the recovery run" % i
                    out.append(recover((img2, bpath, sk)))
        import shutil
        shutil.rmtree(img1, ignore_errors=True)
        return out
    with concurrent.futures.ThreadPoolExecutor(max_workers=max(1, vflib.free_cpus() // 2)) as ex:
        for res2 in ex.map(second_level, enumerate(nested)):
            lines.extend(res2)
    ctx.extra["second_level_crash_images"] = sum(1 for l in lines if l["act"][0] == "crash-during-recovery")
    for l in lines:
        outcomes[(l["act"][3], "ok" if l["load"] == "ok" else l["load"][:60])] += 1
        ctx.nontrivial.add(vflib.digest([l["act"], l["where"]]))
    ctx.evaluations = len(lines); ctx.traces = len(lines)
    ctx.extra["images_per_mode"] = dict(per_mode)
    ctx.extra["restart_outcomes"] = {"%s | %s" % k: v for k, v in outcomes.items()}
    for l in lines[:: max(1, len(lines) // 3)][:3]:
        ctx.sample(dict(crash=l["act"], where=l["where"], load=l["load"], recovered_tip=l["pre"]["tip"], resumed_tip=l["post"]["tip"], last_full_flush_tip=l["lastflush"]))
    # ---- TLC judges every restart
    reported = collections.Counter()
    for k, inv in vflib.judge(ctx, "UtxoChain", "MCO_crash", "Obs_crash.cfg", lines, name="restarts"):
        l = lines[k]
        # one report per (invariant, mode, failure text): the same defect shows at many crash points
        sig = (inv, l["act"][3], l["load"][:80] if l["load"] != "ok" else "")
        reported[sig] += 1
        if reported[sig] == 1:
            key = "crash:%s:%s:%s" % (inv, l["act"][3], vflib.digest(sig[2]))
            ctx.violation(key, "restart on the %s image taken %s (workload %d, syscall %d) breaks %s: load=%s recovered tip=%s resumed tip=%s last full flush tip=%s" % (
                l["act"][3], l["where"], l["act"][1], l["act"][2], inv, l["load"], l["pre"]["tip"], l["post"]["tip"], l["lastflush"]),
                dict(observation=l, invariant=inv))
    ctx.extra["restarts_breaking_an_invariant"] = {"%s | %s | %s" % k: v for k, v in reported.items()}
    ctx.assumptions += ["power loss: per-file durability = content at last fsync; no torn writes or intra-file reordering; never-fsynced files may be absent",
                        "crash points after the base chain was built and flushed; %s" % ("every %d-th mutating syscall boundary" % stride if stride > 1 else "every mutating syscall boundary")]
    return ctx.finish(level="fault_enumeration", exhaustive=False,
                      rule="crash images (kill + 3 power-loss variants) at sampled write/fsync/rename/unlink boundaries of strace-traced runs of TLC-chosen UtxoChain behaviours; "
                           "each image restarted on a real node; distinct = (workload, syscall index, image kind)")


def replay(ctx, path):
    o = json.load(open(path))
    print("REPLAY: crash observations are re-derived by running the check again with the same VERIF_SEED; stored observation:")
    print(json.dumps(o.get("observation"), indent=1)[:3000])
    return 1
