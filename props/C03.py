"""C03 — context-free transaction checks accept exactly the spec-valid transactions (specs/CheckTx, engine E4)."""
import collections, json
import vflib

META = dict(
    engine="E4",
    level="model_checking",
    text="The rule list of CheckTransaction and the declarative statement of C03 are both written in TLA+; TLC enumerates every "
         "transaction shape of a boundary-valued domain (0-3 inputs incl. null/duplicate prevouts at every position, 0-3 outputs over ten "
         "boundary amounts carried as exact limbs, non-witness size 999999/1000000/1000001 bytes, coinbase scriptSig length 0/1/2/100/101), "
         "proves accept <=> spec-valid and reason = first violated rule on that domain, and every row is replayed on the real CheckTransaction "
         "comparing verdict and reject reason. Exhaustive over the domain: every pair of simultaneous violations pins the rule order.",
    note="Domain is finite (boundary values); values between the boundaries are assumed to behave like their neighbours. "
         "Scripts are opaque filler; the size class is realised by padding a script.",
    technique="TLA+ operator (ordered rules) = declarative predicate, TLC-enumerated oracle table replayed on CheckTransaction",
)


def run(ctx):
    binary = ctx.build_adapter("checktx")
    cfg = "MC_quick.cfg" if ctx.tier == "quick" else "MC_thorough.cfg"
    r = ctx.tlc("CheckTx", "CheckTx", cfg)
    rows = [json.loads(l) for l in open(r.emit_path)]
    if len(rows) != r.distinct:
        raise vflib.InfraError("emitted %d rows for %d distinct states" % (len(rows), r.distinct))
    by_res = collections.Counter(x["res"] for x in rows)
    for reason in ("ok", "bad-txns-vin-empty", "bad-txns-vout-empty", "bad-txns-oversize", "bad-txns-vout-negative", "bad-txns-vout-toolarge",
                   "bad-txns-txouttotal-toolarge", "bad-txns-inputs-duplicate", "bad-cb-length", "bad-txns-prevout-null"):
        if not by_res[reason]:
            raise vflib.InfraError("vacuity: no row with expected result " + reason)
    if not any(x["bulkIn"] > 32 and x["res"] == "bad-txns-inputs-duplicate" for x in rows) or not any(x["bulkIn"] > 32 and x["res"] == "ok" for x in rows):
        raise vflib.InfraError("vacuity: no duplicate / duplicate-free row with many inputs sharing a txid")
    res = ctx.run_harness(binary, "table", rows)
    ctx.evaluations = int(res["summary"]["tests"]); ctx.traces = ctx.evaluations
    ctx.nontrivial = set(vflib.digest(x) for x in rows if x["ins"] and x["outs"])
    ctx.extra["rows_per_expected_result"] = dict(by_res)
    for i in (0, len(rows) // 3, len(rows) - 1):
        ctx.sample(rows[i])
    vflib.report_mismatches(ctx, binary, "table", res, adapter="checktx", what_prefix="CheckTx: ",
                            key_fn=lambda m, case: "row:" + vflib.digest(m.get("why")))
    ctx.assumptions += ["values between the enumerated boundaries behave like their neighbours"]
    return ctx.finish(level="model_checking", exhaustive=True,
                      rule="every well-formed row of the boundary-valued domain; non-trivial = distinct rows with at least one input and one output")
