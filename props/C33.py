"""C33 — headers from an unproven peer are stored only after their work is proven (specs/HeadersSync, engines E1/E2 + E3)."""
import collections, json, os
import vflib

META = dict(
    engine="E3",
    level="model_checking",
    text="HeadersSync.tla models HeadersSyncState::ProcessNextHeaders as coded (presync commitments, redownload commitment checks, "
         "look-ahead buffer, difficulty-transition checks on abstract difficulty levels, commitment bound). TLC checks the clauses of C33 "
         "as invariants on every session of a bounded universe (commitment period 2, buffer 3, chains of <= 10 headers, a fork after every "
         "height, several difficulty profiles incl. illegal ones, low-work and long chains, every message split up to 4-5 headers, full and "
         "short messages, colliding and non-colliding commitment bits): nothing released in PRESYNC nor before the first pass proved the work, "
         "released headers form one chain from the sync start, a header leaves the buffer only with more than a buffer of checked headers "
         "behind it or once the redownloaded chain has the work, a released fork header needs floor((B+1)/P) colliding commitment bits, "
         "commitments <= bound and buffer <= B, every released header has a permitted difficulty transition. Binding in both directions: "
         "(spec -> code) every transition of a sub-universe (E1) and TLC -simulate behaviours over a wider one (E2) are replayed on the real "
         "HeadersSyncState with real headers (custom consensus parameters where PermittedDifficultyTransition can fail, mock clock for the "
         "commitment bound, the object's own salted hasher to realise colliding / non-colliding headers); (code -> spec) a seeded adversarial "
         "peer drives the real object through hundreds of sessions (periods 2-5, buffers 1-9, chains up to 28, chain switch at a random "
         "height, bad difficulty, gaps, repeats, short messages) and TLC validates the recorded trace against the same actions with all "
         "invariants evaluated on every state.",
    note="SAFE mode: the implementation may give up (FINAL, nothing released) where the model continues; such steps are counted as "
         "diverged_conservative, never as violations. 'More than a full buffer' is read as coded and documented: the buffer, with the header, "
         "holds more than redownload_buffer_size headers. The per-header proof-of-work check is the caller's (net_processing CheckHeadersPoW "
         "before, ProcessNewBlockHeaders after) and is outside HeadersSyncState; it is not exercised here. With redownload_buffer_size = 0 "
         "(allowed by the fuzz target, used by no chain) the model shows that a header with a non-permitted difficulty transition can be "
         "released, because the transition is then checked against chain_start's nBits (MC_zerobuf.cfg, reported in the evidence, not a verdict).",
    technique="TLA+ spec HeadersSync + TLC exhaustive check of the C33 invariants; graph/simulation replay on the real HeadersSyncState; "
              "TLC trace validation of recorded adversarial sessions",
)

INVS = ("NothingReleasedInPresync FirstPassIsAChain ProvenBeforeRelease BoundedMemory ReleasedIsOneChain BufferContinuesReleased "
        "ProcessAllMeansWork ForkNeedsLuckOrWork ReleasedPermitted BufferRule").split()
WHYS = ["ok", "presync-nonconnecting", "presync-difficulty", "presync-too-many-commitments", "redownload-nonconnecting",
        "redownload-difficulty", "redownload-commitment-overrun", "redownload-commitment-mismatch"]
LIGHT_JVM = {"JAVA_TOOL_OPTIONS": "-XX:ParallelGCThreads=2 -XX:TieredStopAtLevel=1"}   # short single-worker runs


def classify(test):
    """A replayed behaviour is non-trivial if something was released or a redownloaded header was rejected."""
    rel = any(s["r"]["rel"] for s in test["steps"])
    red_fail = any(s["a"][3].startswith("redownload-") for s in test["steps"])
    return rel or red_fail


def sim_tests(path):
    """TLC -simulate evaluates the action constraint for *every* candidate successor of the state it is in, so the emit
    file holds, per visited state, the group of all its outgoing transitions (same level l, same f). The successor TLC
    chose is the f of the next group. Tests: the chosen behaviour itself, and for every visited state the path to it plus
    each distinct candidate transition (all of them are transitions of the specification)."""
    groups = []
    with open(path) as f:
        cur = None
        for ln in f:
            e = json.loads(ln)
            kf = vflib.canon(e["f"])
            if cur is None or cur["l"] != e["l"] or cur["kf"] != kf:
                cur = dict(l=e["l"], kf=kf, f=e["f"], edges={})
                groups.append(cur)
            cur["edges"].setdefault(vflib.canon([e["a"], e["t"]]), e)
    behaviours, fans = [], []
    path_steps, init = [], None
    for i, g in enumerate(groups):
        if g["l"] == 1:
            if path_steps:
                behaviours.append(dict(init=init, steps=path_steps))
            path_steps, init = [], g["f"]
        for e in g["edges"].values():
            fans.append(dict(init=init, steps=path_steps + [dict(a=e["a"], r=e["r"], exp=e["t"])]))
        nxt = groups[i + 1] if i + 1 < len(groups) else None
        chosen = None
        if nxt is not None and nxt["l"] == g["l"] + 1:
            for e in g["edges"].values():
                if vflib.canon(e["t"]) == nxt["kf"]:
                    chosen = e
                    break
        if chosen is None:                      # last step of a behaviour: any candidate will do
            chosen = next(iter(g["edges"].values()))
        path_steps = path_steps + [dict(a=chosen["a"], r=chosen["r"], exp=chosen["t"])]
    if path_steps:
        behaviours.append(dict(init=init, steps=path_steps))
    return behaviours, fans


def replay(ctx, binary, tests, name, per_why):
    for t in tests:
        per_why[t["steps"][-1]["a"][3]] += 1
        if classify(t):
            ctx.nontrivial.add(vflib.digest([t["init"]["w"], [s["a"][:3] for s in t["steps"]]]))
    res = ctx.run_harness(binary, "replay", tests, name=name)
    n = int(res["summary"]["tests"])
    ctx.evaluations += n; ctx.traces += n
    ctx.extra["replayed_steps"] = ctx.extra.get("replayed_steps", 0) + int(res["summary"]["steps"])
    ctx.extra["diverged_conservative"] = ctx.extra.get("diverged_conservative", 0) + int(res["summary"].get("diverged_conservative", 0))
    ctx.extra["replayed_steps_releasing"] = ctx.extra.get("replayed_steps_releasing", 0) + int(res["summary"].get("steps_releasing", 0))
    ctx.log("%s replay: %d tests, %d steps, %d mismatches, %d conservative give-ups" % (
        name, n, int(res["summary"]["steps"]), len(res["mismatches"]) + len(res["aborts"]), int(res["summary"].get("diverged_conservative", 0))))
    vflib.report_mismatches(ctx, binary, "replay", res, adapter="headerssync", what_prefix="HeadersSync %s: " % name)
    return res


def run(ctx):
    binary = ctx.build_adapter("headerssync")
    quick = ctx.tier == "quick"
    per_why = collections.Counter()

    # ---- 1. the property on the bounded model (TLC, exhaustive)
    #         quick: MC_quick.cfg also emits the transitions of its sub-universe E1QuickWorlds for step 2
    r = None
    for cfg in (["MC_quick.cfg"] if quick else ["MC_thorough.cfg", "MC_geo2.cfg"]):
        r = ctx.tlc("HeadersSync", "MCHeadersSync", cfg, timeout=2400)
    if not quick:
        # informational: the degenerate buffer size 0 (no chain uses it) breaks the difficulty clause in the model
        r0 = ctx.tlc("HeadersSync", "MCHeadersSync", "MC_zerobuf.cfg", expect_violation=True, timeout=600)
        ctx.extra["zero_buffer_model_finding"] = ("invariant %s false with redownload_buffer_size = 0" % r0.violated) if r0.violated else "none"

    # ---- 2. spec -> code, exhaustive on a sub-universe (E1): one implementation test per transition
    if not quick:
        r = ctx.tlc("HeadersSync", "MCHeadersSync", "E1_thorough.cfg", timeout=2400)
    g = vflib.Graph(vflib.load_emitted(r.emit_path))
    tests = list(g.edge_tests())
    ctx.log("E1: %d states, %d transitions -> %d implementation tests" % (len(g.nodes), g.nedges, len(tests)))
    ctx.sample(dict(world=tests[len(tests) // 2]["init"]["w"], actions=[s["a"] for s in tests[len(tests) // 2]["steps"]],
                    expected_result=tests[len(tests) // 2]["steps"][-1]["r"]))
    replay(ctx, binary, tests, "E1", per_why)
    missing = [w for w in WHYS if not per_why[w]]
    if missing:
        raise vflib.InfraError("vacuity: outcomes never produced by the bounded model: %s" % missing)

    # ---- 3. spec -> code, sampled on the wider universe incl. the second geometry (E2, TLC -simulate)
    num, depth = (60, 24) if quick else (600, 30)
    r = ctx.tlc("HeadersSync", "MCHeadersSync", "Sim.cfg", simulate=(num, depth), env=LIGHT_JVM if quick else None, timeout=2400)
    behaviours, fans = sim_tests(r.emit_path)
    ctx.log("E2: %d simulated behaviours (longest %d steps), %d path+transition tests" % (
        len(behaviours), max(len(b["steps"]) for b in behaviours), len(fans)))
    ctx.extra["simulated_behaviours"] = len(behaviours)
    replay(ctx, binary, behaviours + fans, "E2", per_why)
    ctx.extra["replayed_transitions_per_outcome"] = dict(per_why)

    # ---- 4. code -> spec (E3): seeded adversarial sessions on the real object, validated by TLC
    sessions = 250 if quick else 4000
    trace = ctx.run_driver(binary, "drive", args=[ctx.seed, sessions])
    lines = [json.loads(l) for l in open(trace)]
    nproc = sum(1 for l in lines if l["e"] == "Proc")
    nrel = sum(1 for l in lines if l["e"] == "Proc" and l["rel"])
    nfail_red = sum(1 for i, l in enumerate(lines) if l["e"] == "Proc" and not l["succ"] and i and lines[i - 1].get("st") == "REDOWNLOAD")
    if nrel < 20 or nfail_red < 5:
        raise vflib.InfraError("vacuity: the driven sessions released headers in %d calls and failed in REDOWNLOAD %d times" % (nrel, nfail_red))
    acc, matched, res = ctx.validate_trace("HeadersSync", "TraceHeadersSync", "Trace.cfg", trace, env=LIGHT_JVM if quick else None, timeout=2400)
    conservative = [json.loads(l) for l in open(res.emit_path)] if os.path.exists(res.emit_path) else []
    ctx.extra["trace_calls"] = nproc
    ctx.extra["trace_calls_releasing"] = nrel
    ctx.extra["trace_sessions"] = sessions
    ctx.extra["diverged_conservative"] = ctx.extra.get("diverged_conservative", 0) + len(set(c["line"] for c in conservative))
    ctx.traces += sessions; ctx.evaluations += nproc
    ctx.log("E3: %d sessions, %d calls (%d releasing), trace %s, %d conservative give-ups" % (
        sessions, nproc, nrel, "accepted" if acc else "REJECTED at line %d" % (matched + 1), len(set(c["line"] for c in conservative))))
    for i, l in enumerate(lines):
        if l["e"] == "Proc" and (l["rel"] or (not l["succ"] and lines[i - 1].get("st") == "REDOWNLOAD")):
            ctx.nontrivial.add(vflib.digest(["trace", ctx.seed, i]))
    if lines:
        k = next((i for i, l in enumerate(lines) if l["e"] == "Proc" and l["rel"]), 1)
        ctx.sample(dict(trace_line=k + 1, call=lines[k]))
    if not acc:
        bad = min(matched, len(lines) - 1)
        # keep the rejected prefix (from the start of its session) as the replay artefact
        start = max(i for i in range(bad + 1) if lines[i]["e"] == "Reset")
        keep = os.path.join(vflib.EVID, "replay", "C33-%d-trace.ndjson" % ctx.seed)
        with open(keep, "w") as f:
            for l in lines[start:bad + 1]:
                f.write(json.dumps(l) + "\n")
        if res.violated and res.violated != "Accepted":
            what = "the real HeadersSyncState reached a state that violates %s of HeadersSync (trace line %d: %s)" % (
                res.violated, bad + 1, json.dumps(lines[bad])[:400])
        else:
            what = "call %d of the recorded trace is not a transition of HeadersSync and is not a conservative give-up: %s" % (
                bad + 1, json.dumps(lines[bad])[:500])
        ctx.violation("trace:%s:%s" % (res.violated or "rejected", vflib.digest(lines[bad].get("ids"))), what,
                      dict(module_dir="HeadersSync", module="TraceHeadersSync", cfg="Trace.cfg", trace=keep, line=bad + 1 - start,
                           rejected_call=lines[bad]))
    ctx.assumptions += [
        "bounded model: commitment period 2-3, buffer 3-4, chains of <= 10 headers, one fork per session; larger geometries only through the driven sessions",
        "the salted 1-bit commitment hash is uninterpreted: equal headers match, different headers collide or not (both explored)",
        "difficulty is abstracted to levels (factor 4 apart); PermittedDifficultyTransition is exercised through real nBits on custom consensus parameters",
        "headers inside one message are continuous (checked by the caller before ProcessNextHeaders)",
        "proof of work of each header is checked by the caller (CheckHeadersPoW / ProcessNewBlockHeaders), not by HeadersSyncState",
    ]
    return ctx.finish(level="model_checking", exhaustive=False,
                      rule="E1: one test per transition of the bounded sub-universe; E2: TLC -simulate behaviours plus every candidate transition of each "
                           "visited state; E3: one validated trace of seeded adversarial sessions. Non-trivial = distinct replayed behaviours / trace "
                           "calls in which headers were released or a redownloaded header was rejected")
