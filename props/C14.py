"""C14 — parallel validation gives the same results as serial validation (specs/CheckQueue PlusCal + UtxoChain over thread counts)."""
import collections, json, os, sys
sys.path.insert(0, os.path.dirname(os.path.abspath(__file__)))
import vflib, _utxochain

META = dict(
    engine="E3+E1",
    level="model_checking",
    text="CheckQueue.tla (PlusCal) models CCheckQueue::Loop for the master and W workers with one label per critical section; TLC checks on every "
         "interleaving that Complete() reports a failing check iff one was added, that every check runs at most once, that a check is skipped only after a "
         "failure, that the queue is clean at return, and (weak fairness) that Complete() returns. The same runs enumerate the set of outcomes "
         "(executed checks, returned result) the design admits; the real CCheckQueue is driven with instrumented checks under seeded random delays "
         "for W = 0..3 and every observed outcome must be in that set. Independently, UtxoChain behaviours whose blocks carry one invalid script at every "
         "position among signature-checked spends are replayed on a real node for script-check workers in {0,1,3,16} x prevout-fetch threads in {0,1,4}: the "
         "model's verdict and UTXO set are thread-independent, so every configuration must reproduce them.",
    note="'No data race occurs' is not decided by a state model and is not claimed. Real thread schedules are sampled (seeded delays), not enumerated; the "
         "interleavings are enumerated only in the model. Batch size is nondeterministic in the model (the code's formula depends on the number of idle workers).",
    technique="PlusCal/TLA+ spec of the check queue, TLC safety + liveness; TLC-enumerated outcome set vs outcomes of the real CCheckQueue; UtxoChain replay across thread counts",
)
CONFIGS_Q = ["w0_n3", "w1_n4_none", "w1_n4_b2", "w2_n4_b3", "w2_n5_b14"]
CONFIGS_T = CONFIGS_Q + ["w2_n6_b6", "w3_n6_none", "w3_n6_b25"]


def run(ctx):
    qbin = ctx.build_adapter("checkqueue")
    ubin = ctx.build_adapter("utxochain")
    cases = []; allowed = {}
    for name in (CONFIGS_Q if ctx.tier == "quick" else CONFIGS_T):
        cfg = open(os.path.join(vflib.SPECS, "CheckQueue", "MC_%s.cfg" % name)).read()
        import re
        W = int(re.search(r"W = (\d+)", cfg).group(1)); N = int(re.search(r"NChecks = (\d+)", cfg).group(1)); B = int(re.search(r"BatchSize = (\d+)", cfg).group(1))
        bad = [int(x) for x in re.findall(r"\d+", re.search(r"Bad = \{([^}]*)\}", cfg).group(1))]
        r = ctx.tlc("CheckQueue", "CheckQueue", "MC_%s.cfg" % name, xmx="16g")
        outs = set(vflib.canon(json.loads(l)) for l in open(r.emit_path))
        if not outs:
            raise vflib.InfraError("no terminal outcome emitted for " + name)
        allowed[len(cases)] = (name, outs)
        cases.append(dict(W=W, N=N, B=B, bad=bad, reps=400 if ctx.tier == "quick" else 4000, seed=ctx.seed + len(cases)))
    res = ctx.run_harness(qbin, "run", cases, nproc=min(4, vflib.free_cpus()), name="cq")
    seen = collections.defaultdict(collections.Counter)
    for t in res["traces"]:
        idx = t["index"]
        o = vflib.canon(dict(executed=t["executed"], ret=t["ret"]))
        seen[idx][o] += 1
        ctx.evaluations += 1
    ctx.traces += sum(sum(c.values()) for c in seen.values())
    for idx, counter in seen.items():
        name, outs = allowed[idx]
        for o, cnt in counter.items():
            ctx.nontrivial.add(name + o)
            if o not in outs:
                ctx.violation("cq-outcome:%s:%s" % (name, vflib.digest(o)),
                              "CCheckQueue outcome %s (seen %d times, configuration %s) is not an outcome of any interleaving of the CheckQueue specification" % (o, cnt, name),
                              dict(adapter="checkqueue", mode="run", args=[], case=cases[idx], mismatch=dict(outcome=json.loads(o))))
        ctx.extra.setdefault("checkqueue_outcomes", {})[name] = dict(admitted_by_spec=len(outs), distinct_observed=len(counter), runs=sum(counter.values()))
    ctx.sample(dict(config=cases[-1], observed=[json.loads(o) for o in list(seen[len(cases) - 1])[:3]]))
    vflib.report_mismatches(ctx, qbin, "run", res, adapter="checkqueue")
    # ---- block validation across thread counts
    grid = [(0, 0), (1, 1), (3, 4), (16, 0)] if ctx.tier == "quick" else [(p, f) for p in (0, 1, 3, 16) for f in (0, 1, 4)]
    first = True
    for par, fetch in grid:
        pa, pr = _utxochain.run_scenario(ctx, ubin, "MC_par", "MCO_par", "par", {"ObsChainValid", "ObsUtxoIsReplay", "ObsTipMostWork", "ObsTipExact"},
                                         lambda p: any(2 in s["a"][2] for s in p["steps"] if s["a"][0] == "mine"),
                                         extra_args=["par=%d" % par, "fetch=%d" % fetch], model_check=first, tag="_p%d_f%d" % (par, fetch))
        first = False
    _utxochain.need(pr, ["connected", "script-failed"], "C14")
    ctx.extra["thread_grid"] = [dict(script_check_workers=p, prevout_fetch_threads=f) for p, f in grid]
    ctx.assumptions += ["data-race freedom is not decided by this check", "real schedules of CCheckQueue are sampled with seeded delays; model interleavings are exhaustive for W <= 3, <= 6 checks"]
    return ctx.finish(level="model_checking", exhaustive=False,
                      rule="(a) every interleaving of the CheckQueue model for the listed configurations; (b) sampled runs of the real CCheckQueue, distinct = distinct (configuration, outcome); "
                           "(c) path cover of the 'par' UtxoChain graph replayed once per thread configuration")
