"""Shared glue of the wallet-storage checks C62 / C43 / C42: sessions of the real wallet (harness/adapters/walletdb.cpp) run under
strace, crash images cut from the syscall stream with tools/crashfs.py, wallets reloaded from the images in batches."""
import collections, concurrent.futures, hashlib, json, os, re, shutil, subprocess, sys
sys.path.insert(0, os.path.join(os.path.dirname(os.path.dirname(os.path.abspath(__file__))), "tools"))
import vflib, crashfs

# image kinds. Power loss keeps, per file, the content at its last fsync; the two mixed kinds let the unsynced writes of one of
# the two files reach the disk anyway (writes to different files may be written back in any order).
MODE_NAMES = ["kill", "power", "power-journal-writes-kept", "power-db-writes-kept"]
TYPES = ["legacy", "p2sh-segwit", "bech32", "bech32m"]
SLOTS = [t + "/0" for t in TYPES] + [t + "/1" for t in TYPES]
PROBE = [["new", t, ""] for t in TYPES] + [["change", t] for t in TYPES]     # one fresh address of every active descriptor


def image_of(fs, mode):
    if mode == 0:
        return {p: bytes(b) for p, b in fs.files.items()}
    img = {}
    for p, b in fs.files.items():
        isj = p.endswith("-journal")
        if (mode == 2 and isj) or (mode == 3 and not isj):
            img[p] = bytes(b)
        elif p in fs.durable:
            img[p] = fs.durable[p]
    return img


def rel_image(img, base):
    return {p[len(base):]: b for p, b in img.items() if p.startswith(base)}


def image_digest(rel):
    h = hashlib.sha1()
    for p in sorted(rel):
        h.update(p.encode()); h.update(b"\0"); h.update(hashlib.sha1(rel[p]).digest())
    return h.hexdigest()


def dump(rel, dest):
    shutil.rmtree(dest, ignore_errors=True)
    os.makedirs(dest, exist_ok=True)
    for p, b in rel.items():
        q = dest + p
        os.makedirs(os.path.dirname(q), exist_ok=True)
        with open(q, "wb") as f:
            f.write(b)


class Session:
    """one run of the adapter under strace: out (the adapter's line), calls (parsed syscalls), marker positions"""
    def __init__(self, ctx, binary, script, tag, image_rel=None):
        self.tag = tag
        d = os.path.join(ctx.work, "sess"); os.makedirs(d, exist_ok=True)
        self.script = dict(script)
        self.preload = image_rel
        idir = None
        if image_rel is not None:
            idir = os.path.join(d, tag + ".img"); dump(image_rel, idir); self.script["image"] = idir
        else:
            self.script["image"] = None
        spath = os.path.join(d, tag + ".json"); json.dump(self.script, open(spath, "w"))
        self.trace = os.path.join(d, tag + ".strace")
        env = dict(os.environ); env["TMPDIR"] = ctx.tmp
        p = subprocess.run(["timeout", "600", "strace", "-f", "-y", "-xx", "-s", "8000000", "-o", self.trace, "-e", "trace=" + crashfs.SYSCALLS,
                            binary, "run", spath], capture_output=True, text=True, env=env, cwd=ctx.tmp)
        outs = [json.loads(l) for l in p.stdout.splitlines() if l.startswith('{"kind":"run"')]
        ab = [l for l in p.stdout.splitlines() if l.startswith('{"kind":"abort"')]
        # the code under test aborted (assertion, signal) inside a wallet call: a verdict on the property being checked, not an infrastructure error
        self.abort = json.loads(ab[0]) if ab else None
        if not outs:
            self.out = dict(kind="run", load="process ended with status %s: %s" % (p.returncode, (ab[0] if ab else (p.stderr or p.stdout)[-400:]).replace("\n", " ")), steps=[])
            self.aborted = True
        else:
            self.out = outs[0]; self.aborted = False
        self.calls = list(crashfs.parse(self.trace))
        os.unlink(self.trace)
        self.base_end = None; self.step_begin = {}; self.step_end = {}; self.end = None; self.preload_end = None
        for i, (_, _, _, m) in enumerate(self.calls):
            if not m:
                continue
            if m == "VF:base:end":
                self.base_end = i
            elif m == "VF:preload:end":
                self.preload_end = i
            elif m == "VF:end":
                self.end = i
            mm = re.match(r"VF:step:(\d+):(begin|end)", m)
            if mm:
                (self.step_begin if mm.group(2) == "begin" else self.step_end)[int(mm.group(1))] = i
        self.wbase = (self.out.get("root") or "") + "/w"
        if idir:
            shutil.rmtree(idir, ignore_errors=True)

    def new_fs(self):
        pre = {"/w" + rel: b for rel, b in self.preload.items()} if self.preload is not None else None
        return crashfs.FS(self.out["root"], preload=pre)

    def mutating_points(self, first=None):
        """syscall indices (after `first`, default: wallet created / loaded) whose call changed a file below the wallet directory.
        Also checks that the file model reproduces the wallet directory byte for byte (self.model_bad = names that differ)."""
        fs = self.new_fs(); pts = []
        first = self.base_end if first is None else first
        start = self.preload_end if self.preload is not None else -1
        for i, (call, args, ret, m) in enumerate(self.calls):
            if i <= start:
                continue
            before = len(fs.ops)
            fs.apply(call, args, ret, i)
            if first is not None and i > first and len(fs.ops) > before and fs.ops[-1][2].startswith(self.wbase):
                pts.append(i)
        self.model_bad = []
        for dp, _, names in os.walk(self.wbase):
            for nm in names:
                pth = os.path.join(dp, nm)
                if open(pth, "rb").read() != bytes(fs.files.get(pth, b"<missing>")):
                    self.model_bad.append(nm)
        return pts

    def images(self, points, modes=(0, 1, 2, 3)):
        """yields (point, mode, rel_image) for the given syscall indices (image = state right after that call)"""
        fs = self.new_fs(); want = set(points)
        start = self.preload_end if self.preload is not None else -1
        for i, (call, args, ret, m) in enumerate(self.calls):
            if i <= start:
                continue
            fs.apply(call, args, ret, i)
            if i in want:
                for mode in modes:
                    yield i, mode, rel_image(image_of(fs, mode), self.wbase)

    def steps_done(self, point):
        """(indices of steps that had returned at `point`, index of the step in progress or None)"""
        done = sorted(j for j, e in self.step_end.items() if e <= point)
        cur = [j for j, b in self.step_begin.items() if b <= point and self.step_end.get(j, 10 ** 12) > point]
        return done, (cur[0] if cur else None)

    def cleanup(self):
        if self.out.get("root"):
            shutil.rmtree(os.path.dirname(self.out["root"]), ignore_errors=True)


def recover_batch(ctx, binary, images, steps, keypool, secrets=None, chunk=25, jobs=None, tag="rec"):
    """images: list of rel images. Loads a wallet from each (copy into a fresh wallet directory, MakeWalletDatabase + LoadExisting),
    runs `steps` on it; returns the adapter's output per image (a failed / aborted load gives {"load": <why>})."""
    d = os.path.join(ctx.work, "rec"); os.makedirs(d, exist_ok=True)
    env = dict(os.environ); env["TMPDIR"] = ctx.tmp
    results = [None] * len(images)

    def run_chunk(idxs, depth=0):
        dirs = []
        for k in idxs:
            p = os.path.join(d, "%s_%d" % (tag, k)); dump(images[k], p); dirs.append(p)
        script = dict(keypool=keypool, images=dirs, steps=steps, unsafe_sync=True)
        if secrets is not None:
            script["secrets"] = secrets
        sp = os.path.join(d, "%s_%d.json" % (tag, idxs[0])); json.dump(script, open(sp, "w"))
        pr = subprocess.run(["timeout", "900", binary, "run", sp], capture_output=True, text=True, env=env, cwd=ctx.tmp)
        got = {}
        abort = None
        for l in pr.stdout.splitlines():
            if l.startswith('{"kind":"run"'):
                o = json.loads(l); got[o["image"]] = o
            elif l.startswith('{"kind":"abort"'):
                abort = json.loads(l)
        for n, k in enumerate(idxs):
            if n in got:
                results[k] = got[n]
        for p in dirs:
            shutil.rmtree(p, ignore_errors=True)
        os.unlink(sp)
        missing = [k for n, k in enumerate(idxs) if n not in got]
        if missing:
            # the process died on the first missing image: that image's load aborted; the rest is re-run
            why = abort["why"] if abort else "process ended with status %s: %s" % (pr.returncode, (pr.stderr or "")[-300:].replace("\n", " "))
            results[missing[0]] = dict(kind="run", load="load aborted: " + why, image=0)
            if len(missing) > 1:
                run_chunk(missing[1:], depth + 1)

    chunks = [list(range(i, min(i + chunk, len(images)))) for i in range(0, len(images), chunk)]
    with concurrent.futures.ThreadPoolExecutor(max_workers=jobs or vflib.free_cpus()) as ex:
        list(ex.map(run_chunk, chunks))
    return results


def addr_step(slot):
    t, internal = slot.split("/")
    return ["change", t] if internal == "1" else ["new", t, ""]
