"""C31 — block subsidy follows the 21 million schedule (specs/Subsidy, engine E4)."""
import json, os, re
import vflib

META = dict(
    engine="E4",
    level="model_checking",
    text="The subsidy schedule is a TLA+ operator over exact amount limbs (50 BTC halved once per completed interval, rounding down, zero from "
         "the 64th halving on), unrolled as a behaviour with one step per halving. The halving intervals are read from the real parameters of "
         "every built-in chain; for each of them TLC proves on the model that the subsidy never increases, that the rows partition the heights "
         "0..2^31-1 with a constant subsidy per row, and that interval x sum of the per-halving subsidies stays below 21,000,000 BTC "
         "(limb multiplication, no overflow). The emitted table (one row per interval and halving count 0..65 with the boundary heights "
         "k*I-1, k*I, k*I+1 and the end of the row) is checked against the real GetBlockSubsidy with the chain's own Consensus::Params: every "
         "boundary height exactly, and every height of every row (all 2^31 heights per chain in the thorough tier, a seeded stride in quick).",
    note="Heights are the non-negative ints 0..2^31-1. The quick tier samples each row with a stride (both ends and all halving boundaries are "
         "always included); the thorough tier evaluates every height of every chain.",
    technique="TLA+ operator + TLC invariants on the schedule; TLC-enumerated piecewise table swept over GetBlockSubsidy for every built-in chain",
)

CHUNK = 1 << 25
INVARIANTS_ABOUT_CODE_PARAMETERS = ("TotalBelowCap",)


def write_cfg(ctx, intervals):
    src = open(os.path.join(vflib.SPECS, "Subsidy", "MC.cfg")).read()
    new, n = re.subn(r"(?m)^\s*Intervals\s*=.*$", "  Intervals = {%s}" % ", ".join(str(i) for i in sorted(intervals)), src)
    if n != 1:
        raise vflib.InfraError("specs/Subsidy/MC.cfg: cannot find the Intervals line")
    path = os.path.join(ctx.work, "MC_chains.cfg")
    with open(path, "w") as f:
        f.write(new)
    return path


def model_check(ctx, intervals):
    cfg = write_cfg(ctx, intervals)
    return ctx.tlc("Subsidy", "Subsidy", cfg, name="MC_chains", expect_violation=True, timeout=600)


def run(ctx):
    binary = ctx.build_adapter("subsidy")
    # 1. the halving interval of every built-in chain, from the real chain parameters
    pr = ctx.run_harness(binary, "params", ["{}"], nproc=1, name="params")
    chains = {o["chain"]: int(o["interval"]) for o in pr["infos"] if "chain" in o}
    if len(chains) < 5:
        raise vflib.InfraError("adapter reported only %d chains: %s" % (len(chains), chains))
    ctx.extra["chain_intervals"] = chains
    ctx.log("halving intervals:", chains)
    bad = {c: i for c, i in chains.items() if i < 1}
    if bad:
        ctx.violation("interval-nonpositive:%s" % vflib.digest(bad), "halving interval is not positive for %s: the schedule is undefined" % bad,
                      dict(intervals=sorted(set(chains.values())), chains=chains))
        return ctx.finish(level="model_checking", exhaustive=False, rule="chain parameters rejected before model checking")
    intervals = sorted(set(chains.values()))

    # 2. TLC: the schedule's invariants for exactly these intervals, and the table
    r = model_check(ctx, intervals)
    if r.error:
        raise vflib.InfraError(r.error + " (log %s)" % r.log_path)
    if "StackOverflowError" in open(r.log_path, errors="replace").read():
        raise vflib.InfraError("TLC ran out of stack while evaluating the specification (log %s)" % r.log_path)
    if r.violated:
        if r.violated not in INVARIANTS_ABOUT_CODE_PARAMETERS:
            raise vflib.InfraError("specification Subsidy violates %s (model defect; log %s)" % (r.violated, r.log_path))
        txt = open(r.log_path, errors="replace").read()
        m = re.findall(r"/\\ I = (\d+)", txt)
        culprit = int(m[-1]) if m else None
        who = sorted(c for c, i in chains.items() if i == culprit)
        ctx.violation("tlc:%s:%s" % (r.violated, culprit),
                      "TLC: invariant %s of specs/Subsidy is false for halving interval %s (chains %s): interval x sum of all subsidies is not below "
                      "21,000,000 BTC" % (r.violated, culprit, who), dict(intervals=intervals, chains=chains, invariant=r.violated, tlc_log=r.log_path))
        return ctx.finish(level="model_checking", exhaustive=True, rule="TLC decided the cap on the chain parameters read from the code")
    rows = [json.loads(l) for l in open(r.emit_path)]
    if len(rows) != r.distinct:
        raise vflib.InfraError("emitted %d rows for %d distinct states" % (len(rows), r.distinct))
    for i in intervals:
        mine = sorted((x for x in rows if x["interval"] == i), key=lambda x: x["k"])
        if [x["k"] for x in mine] != list(range(len(mine))) or mine[0]["lo"] != 0 or mine[-1]["hi"] != 2 ** 31 - 1 or \
                any(a["hi"] + 1 != b["lo"] for a, b in zip(mine, mine[1:])):
            raise vflib.InfraError("table rows of interval %d do not partition 0..2^31-1" % i)
        if i <= (2 ** 31 - 1) // 65 and len(mine) != 66:
            raise vflib.InfraError("vacuity: expected rows for halving counts 0..65 of interval %d, have %d" % (i, len(mine)))
    positive = [x for x in rows if any(x["subsidy"]["d"])]
    if len(positive) < 30 * len(intervals):
        raise vflib.InfraError("vacuity: only %d rows with a positive subsidy" % len(positive))

    # 3. the table against the real GetBlockSubsidy, for every chain with that interval
    stride = 1 if ctx.tier == "thorough" else 61
    offset = (ctx.seed * 17) % stride if stride > 1 else 0
    pieces = []
    for x in rows:
        lo = x["lo"]
        first = True
        while lo <= x["hi"]:
            hi = min(x["hi"], lo + CHUNK - 1)
            p = dict(interval=x["interval"], k=x["k"], lo=x["lo"], hi=x["hi"], subsidy=x["subsidy"])
            p["from"], p["to"] = lo, hi
            if first:
                p["points"] = x["points"]; first = False
            pieces.append(p); lo = hi + 1
    if sum(p["to"] - p["from"] + 1 for p in pieces) != len(intervals) * 2 ** 31:
        raise vflib.InfraError("pieces do not cover every height once")
    res = ctx.run_harness(binary, "table", pieces, args=[stride, offset], timeout=1500)
    ctx.evaluations = int(res["summary"].get("calls", 0))
    ctx.traces = int(res["summary"].get("chain_rows", 0))
    changing = [x for x in rows if x["k"] == 0 or x["k"] == 64 or (len(x["points"]) > 1 and x["points"][0]["v"] != x["points"][1]["v"])]
    ctx.nontrivial = set(vflib.digest([c, x["k"]]) for x in changing for c, i in chains.items() if i == x["interval"])
    ctx.extra["rows"] = len(rows); ctx.extra["pieces"] = len(pieces); ctx.extra["stride"] = stride; ctx.extra["offset"] = offset
    ctx.extra["heights_per_chain"] = 2 ** 31 if stride == 1 else "every %d-th of 2^31 plus all row ends and halving boundaries" % stride
    ctx.extra["total_supply_limbs"] = {str(i): [x for x in rows if x["interval"] == i][-1]["total"] for i in intervals}
    for x in (rows[0], positive[-1], rows[-1]):
        ctx.sample(dict(interval=x["interval"], k=x["k"], lo=x["lo"], hi=x["hi"], subsidy=x["subsidy"]))
    vflib.report_mismatches(ctx, binary, "table", res, args=[stride, offset], adapter="subsidy", what_prefix="Subsidy: ",
                            key_fn=lambda m, case: "row:%s:%s" % ((json.loads(case)["interval"], json.loads(case)["k"]) if case else ("?", vflib.digest(m.get("why")))))
    ctx.assumptions += ["heights are non-negative ints (0..2^31-1); negative heights are outside the property",
                        "quick tier: rows are sampled with a stride between their (always checked) ends and halving boundaries"]
    return ctx.finish(level="model_checking", exhaustive=(stride == 1),
                      rule="one row per built-in chain interval and halving count 0..65 (TLC-enumerated, partitioning 0..2^31-1); each row is evaluated on "
                           "GetBlockSubsidy at its boundary heights and along its whole range for every chain with that interval; "
                           "non-trivial = distinct (chain, halving count) rows at whose lower boundary the subsidy changes, plus the first row and the 64th-halving cut-off")


def replay(ctx, path):
    o = json.load(open(path))
    if "invariant" in o and "intervals" in o:
        r = model_check(ctx, o["intervals"])
        print("REPLAY result: TLC %s" % ("still violates " + str(r.violated) if r.violated else "finds no violation"))
        return 1 if r.violated else 0
    return vflib.generic_replay(ctx, path)
