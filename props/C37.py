"""C37 — the address manager stays internally consistent and bounded (specs/AddrMan, engine E3 + TLC model checking)."""
import collections, concurrent.futures, json, os
import vflib

META = dict(
    engine="E3",
    level="model_checking",
    text="AddrMan.tla models AddrManImpl as coded: per-address statistics, the new / tried slot tables, the test-before-evict collision "
         "set (ids die with their entry: generations), m_last_good and the incrementally maintained counters; one action per public call "
         "(Add incl. vectors, Good with the collision path, Attempt, Connected, SetServices, ResolveCollisions, SelectTriedCollision, Select, "
         "GetAddr, Serialize->Unserialize into a fresh object). The keyed hashes are uninterpreted (tried slot per address, position per "
         "address and bucket fixed; the choice of the new bucket free), the code's randomness is nondeterminism. TLC proves the clauses of "
         "C37 on bounded universes where every call collides: refcount = number of new slots <= limit, tried => exactly its one tried slot "
         "and no new slot, every entry placed, one address per slot / buckets within capacity, positions = hash, counters = recomputation "
         "(what Size() reports), tried => a success time, pending collisions wait for an occupied slot, a reload preserves addresses, slots "
         "and stored statistics, Select hands out a known address of the right table and network. Binding (code -> spec): a seeded driver "
         "runs the real AddrMan (deterministic, CheckAddrman before and after every call, mock time) over universes of 16 addresses of all "
         "networks - incl. 6to4 / Teredo / NAT64 / SIIT addresses, which GetNetwork() counts as IPv6 and GetNetClass() as IPv4, sharing tried slots "
         "with ordinary addresses and evicted in both directions - constructed so that tried-slot and new-slot collisions, evictions back to the new table, deletions by overwrite, "
         "refcount 8 and a full collision set really occur; after every call it records Size() by table and network, all slots and "
         "statistics, pending collisions and FindAddressEntry of every address, and TLC validates each recorded call as a transition of "
         "the specification with all invariants evaluated on every state. An abort inside a call (the consistency check) is a violation.",
    note="INV mode: which bucket the hashes select is not compared (the recorded state resolves it), the result of the 1-in-2^refcount test "
         "and Select's pick are whatever the call shows, provided they are admissible. Calls get times >= 1 (Good with the epoch as time "
         "would enter tried with m_last_success = 0, which CheckAddrman rejects: callers pass the current time). Replaying TLC behaviours "
         "on the real object is not possible without inverting the keyed hash, so the spec -> code direction is covered by the universes' "
         "constructed collisions instead. Unserialize's re-bucketing fallback (different key / asmap) is outside the round trip checked here.",
    technique="TLA+ spec AddrMan + TLC exhaustive check of the C37 invariants on small universes (+ simulation on larger ones); "
              "TLC trace validation of recorded call sequences of the real AddrMan",
)

INVS = "RefCountOK TriedExclusive KnownPlaced TablesBounded PositionsOK CountersOK StatsOK CollisionsOK".split()
LIGHT_JVM = {"JAVA_TOOL_OPTIONS": "-XX:ParallelGCThreads=2 -XX:TieredStopAtLevel=1"}
WITNESSES = ["refcount_limit_reached", "add_refused_at_limit", "moved_to_tried", "collision_recorded", "collision_set_full", "stale_collision_id",
             "evicted_to_new", "eviction_deletes_entry", "add_overwrite_deletes_entry"]


def split_sessions(ctx, trace):
    """One file per driven session (Reset .. next Reset); returns [(path, first_line_number, lines)] and the End record."""
    sessions, cur, end, first = [], [], None, 1
    with open(trace) as f:
        for n, ln in enumerate(f, 1):
            o = json.loads(ln)
            if o["e"] == "End":
                end = o
                continue
            if o["e"] == "Reset" and cur:
                sessions.append((first, cur)); cur = []; first = n
            cur.append(o)
    if cur:
        sessions.append((first, cur))
    out = []
    for i, (first, lines) in enumerate(sessions):
        p = os.path.join(ctx.work, "session%02d.ndjson" % i)
        with open(p, "w") as f:
            for o in lines:
                f.write(json.dumps(o) + "\n")
        out.append((p, first, lines))
    return out, end


def events(lines, ev, nontrivial, tag):
    """Counts what the driven calls exercised (vacuity guard and evidence only - never a verdict)."""
    pre = None
    routable = {}; embedded = set()
    for k, o in enumerate(lines):
        if o["e"] == "Reset":
            routable = o["uni"]["routable"]
            # addresses the two classification functions put into different networks (GetNetwork() / GetNetClass())
            embedded = set(a for a, n in o["uni"]["net"].items() if o["uni"]["cls"][a] != n)
            ev["universe_addresses_net_differs_from_class"] = max(ev["universe_addresses_net_differs_from_class"], len(embedded))
        st = o.get("st")
        e = o["e"]
        ev["calls:" + e] += 1
        if e == "Abort":
            continue
        if st is None:
            continue
        info = st["info"]
        if pre is not None and e not in ("Reset",):
            pinfo = pre["info"]
            gone = [a for a in info if pinfo[a]["known"] and not info[a]["known"]]
            lost_ref = [a for a in info if info[a]["known"] and pinfo[a]["known"] and not pinfo[a]["tried"] and not info[a]["tried"] and info[a]["ref"] < pinfo[a]["ref"]]
            evicted = [a for a in info if pinfo[a]["tried"] and info[a]["known"] and not info[a]["tried"]]
            interesting = False
            if e == "Add":
                for it in o["items"]:
                    a = it["a"]
                    if pinfo[a]["known"] and pinfo[a]["ref"] == 8:
                        ev["add_at_refcount_8"] += 1
                    if not pinfo[a]["known"] and not info[a]["known"] and len(o["items"]) == 1 and routable.get(a) and not o["res"]:
                        ev["add_blocked_by_occupant"] += 1; interesting = True
                    if info[a]["known"] and pinfo[a]["known"] and info[a]["ref"] > pinfo[a]["ref"] >= 1:
                        ev["add_refcount_increase"] += 1; interesting = True
                if gone:
                    ev["add_overwrite_deletes_entry"] += 1; interesting = True
                elif lost_ref:
                    ev["add_overwrite_takes_reference"] += 1; interesting = True
                if len(o["items"]) > 1:
                    ev["add_vector"] += 1
            elif e == "Good":
                if o["res"]:
                    ev["good_moved_to_tried"] += 1; interesting = True
                if len(st["coll"]) > len(pre["coll"]):
                    ev["good_collision_recorded"] += 1; interesting = True
                if len(pre["coll"]) + pre["stale"] == 10 and info[o["a"]]["known"] and not info[o["a"]]["tried"] and o["a"] not in st["coll"]:
                    ev["good_collision_set_full"] += 1
            elif e == "Resolve":
                entered = [a for a in info if info[a]["tried"] and not pinfo[a]["tried"]]
                if evicted:
                    ev["resolve_evicts_to_new"] += 1; interesting = True
                    if set(evicted) & embedded:
                        ev["embedded_ipv4_address_evicted"] += 1
                    if set(entered) & embedded and set(evicted) - embedded:
                        ev["ordinary_address_evicted_by_embedded_ipv4"] += 1
                    if gone:
                        ev["eviction_deletes_new_entry"] += 1
                if o["order"] and st["coll"]:
                    ev["resolve_keeps_pending"] += 1
                if len(o["order"]) > len(st["coll"]) and not evicted:
                    ev["resolve_drops_collision"] += 1
                if pre["stale"] and not st["stale"]:
                    ev["resolve_drops_stale_id"] += 1
            elif e == "SelTC":
                if o["res"]["a"] != "none":
                    ev["seltc_returns_occupant"] += 1
                if st["stale"] < pre["stale"]:
                    ev["seltc_drops_stale_id"] += 1
            elif e == "Select":
                if o["res"]["a"] != "none":
                    ev["select_returns_address"] += 1
                else:
                    ev["select_returns_nothing"] += 1
            elif e == "Reload":
                if st["new"] and st["tried"]:
                    ev["reload_with_both_tables"] += 1; interesting = True
                if any(info[a]["known"] for a in embedded):
                    ev["reload_with_embedded_ipv4_address"] += 1
            if interesting:
                nontrivial.add(vflib.digest([tag, k]))
        ev["max_refcount"] = max(ev["max_refcount"], max(i["ref"] for i in info.values()))
        ev["max_pending_collisions"] = max(ev["max_pending_collisions"], len(st["coll"]) + st["stale"])
        if st["stale"]:
            ev["states_with_stale_collision_id"] += 1
        ev["max_new_entries"] = max(ev["max_new_entries"], len(st["new"]))
        ev["max_tried_entries"] = max(ev["max_tried_entries"], len(st["tried"]))
        pre = st


def diagnose(ctx, path, lineno, name):
    """Re-run the rejected prefix with DIAGLINE: the trace module prints the state before the unmatched call and the successor
    it computes with the adapter's hints; returns a short description of the first differences to the recorded state."""
    try:
        r = ctx.tlc("AddrMan", "TraceAddrMan", "Trace.cfg", name=name + "-diag", workers=1, env={"TRACE": path, "DIAGLINE": str(lineno), **LIGHT_JVM},
                    expect_violation=True, timeout=900)
        rows = [json.loads(l) for l in open(r.emit_path)]
        if not rows:
            return ""
        d = rows[0]
        rec = json.loads(open(path).readlines()[lineno - 1])
        st = rec.get("st")
        if st is None:
            return ""
        best = None
        for cand in d["post"]:
            s = cand["s"]
            diffs = []
            for a, i in st["info"].items():
                m = s["info"][a]
                for k in ("known", "tried", "ref", "lastTry", "lastCount", "lastSucc", "attempts", "src", "nTime"):
                    if m[k] != i[k]:
                        diffs.append("%s.%s: spec %s, code %s" % (a, k, m[k], i[k]))
                if sorted(m["svc"]) != sorted(i["svc"]):
                    diffs.append("%s.svc: spec %s, code %s" % (a, m["svc"], i["svc"]))
            for key, tab in (("new", "new"), ("tried", "tried")):
                ms = set((e[0][0], e[0][1], e[1]) for e in s[tab]); cs = set(tuple(e) for e in st[key])
                if ms != cs:
                    diffs.append("%s table: only spec %s, only code %s" % (key, sorted(ms - cs)[:4], sorted(cs - ms)[:4]))
            if s["lg"] != st["lg"]:
                diffs.append("m_last_good: spec %s, code %s" % (s["lg"], st["lg"]))
            for k, c in (("nAll", "all"), ("nNew", "new"), ("nTried", "tried")):
                if s[k] != st["sz"][c]:
                    diffs.append("Size(%s): spec %s, code %s" % (c, s[k], st["sz"][c]))
            for n, v in st["sz"]["net"].items():
                if n in s["cnt"] and [s["cnt"][n]["n"], s["cnt"][n]["t"]] != v[:2]:
                    diffs.append("Size(%s): spec new/tried %s, code %s" % (n, [s["cnt"][n]["n"], s["cnt"][n]["t"]], v[:2]))
            if cand.get("r") not in ("", None) and "res" in rec and isinstance(rec["res"], bool) and cand["r"] != str(rec["res"]).upper():
                diffs.append("result: spec %s, code %s" % (cand["r"], rec["res"]))
            if best is None or len(diffs) < len(best):
                best = diffs
        return "; ".join((best or [])[:6])
    except Exception as ex:       # diagnostics only
        return "(no diagnosis: %s)" % ex


def run(ctx):
    binary = ctx.build_adapter("addrman")
    quick = ctx.tier == "quick"
    only = os.environ.get("VERIF_C37_ONLY", "")      # "trace" skips the pure TLC runs (used by the seeded self-tests)

    # ---- 1. the property on bounded universes (TLC, exhaustive + simulation); the Witness action constraint reports the
    #         situations the property is about (each must be reachable in the exhaustively explored model)
    if only != "trace":
        reached = collections.Counter()
        for cfg in (["MC_struct3.cfg"] if quick else ["MC_struct3.cfg", "MC_struct4.cfg", "MC_time2.cfg", "MC_pos.cfg", "MC_wide4.cfg"]):
            r = ctx.tlc("AddrMan", "MCAddrMan", cfg, timeout=2400)
            names = set(json.loads(l)["w"] for l in open(r.emit_path))
            for n in names:
                reached[n] += 1
            if cfg == "MC_struct3.cfg":
                missing = [w for w in WITNESSES if w not in names]
                if missing:
                    raise vflib.InfraError("vacuity: the bounded model %s never reaches %s" % (cfg, missing))
        sims = [("Sim_4.cfg", (300, 60))] if quick else [("Sim_4.cfg", (6000, 80)), ("Sim_5.cfg", (4000, 100))]
        for cfg, nd in sims:
            r = ctx.tlc("AddrMan", "MCAddrMan", cfg, simulate=nd, timeout=2400, env=LIGHT_JVM if quick else None)
            for n in set(json.loads(l)["w"] for l in open(r.emit_path)):
                reached[n] += 1
        ctx.extra["model_situations_reached_in_runs"] = dict(reached)

    # ---- 2. code -> spec (E3): seeded call sequences on the real AddrMan, validated by TLC
    sessions, ops = (8, 260) if quick else (48, 500)
    trace = ctx.run_driver(binary, "drive", args=[ctx.seed, sessions, ops], timeout=2400)
    files, end = split_sessions(ctx, trace)
    ev = collections.Counter()
    for i, (p, first, lines) in enumerate(files):
        events(lines, ev, ctx.nontrivial, "%d:%d" % (ctx.seed, i))
    ncalls = sum(len(l) for _, _, l in files)
    ctx.extra["driven_sessions"] = len(files); ctx.extra["driven_calls"] = ncalls
    ctx.extra["driven_events"] = {k: v for k, v in sorted(ev.items())}
    ctx.log("driver: %d sessions, %d lines; %s" % (len(files), ncalls, {k: v for k, v in ev.items() if not k.startswith("calls:")}))
    aborted = ev["calls:Abort"] > 0 or ev["calls:ReloadFailed"] > 0
    if not aborted:
        need = ["add_blocked_by_occupant", "add_refcount_increase", "add_overwrite_deletes_entry", "add_at_refcount_8", "good_moved_to_tried",
                "good_collision_recorded", "resolve_evicts_to_new", "seltc_returns_occupant",
                "select_returns_address", "reload_with_both_tables", "states_with_stale_collision_id", "calls:GetAddr", "calls:Connected",
                "calls:SetServices", "calls:Attempt", "add_vector", "embedded_ipv4_address_evicted", "ordinary_address_evicted_by_embedded_ipv4",
                "reload_with_embedded_ipv4_address"]
        missing = [k for k in need if not ev[k]]
        if ev["max_refcount"] < 8:
            missing.append("refcount 8")
        if ev["max_pending_collisions"] < (10 if not quick else 8):
            missing.append("collision set of %d" % (10 if not quick else 8))
        if missing:
            raise vflib.InfraError("vacuity: the driven sessions never exercised %s" % missing)

    # one TLC run per group of sessions (JVM start and JSON parsing dominate short runs), groups balanced by size
    nbins = max(1, min(vflib.free_cpus(), len(files), 8))
    bins = [[] for _ in range(nbins)]
    for item in sorted(files, key=lambda x: -len(x[2])):
        min(bins, key=lambda b: sum(len(x[2]) for x in b)).append(item)
    groups = []
    session_of = {id(ls): k for k, (_, _, ls) in enumerate(files)}
    for i, b in enumerate(bins):
        p = os.path.join(ctx.work, "group%02d.ndjson" % i)
        lines = [dict(o, _session=session_of[id(ls)]) if o["e"] == "Reset" else o for _, _, ls in b for o in ls]
        with open(p, "w") as f:
            for o in lines:
                f.write(json.dumps(o) + "\n")
        groups.append((p, 1, lines))

    def validate(item):
        i, (p, first, lines) = item
        acc, matched, res = ctx.validate_trace("AddrMan", "TraceAddrMan", "Trace.cfg", p, name="trace%02d" % i, env=LIGHT_JVM if quick else None, timeout=2400)
        devs = [json.loads(x) for x in open(res.emit_path)] if os.path.exists(res.emit_path) else []
        if not acc and res.violated and res.violated != "Accepted":
            # an invariant is false on a recorded state: the error trace ends in that state, l = the next line to read
            import re
            txt = open(res.log_path).read()
            ls = re.findall(r"(?m)^/\\ l = (\d+)", txt)
            acts = re.findall(r"(?m)^State \d+: <(\w+) ", txt)
            if ls:
                matched = max(0, int(ls[-1]) - 2)
                # the call that produced the violating state is named in the header of the last state of the error trace
                if acts and not (0 <= matched < len(lines) and "T" + lines[matched]["e"] == acts[-1]):
                    for alt in (matched - 1, matched + 1):
                        if 0 <= alt < len(lines) and "T" + lines[alt]["e"] == acts[-1]:
                            matched = alt
                            break
            else:
                # no error trace in the log: the search depth counts the initial state and the violating one
                matched = max(0, matched - 1)
        return i, p, first, lines, acc, matched, res, devs
    with concurrent.futures.ThreadPoolExecutor(max_workers=nbins) as ex:
        results = list(ex.map(validate, enumerate(groups)))
    ctx.traces += len(files)
    deviations = collections.Counter()
    for i, p, first, lines, acc, matched, res, devs in results:
        for d in devs:
            if d.get("kind") == "deviation":
                deviations[d["e"]] += 1
    # calls that are structurally admissible but do not follow the model's policy (when to overwrite / evict / count): not violations
    ctx.extra["policy_deviations"] = dict(deviations)
    if deviations:
        ctx.log("calls matched only structurally (policy differs from the model, not a violation of C37): %s" % dict(deviations))
    for i, p, first, lines, acc, matched, res, devs in results:
        ctx.evaluations += matched if not acc else len(lines)
        if acc:
            continue
        bad = min(matched, len(lines) - 1)             # index of the unmatched line within the session
        rec = lines[bad]
        start = max(j for j in range(bad + 1) if lines[j]["e"] == "Reset")      # keep the session of the unmatched call only
        lines = lines[start:]; bad -= start
        i = lines[0].get("_session", i)
        keep = os.path.join(vflib.EVID, "replay", "C37-%d-session%02d.ndjson" % (ctx.seed, i))
        with open(keep, "w") as f:
            for o in lines[:bad + 1]:
                f.write(json.dumps(o) + "\n")
        call = {k: v for k, v in rec.items() if k != "st"}
        if rec["e"] == "Abort":
            what = ("the real AddrMan aborted inside a call (consistency check / assertion, signal %s) in call %d of session %d: %s" % (
                rec.get("signal"), bad + 1, i, json.dumps(rec.get("call"))[:300]))
            key = "abort:" + vflib.digest((rec.get("call") or {}).get("e"))
        elif rec["e"] == "ReloadFailed":
            what = "Unserialize of the serialized AddrMan failed in call %d of session %d: %s" % (bad + 1, i, rec.get("what"))
            key = "reloadfailed"
        elif res.violated and res.violated not in ("Accepted",):
            what = "the real AddrMan reached a state that violates %s of AddrMan (session %d, call %d: %s)" % (
                res.violated, i, bad + 1, json.dumps(call)[:300])
            key = "trace:%s:%s" % (res.violated, rec["e"])
        else:
            why = diagnose(ctx, keep, bad + 1, "trace%02d" % i)
            what = "call %d of session %d is not a transition of AddrMan: %s%s" % (
                bad + 1, i, json.dumps(call)[:300], (" -- " + why) if why else "")
            key = "trace:rejected:%s" % rec["e"]
        ctx.violation(key, what, dict(module_dir="AddrMan", module="TraceAddrMan", cfg="Trace.cfg", trace=keep, line=bad + 1, rejected_call=call))
    k = next((j for j, o in enumerate(files[0][2]) if o["e"] == "Good" and o.get("res")), 1)
    ctx.sample(dict(session=0, call=k + 1, line={kk: vv for kk, vv in files[0][2][k].items() if kk != "st"}))
    ctx.assumptions += [
        "bounded model: 2-4 addresses (5 in simulation), 1-3 new and 1-2 tried buckets of 1-2 positions, reference limit 1-2, collision limit 1-2, clock 1..2 (1..8 in simulation) with small durations; the real constants only through the driven sessions",
        "the keyed hashes are uninterpreted functions (the same after a reload: the key is part of the file); the choice of the new bucket is unconstrained",
        "time arguments of calls are >= 1 (Good at the epoch would store m_last_success = 0 in a tried entry, which CheckAddrman itself rejects)",
        "asmap absent (NetGroupManager::NoAsmap), serialization round trip with the same key and bucket count",
    ]
    return ctx.finish(level="model_checking", exhaustive=False,
                      rule="TLC explores every behaviour of the bounded universes; the driver issues seeded random calls (plus a fill phase on the "
                           "one-slot universe and a refcount pump) and every recorded call is validated as a transition. Non-trivial = distinct "
                           "recorded calls in which a collision, overwrite, eviction, refcount increase, move to tried or a reload of both tables happened")


def replay(ctx, path):
    o = json.load(open(path))
    acc, n, res = ctx.validate_trace(o["module_dir"], o["module"], o["cfg"], o["trace"], name="replay")
    print("REPLAY result: trace %s (matched prefix %d)" % ("accepted" if acc else "rejected", n))
    return 0 if acc else 1
