"""C57 — scripts are skipped only under the assumed-valid conditions (specs/AssumeValid, engine E4 on a real regtest node)."""
import collections, json
import vflib

META = dict(
    engine="E4",
    level="model_checking",
    text="AssumeValid states the script-skip decision of ConnectBlock twice: in the code's order (assumed-valid hash set / in the block index / "
         "GetAncestor comparisons with the assumed-valid block and the best header / minimum chain work / proof-equivalent time <= two weeks) and as "
         "the property reads (ancestor-or-equal of the assumed-valid block, on the best header chain, best header work >= minimum chain work, more "
         "than 2016 blocks of work on top). TLC proves both equal on every row of the table: position of a block with a failing-script spend "
         "(below / at / above the assumed-valid block, on a competing branch, on the assumed-valid chain while the best header is elsewhere, with a "
         "weaker competing branch, below the fork point of both) x distance to the best header (2016 / 2017 blocks) x minimum chain work (below / "
         "equal / above the best header's work) x assumed-valid (unset / set / unknown hash). For each row the harness builds the real header tree "
         "(~2100 blocks), configures a fresh node, feeds all headers, then the blocks up to the bad block, and requires that the bad block is "
         "accepted only where the conditions hold. AssumeValidHist adds connection HISTORY: the bad block is connected (scripts skipped, per-block "
         "'scripts valid' flag raised), disconnected by a reorg to a side branch or by invalidateblock, the header tree changes (best header moves to the side branch, "
         "or a far descendant header is invalidated), and the block is connected again by a reorg back or reconsiderblock; TLC proves that the bad block is in the "
         "active chain only if the conditions held at its most recent connection (and finds the violation for a decision that trusts the flag); every transition of "
         "that graph is replayed on a real node.",
    note="SAFE mode: a node that verifies scripts where skipping is allowed is counted (verified_where_skip_allowed), not reported. The bad block's "
         "reject reason must be the script failure; any other reason is a harness defect and reported as such.",
    technique="TLA+ decision table (procedural = declarative, TLC), every row replayed on a real node with real header trees",
)


def histories(ctx, binary):
    """Connection histories (AssumeValidHist): the decision is taken at EVERY connection with the header tree of that moment."""
    # negative control of the model: a decision that trusts the per-block 'scripts valid' flag must be caught by TLC
    r = ctx.tlc("AssumeValid", "MC_hist", "NEG_hist_flag.cfg", name="NEG_hist_flag", expect_violation=True, emit=False)
    if r.error or r.violated != "BadOnlyIfCondsHeldThen":
        raise vflib.InfraError("negative control NEG_hist_flag: TLC did not find the stale-flag acceptance (violated=%s %s)" % (r.violated, r.error or ""))
    ctx.extra["negative_controls"] = {"NEG_hist_flag": r.violated}
    cfg = "E1_hist_q.cfg" if ctx.tier == "quick" else "E1_hist_t.cfg"
    r = ctx.tlc("AssumeValid", "MC_hist", cfg, name=cfg[:-4])
    recs = vflib.load_emitted(r.emit_path)
    geo = [x for x in recs if "geometry" in x]
    edges = [x for x in recs if "geometry" not in x]
    if not geo:
        raise vflib.InfraError("specification did not print its geometry")
    geo = geo[0]["geometry"]
    per_action = collections.Counter(e["a"][0] for e in edges)
    missing = [a for a in ("start", "forkaway", "sidehdrs", "invfar", "comeback", "invx", "reconsx") if not per_action[a]]
    # re-connections of X: accepted again (conditions still hold) and refused (conditions falsified in between)
    recon_ok = sum(1 for e in edges if e["f"]["flag"] and not e["f"]["xin"] and e["t"]["xin"])
    recon_refused = sum(1 for e in edges if e["f"]["flag"] and not e["f"]["xin"] and not e["f"]["xfailed"] and e["t"]["xfailed"] and e["a"][0] in ("comeback", "reconsx"))
    if missing or not recon_ok or not recon_refused:
        raise vflib.InfraError("vacuity (histories): missing actions %s, re-connections accepted %d refused %d" % (missing, recon_ok, recon_refused))
    g = vflib.Graph(edges)
    paths = list(g.path_cover())
    for p in paths:
        acts = [s["a"][0] for s in p["steps"]]
        if any(s["exp"]["flag"] for s in p["steps"][:-1]):
            ctx.nontrivial.add(vflib.digest([p["init"]["cfg"], acts]))
    ctx.log("histories: %d states, %d transitions -> %d paths, %d steps; re-connections accepted %d / refused %d in the model" % (
        len(g.nodes), g.nedges, len(paths), sum(len(p["steps"]) for p in paths), recon_ok, recon_refused))
    mid = paths[len(paths) // 2]
    ctx.sample(dict(history=[s["a"][0] for s in mid["steps"]], config=mid["init"]["cfg"], bad_block_in_chain=[s["exp"]["xin"] for s in mid["steps"]]))
    args = [geo["hb"], geo["fork"], geo["avh"], geo["farh"]]
    res = ctx.run_harness(binary, "history", paths, args=args, nproc=min(vflib.free_cpus(), 8), timeout=2400, name="history")
    s = res["summary"]
    ctx.evaluations += int(s["steps"]); ctx.traces += int(s["tests"])
    ctx.extra["history_transitions_covered"] = g.nedges
    ctx.extra["history_steps_replayed"] = int(s["steps"])
    ctx.extra["history_steps_bad_block_in_chain"] = int(s.get("steps_with_bad_block_in_chain", 0))
    ctx.extra["history_diverged_conservative"] = int(s.get("verified_where_skip_allowed", 0))
    ctx.extra["history_transitions_per_action"] = dict(per_action)
    vflib.report_mismatches(ctx, binary, "history", res, args=args, adapter="assumevalid", what_prefix="AssumeValid history: ")


def run(ctx):
    binary = ctx.build_adapter("assumevalid")
    cfg = "MC_quick.cfg" if ctx.tier == "quick" else "MC_thorough.cfg"
    r = ctx.tlc("AssumeValid", "AssumeValid", cfg)
    rows = [json.loads(l) for l in open(r.emit_path)]
    if len(rows) != r.distinct:
        raise vflib.InfraError("emitted %d rows for %d distinct states" % (len(rows), r.distinct))
    by_reason = collections.Counter(x["reason"] for x in rows)
    for reason in ("skip", "assumevalid=0", "assumevalid hash not in headers", "block height above assumevalid height", "block not in assumevalid chain",
                   "block not in best header chain", "best header chainwork below minimumchainwork", "block too recent relative to best header"):
        if not by_reason[reason]:
            raise vflib.InfraError("vacuity: no row with decision '%s'" % reason)
    # rows of one tree shape together (the harness caches the chains per process), skip rows first in every shard
    rows.sort(key=lambda x: (x["pos"], x["dist"], x["av"], x["mcw"]))
    res = ctx.run_harness(binary, "table", rows, nproc=min(vflib.free_cpus(), 7), timeout=2400)
    s = res["summary"]
    ctx.evaluations += int(s["tests"]); ctx.traces += int(s["tests"])
    ctx.nontrivial |= set(vflib.digest(x) for x in rows if x["av"] == "set")
    ctx.extra["rows_per_decision"] = dict(by_reason)
    ctx.extra["node_accepted_bad_block"] = int(s.get("accepted", 0))
    ctx.extra["node_rejected_bad_block_for_script"] = int(s.get("rejected_for_script", 0))
    ctx.extra["diverged_conservative"] = int(s.get("verified_where_skip_allowed", 0))
    for x in [x for x in rows if x["skip"]][:1] + [x for x in rows if x["reason"] == "block too recent relative to best header"][:1] + \
             [x for x in rows if x["reason"] == "block not in best header chain"][:1]:
        ctx.sample(x)
    vflib.report_mismatches(ctx, binary, "table", res, adapter="assumevalid", what_prefix="AssumeValid: ",
                            key_fn=lambda m, case: "row:" + vflib.digest([m.get("action", {}).get(k) for k in ("pos", "dist", "mcw", "av")]))
    histories(ctx, binary)
    ctx.assumptions += ["regtest: every block has proof 2 and 10-minute target spacing, so two weeks of work = 2016 blocks; the bad block is at height 102",
                        "table rows: all headers are known before the blocks are delivered; blocks above the bad block are never delivered",
                        "histories: one bad block below the assumed-valid block; the conditions are falsified between connections by moving the best header to a side branch "
                        "(header-only extension) or by invalidating a far descendant header; re-connection by reorg back or by invalidateblock/reconsiderblock"]
    return ctx.finish(level="model_checking", exhaustive=True,
                      rule="every row of the decision table (position x distance x minimum chain work x assumed-valid setting) plus a path cover of every transition of the bounded "
                           "connection-history graph; non-trivial = rows with an assumed-valid block in the index, and history paths that act after the bad block was connected once")
