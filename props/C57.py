"""C57 — scripts are skipped only under the assumed-valid conditions (specs/AssumeValid, engine E4 on a real regtest node)."""
import collections, json
import vflib

META = dict(
    engine="E4",
    level="model_checking",
    text="AssumeValid states the script-skip decision of ConnectBlock twice: in the code's order (assumed-valid hash set / in the block index / "
         "GetAncestor comparisons with the assumed-valid block and the best header / minimum chain work / proof-equivalent time <= two weeks) and as "
         "the property reads (ancestor-or-equal of the assumed-valid block, on the best header chain, best header work >= minimum chain work, more "
         "than 2016 blocks of work on top). TLC proves both equal on every row of the table: position of a block with a failing-script spend "
         "(below / at / above the assumed-valid block, on a competing branch, on the assumed-valid chain while the best header is elsewhere, with a "
         "weaker competing branch, below the fork point of both) x distance to the best header (2016 / 2017 blocks) x minimum chain work (below / "
         "equal / above the best header's work) x assumed-valid (unset / set / unknown hash). For each row the harness builds the real header tree "
         "(~2100 blocks), configures a fresh node, feeds all headers, then the blocks up to the bad block, and requires that the bad block is "
         "accepted only where the conditions hold.",
    note="SAFE mode: a node that verifies scripts where skipping is allowed is counted (verified_where_skip_allowed), not reported. The bad block's "
         "reject reason must be the script failure; any other reason is a harness defect and reported as such.",
    technique="TLA+ decision table (procedural = declarative, TLC), every row replayed on a real node with real header trees",
)


def run(ctx):
    binary = ctx.build_adapter("assumevalid")
    cfg = "MC_quick.cfg" if ctx.tier == "quick" else "MC_thorough.cfg"
    r = ctx.tlc("AssumeValid", "AssumeValid", cfg)
    rows = [json.loads(l) for l in open(r.emit_path)]
    if len(rows) != r.distinct:
        raise vflib.InfraError("emitted %d rows for %d distinct states" % (len(rows), r.distinct))
    by_reason = collections.Counter(x["reason"] for x in rows)
    for reason in ("skip", "assumevalid=0", "assumevalid hash not in headers", "block height above assumevalid height", "block not in assumevalid chain",
                   "block not in best header chain", "best header chainwork below minimumchainwork", "block too recent relative to best header"):
        if not by_reason[reason]:
            raise vflib.InfraError("vacuity: no row with decision '%s'" % reason)
    # rows of one tree shape together (the harness caches the chains per process), skip rows first in every shard
    rows.sort(key=lambda x: (x["pos"], x["dist"], x["av"], x["mcw"]))
    res = ctx.run_harness(binary, "table", rows, nproc=min(vflib.free_cpus(), 7), timeout=2400)
    s = res["summary"]
    ctx.evaluations = int(s["tests"]); ctx.traces = ctx.evaluations
    ctx.nontrivial = set(vflib.digest(x) for x in rows if x["av"] == "set")
    ctx.extra["rows_per_decision"] = dict(by_reason)
    ctx.extra["node_accepted_bad_block"] = int(s.get("accepted", 0))
    ctx.extra["node_rejected_bad_block_for_script"] = int(s.get("rejected_for_script", 0))
    ctx.extra["diverged_conservative"] = int(s.get("verified_where_skip_allowed", 0))
    for x in [x for x in rows if x["skip"]][:1] + [x for x in rows if x["reason"] == "block too recent relative to best header"][:1] + \
             [x for x in rows if x["reason"] == "block not in best header chain"][:1]:
        ctx.sample(x)
    vflib.report_mismatches(ctx, binary, "table", res, adapter="assumevalid", what_prefix="AssumeValid: ",
                            key_fn=lambda m, case: "row:" + vflib.digest([m.get("action", {}).get(k) for k in ("pos", "dist", "mcw", "av")]))
    ctx.assumptions += ["regtest: every block has proof 2 and 10-minute target spacing, so two weeks of work = 2016 blocks; the bad block is at height 102",
                        "all headers are known before the blocks are delivered; blocks above the bad block are never delivered"]
    return ctx.finish(level="model_checking", exhaustive=True,
                      rule="every row of the decision table (position x distance x minimum chain work x assumed-valid setting); non-trivial = rows with an assumed-valid block that is in the index")
