"""Shared glue of C12 and C11: TLC runs on specs/Script (the reference interpreter is the oracle), row replay through harness/adapters/script.cpp."""
import collections, hashlib, os, re
import vflib

# What the TLA+ reference interpreter (specs/Script/Script.tla) contains. Written into the evidence file of every run.
MODELLED = dict(
    opcodes=("OP_0, direct pushes 1-75, OP_PUSHDATA1/2/4, OP_1NEGATE, OP_1..OP_16, OP_NOP, OP_IF, OP_NOTIF, OP_VERIF, OP_VERNOTIF, OP_ELSE, OP_ENDIF, OP_VERIFY, "
             "OP_RETURN, OP_TOALTSTACK, OP_FROMALTSTACK, OP_2DROP, OP_2DUP, OP_3DUP, OP_2OVER, OP_2ROT, OP_2SWAP, OP_IFDUP, OP_DEPTH, OP_DROP, OP_DUP, OP_NIP, OP_OVER, "
             "OP_PICK, OP_ROLL, OP_ROT, OP_SWAP, OP_TUCK, OP_SIZE, OP_EQUAL, OP_EQUALVERIFY, OP_1ADD, OP_1SUB, OP_NEGATE, OP_ABS, OP_NOT, OP_0NOTEQUAL, OP_ADD, OP_SUB, "
             "OP_BOOLAND, OP_BOOLOR, OP_NUMEQUAL, OP_NUMEQUALVERIFY, OP_NUMNOTEQUAL, OP_LESSTHAN, OP_GREATERTHAN, OP_LESSTHANOREQUAL, OP_GREATERTHANOREQUAL, OP_MIN, OP_MAX, "
             "OP_WITHIN, OP_RIPEMD160, OP_SHA1, OP_SHA256, OP_HASH160, OP_HASH256, OP_CODESEPARATOR, OP_CHECKSIG, OP_CHECKSIGVERIFY, OP_CHECKMULTISIG, "
             "OP_CHECKMULTISIGVERIFY, OP_NOP1, OP_CHECKLOCKTIMEVERIFY, OP_CHECKSEQUENCEVERIFY, OP_NOP4..OP_NOP10, OP_CHECKSIGADD, the 15 disabled opcodes, "
             "OP_RESERVED, OP_VER, OP_RESERVED1/2, every undefined opcode byte 0xbb-0xff, OP_SUCCESSx (tapscript)").split(", "),
    rules=["CScript::GetOp incl. truncated pushes", "CScriptNum decode/encode in sign-magnitude limbs, 4-byte operand limit (5 for CLTV/CSV), minimal encoding",
           "CastToBool incl. negative zero", "MINIMALDATA (push opcodes and numbers)", "MINIMALIF (witness v0 policy, tapscript consensus)",
           "op count 201 incl. non-executed branches and CHECKMULTISIG key count", "stack+altstack 1000", "element 520", "script size 10000",
           "disabled opcodes in non-executed branches", "DISCOURAGE_UPGRADABLE_NOPS", "CLTV/CSV incl. CheckLockTime/CheckSequence of the transaction checker",
           "hash opcodes as injective constructors (HASH160 = RIPEMD160 o SHA256, HASH256 = SHA256 o SHA256)",
           "abstract SigOK(sig, key) instantiated by real ECDSA/Schnorr signatures", "signature encodings DERSIG / LOW_S / STRICTENC hash type",
           "public key encodings STRICTENC / WITNESS_PUBKEYTYPE", "NULLFAIL", "NULLDUMMY", "CHECKMULTISIG matching order", "FindAndDelete hit => CONST_SCRIPTCODE",
           "SIGPUSHONLY", "P2SH", "CLEANSTACK", "witness v0 P2WPKH/P2WSH native and P2SH-nested, malleation, mismatch, unexpected witness, wrong program length",
           "unknown witness programs / pay-to-anchor", "taproot key path, annex, control block size, commitment, leaf versions, tapscript, OP_SUCCESS pre-scan, "
           "CHECKSIGADD, validation weight budget, unknown public key types",
           "OP_CODESEPARATOR: legacy/BIP143 script code from the last executed separator (legacy hashing drops separators); tapscript opcode position "
           "counting every decoded instruction incl. non-executed branches, bound by real Schnorr signatures over every candidate position"],
)

INFRA_MARKERS = ("vector encoding", "unknown flag", "sign failed", "symbolic block decoded", "decompress failed", "tap tweak failed")


def tlc_env(tier):
    # deep recursion of the interpreter loop (1000 stack items, 10000-byte scripts) needs a large Java thread stack
    # (few GC threads, more JIT compiler threads: short runs on a loaded machine are dominated by JVM warm-up)
    return {"SCRIPT_TIER": tier, "JAVA_TOOL_OPTIONS": "-Xss128m -XX:ParallelGCThreads=2 -XX:CICompilerCount=4"}


def run_rows(ctx, cfg, module="ScriptMC", name=None, timeout=3000, xmx="12g"):
    r = ctx.tlc("Script", module, cfg, name=name, env=tlc_env(ctx.tier), timeout=timeout, xmx=xmx)
    if r.emitted == 0:
        raise vflib.InfraError("TLC emitted no rows for %s" % cfg)
    return r


def scan_rows(path, by_group, by_err, nontrivial):
    """One pass over the emitted rows (regular expressions, no JSON parsing): histograms and distinct non-trivial rows."""
    rg = re.compile(r'"g":"(\w+)"'); re_err = re.compile(r'"err":"(\w*)"'); ra = re.compile(r'"a":\[([^\]]*)\]'); rb = re.compile(r'"b":\[([^\]]*)\]')
    n = 0
    with open(path) as f:
        for l in f:
            n += 1
            g = rg.search(l); e = re_err.search(l)
            by_group[g.group(1) if g else "?"] += 1
            by_err[e.group(1) if e else "?"] += 1
            ma, mb = ra.search(l), rb.search(l)
            na = (ma.group(1).count(",") + 1) if ma and ma.group(1) else 0
            nb = (mb.group(1).count(",") + 1) if mb and mb.group(1) else 0
            # non-trivial: the scripts of the row hold at least two bytes
            if na + nb >= 2:
                nontrivial.add(int.from_bytes(hashlib.blake2b(l.encode(), digest_size=8).digest(), "big"))
    return n


def replay(ctx, binary, mode, path, name, what_prefix):
    res = ctx.run_harness(binary, mode, path, name=name)
    for m in res["mismatches"]:
        if any(k in (m.get("why") or "") for k in INFRA_MARKERS):
            raise vflib.InfraError("adapter could not concretise a row (%s): %s" % (m.get("why"), str(m.get("action"))[:400]))
    vflib.report_mismatches(ctx, binary, mode, res, adapter="script", what_prefix=what_prefix,
                            key_fn=lambda m, case: "row:" + vflib.digest([m.get("action"), (m.get("why") or "")[:60]]))
    summ = res["summary"]
    res["lines"] = None
    return summ
