"""Shared driver for the BlockTree specification (C08, C58): TLC model checking, exhaustive graph replay on a real node via a
path cover, and the INV-mode verdict rule: a deviation from the deterministic prediction is a violation only if TLC finds one
of the property's invariants / postconditions false on the *observed* state (module BlockTreeObs)."""
import collections, json, os, re
import vflib


def world_of(case, upto):
    """world after the first `upto` steps of the case (mine actions extend it)"""
    w0 = case["init"]["world"]
    # TLC prints a function over 0..MaxBlocks as an object with keys "0", "1", ...: turn it into lists (index = block id)
    tolist = lambda f: [f[str(i)] for i in range(len(f))] if isinstance(f, dict) else list(f)
    w = dict(n=w0["n"], parent=tolist(w0["parent"]), kind=tolist(w0["kind"]), span=tolist(w0["span"]))
    for s in case["steps"][:upto]:
        a = s["a"]
        if a[0] == "mine":
            w["n"] += 1
            i = w["n"]
            w["parent"][i] = a[1]; w["kind"][i] = a[2]; w["span"][i] = a[3]
    return w


def anc(parent, b):
    out = set()
    while b != 0:
        out.add(b); b = parent[b]
    return out


def manual_inv(case, upto):
    """ghost variable minv of BlockTree after the first `upto` steps (see Invalidate / Reconsider in the specification)"""
    w = world_of(case, upto)
    inv = set()
    for i, s in enumerate(case["steps"][:upto]):
        a = s["a"]
        if a[0] == "invalidate":
            inv.add(a[1])
        elif a[0] == "reconsider":
            pre = case["steps"][i - 1]["exp"]["obs"] if i > 0 else case["init"]["obs"]
            rel = lambda x: x in anc(w["parent"], a[1]) or a[1] in anc(w["parent"], x)
            lifted = {x for x in inv if rel(x)}
            kept = {y for y in pre["hdr"] if y in pre["failed"] and not rel(y) and any(x in anc(w["parent"], y) for x in lifted)}
            inv = (inv - lifted) | kept
    return sorted(inv)


def check_deviations(ctx, res, obs_cfg, relevant):
    devs = res["deviations"]
    ctx.extra["deviations_from_prediction"] = ctx.extra.get("deviations_from_prediction", 0) + int(res["summary"].get("deviations", 0))
    if not devs:
        return
    lines = {}
    for d in devs:
        case = json.loads(res["lines"][d["index"]])
        k = d["step"]
        pre = case["steps"][k - 1]["exp"]["obs"] if k > 0 else case["init"]["obs"]
        line = dict(world=world_of(case, k + 1), pre=pre, act=d["action"], post=d["state"]["obs"], inv=manual_inv(case, k), postinv=manual_inv(case, k + 1))
        lines.setdefault(vflib.canon(line), (line, d, case))
    keys = list(lines)
    bad = 0
    for i, inv in vflib.judge(ctx, "BlockTree", "BlockTreeObs", obs_cfg, [lines[k][0] for k in keys], invariants=sorted(relevant)):
        line, d, case = lines[keys[i]]
        ctx.violation("obs:%s:%s" % (inv, vflib.digest([d["action"], line["post"]])),
                      "node state after %s breaks %s: observed %s (prediction differed: %s)" % (
                          vflib.canon(d["action"]), inv, vflib.canon(line["post"]), d["why"]),
                      dict(adapter="blocktree", mode="replay", args=res.get("args", []), case=case, mismatch=d, invariant=inv))
        bad += 1
    ctx.extra["benign_deviation_states"] = ctx.extra.get("benign_deviation_states", 0) + len(keys) - bad


def replay_graph(ctx, binary, e1_cfg, obs_cfg, minwork, relevant, nontrivial_actions):
    r = ctx.tlc("BlockTree", "BlockTree", e1_cfg, name=e1_cfg[:-4])
    g = vflib.Graph(vflib.load_emitted(r.emit_path))
    per_action = collections.Counter()
    for kf, outs in g.out.items():
        for a, _, _ in outs:
            per_action[a[0]] += 1
    paths = []
    for p in g.path_cover():
        for s in p["steps"]:
            s["exp"] = {"obs": s["exp"]["obs"]}
        paths.append(p)
        acts = [s["a"][0] for s in p["steps"]]
        if any(a in nontrivial_actions for a in acts):
            ctx.nontrivial.add(vflib.digest([s["a"] for s in p["steps"]]))
    ctx.log("E1 %s: %d states, %d transitions -> %d paths, %d steps" % (e1_cfg, len(g.nodes), g.nedges, len(paths), sum(len(p["steps"]) for p in paths)))
    cap = int(os.environ.get("VERIF_MAX_PATHS", "24000" if ctx.tier == "thorough" else "1000000000"))
    if len(paths) > cap:
        import random
        keep = sorted(random.Random(ctx.seed).sample(range(len(paths)), cap))
        ctx.extra.setdefault("replay_sampled", {})[e1_cfg] = dict(paths_in_cover=len(paths), paths_replayed=cap)
        ctx.assumptions.append("%s: %d of the %d paths of the transition cover replayed (seeded sample)" % (e1_cfg, cap, len(paths)))
        paths = [paths[i] for i in keep]
    mid = paths[len(paths) // 2]
    ctx.sample(dict(actions=[s["a"] for s in mid["steps"]], expected_final=mid["steps"][-1]["exp"]["obs"]))
    res = ctx.run_harness(binary, "replay", paths, args=[minwork], name=e1_cfg[:-4])
    res["args"] = [minwork]
    ctx.evaluations += int(res["summary"]["tests"]); ctx.traces += int(res["summary"]["tests"])
    ctx.extra["replayed_steps"] = ctx.extra.get("replayed_steps", 0) + int(res["summary"]["steps"])
    ctx.extra["model_transitions_covered"] = ctx.extra.get("model_transitions_covered", 0) + g.nedges
    vflib.report_mismatches(ctx, binary, "replay", res, args=[minwork], adapter="blocktree", what_prefix="BlockTree %s: " % e1_cfg)
    check_deviations(ctx, res, obs_cfg, relevant)
    return per_action
