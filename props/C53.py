"""C53 — soft-fork deployment states follow BIP9 (specs/VersionBits, engine E1 on enumerated and on sampled block trees)."""
import collections, json, os, random, re
import vflib

META = dict(
    engine="E1",
    level="model_checking",
    text="The TLA+ specification VersionBits carries both the declarative BIP9 recursion (state of a block from its parent's, "
         "LOCKED_IN before FAILED, minimum activation height, ALWAYS_ACTIVE / NEVER_ACTIVE) and the cached computation exactly as "
         "GetStateFor / GetStateSinceHeightFor do it (walk back to a cached or pre-start ancestor, then forward) over a tree of block "
         "index entries with arbitrary versions and timestamps. TLC proves on the bounded model that the cached computation equals BIP9 "
         "from every reachable cache and from a fresh one (query order / warmness), that all blocks of a period share a state, that "
         "ACTIVE / FAILED are absorbing and only the BIP9 transitions occur at period boundaries. Every transition of the state graph "
         "(Mine, GetStateFor, GetStateSinceHeightFor, GetStateStatisticsFor in every cache state) is replayed on the real "
         "VersionBitsConditionChecker over synthetic CBlockIndex trees with one persistent ThresholdConditionCache; after every step "
         "every block is asked again with a fresh cache and VersionBitsCache::IsActiveAfter is asked alongside. Model times are offsets "
         "(TLC proves the states invariant under a common shift); every test is replayed with the epoch today, straddling 2^31, "
         "beyond 2^31 and with the largest block time at 2^32 - 1.",
    note="Bounded: periods of 1-3 blocks, up to 14 blocks, one fork, 2-6 timestamp values; exhaustive over block contents for <= 6 blocks, "
         "larger trees are sampled from VERIF_SEED (all query orders on each). Assumes the median time past does not decrease along a "
         "chain (consensus rule time-too-old); without it the code's pre-start shortcut returns DEFINED after STARTED (recorded in the evidence as mtp_assumption_probe).",
    technique="TLA+ spec VersionBits (declarative BIP9 = cached procedure, proved by TLC) + graph replay of every transition on the real checker",
)

ACTIONS = ("mine", "state", "since", "stats")
STATES = ("defined", "started", "locked_in", "active", "failed")


def epochs_for(cfg):
    """Model time t is realised as E + 600 * t. Epochs: today; t = 1 (and the middle of the time domain) exactly at 2^31;
    t = 1 at 2^31 - 1; everything beyond 2^31; the largest block time exactly 2^32 - 1 (start / timeout above it need 33 bits)."""
    tmax = max(cfg_constants(cfg)["Times"])
    e = [1500000000, 2 ** 31 - 600, 2 ** 31 - 600 * max(1, (tmax + 1) // 2), 2 ** 31 - 601, 2 ** 31 + 12345, 2 ** 32 - 1 - 600 * tmax]
    out = []
    for x in e:
        if x not in out:
            out.append(x)
    return out


def stream(path):
    with open(path) as f:
        for ln in f:
            yield json.loads(ln)


def cfg_constants(cfg):
    """The finite domains of a cfg file (glue: the sampled trees must lie inside the model the cfg bounds)."""
    txt = open(os.path.join(vflib.SPECS, "VersionBits", cfg)).read()
    out = {}
    for m in re.finditer(r"^\s*(\w+) = (.+)$", txt, re.M):
        k, v = m.group(1), m.group(2).strip()
        if v.startswith("{"):
            out[k] = [json.loads(x) for x in re.findall(r'"[^"]*"|-?\d+', v)]
        elif re.fullmatch(r"-?\d+", v):
            out[k] = int(v)
        else:
            out[k] = v.strip('"')
    return out


def mtp_ok(par, tm):
    """Pre-filter only (the specification decides admissibility again): median time past never decreases along a chain."""
    mtp = []
    for b in range(1, len(par) + 1):
        w, x = [], b
        while x and len(w) < 11:
            w.append(tm[x - 1]); x = par[x - 1]
        w.sort()
        mtp.append(w[len(w) // 2])
        if par[b - 1] and mtp[b - 1] < mtp[par[b - 1] - 1]:
            return False
    return True


def sample_trees(rng, c, n):
    """n random block trees (one fork) with deployment parameters inside the cfg's domains."""
    P, maxb = c["P"], c["MaxBlocks"]
    sig = [v for v in c["Versions"] if v in ("sig", "sigx")]
    nosig = [v for v in c["Versions"] if v not in ("sig", "sigx")]
    out = []
    while len(out) < n:
        special = rng.random() < 0.06
        dep = dict(period=P, threshold=rng.choice(c["Thresholds"]),
                   start=rng.choice([-1, -2]) if special else rng.choice(c["Starts"]),
                   timeout=rng.choice(c["Timeouts"]), minh=rng.choice(c["MinHeights"]))
        if special:
            dep.update(threshold=min(c["Thresholds"]), timeout=min(c["Timeouts"]), minh=min(c["MinHeights"]))
        N = rng.randint(max(2, maxb - 2 * P), maxb)
        par = list(range(N))                      # par[b-1] = b-1: a single chain
        if rng.random() < 0.7 and N >= 2 * P + 2:
            side = rng.randint(1, min(2 * P, N - P - 2))
            main = N - side
            fp = rng.randint(max(1, main - 2 * P), main - 1)
            par = list(range(main)) + [fp] + list(range(main + 1, N))
        psig = rng.choice([0.35, 0.6, 0.85])
        ver = [rng.choice(sig) if rng.random() < psig else rng.choice(nosig) for _ in range(N)]
        tmax = max(c["Times"])
        for _ in range(20):
            tm, lvl = [], rng.choice([0, 0, 1])
            for b in range(1, N + 1):
                base = tm[par[b - 1] - 1] if par[b - 1] else lvl
                base = max(base, lvl) if par[b - 1] == b - 1 else base
                t = min(tmax, base + rng.choice([0, 0, 0, 1, 1, 2]))
                lvl = max(lvl, t) if par[b - 1] == b - 1 else lvl
                if rng.random() < 0.25:
                    t = rng.randint(0, t)        # a timestamp behind its parent's
                tm.append(t)
            if mtp_ok(par, tm):
                break
        else:
            continue
        out.append(dict(dep=dep, par=par, ver=ver, tm=tm))
    return out


def strip_cache(test):
    t = dict(init=test["init"], steps=[])
    for s in test["steps"]:
        e = {k: v for k, v in s["exp"].items() if k != "cache"}
        t["steps"].append(dict(a=s["a"], r=s["r"], exp=e))
    return t


def state_cfg(ctx, cfg, name):
    """cfg that evaluates the invariants about a cache content on given states (same constants as `cfg`)."""
    txt = open(os.path.join(vflib.SPECS, "VersionBits", cfg)).read()
    keep = txt[:txt.index("INIT")]
    keep = re.sub(r"MaxBlocks = \d+", "MaxBlocks = 16", keep)
    path = os.path.join(ctx.work, name + ".cfg")
    with open(path, "w") as f:
        f.write(keep + "INIT InitSeeded\nNEXT Stutter\nINVARIANTS CacheSound WarmIsBip9\nCHECK_DEADLOCK FALSE\n")
    return path


def check_deviations(ctx, res, cfg, name):
    """The implementation's cache content differs from the model's although every answer agreed. C53 does not say what is
    cached: that is a violation only if the observed cache breaks an invariant the answers depend on (an entry that is not
    the BIP9 state of its block, an answer from that cache that is not BIP9): TLC evaluates them on the observed states."""
    ctx.extra["cache_deviations"] = ctx.extra.get("cache_deviations", 0) + int(res["summary"].get("deviations", 0))
    states = {}
    for d in res["deviations"]:
        st = d["state"]
        line = dict(dep=st["dep"], par=st["par"], ver=st["ver"], tm=st["tm"], cache=st["cache"])
        states.setdefault(vflib.canon(line), (line, d))
    keys = list(states)[:4000]
    if not keys:
        return
    cfgp = state_cfg(ctx, cfg, name + "-state")
    path = os.path.join(ctx.work, name + ".deviation_states.ndjson")
    bad = 0
    remaining = keys
    for _ in range(5):
        if not remaining:
            break
        with open(path, "w") as f:
            for k in remaining:
                f.write(json.dumps(states[k][0]) + "\n")
        r = ctx.tlc("VersionBits", "VersionBitsSeeded", cfgp, name=name + "-devstate", env={"SEEDS": path}, expect_violation=True,
                    workers=1, emit=False)
        if r.error:
            raise vflib.InfraError(r.error)
        if not r.violated:
            break
        m = re.search(r'lastAct = <<"seed", (\d+)>>', open(r.log_path).read())
        i = int(m.group(1)) - 1 if m else 0
        line, d = states[remaining[i]]
        case = json.loads(res["lines"][d["index"]])
        ctx.violation("deviation:%s:%s" % (r.violated, vflib.digest(line)),
                      "cache of the implementation after %s breaks invariant %s of VersionBits (cache differs from the model: %s)" % (
                          vflib.canon(d["action"]), r.violated, d["why"]),
                      dict(adapter="versionbits", mode="replay", args=[], case=case, mismatch=d, invariant=r.violated))
        bad += 1
        remaining = remaining[:i] + remaining[i + 1:]
    ctx.extra["benign_cache_deviation_states"] = ctx.extra.get("benign_cache_deviation_states", 0) + len(keys) - bad


class Tally:
    def __init__(self):
        self.per_action = collections.Counter(); self.states_seen = collections.Counter(); self.flags = collections.Counter()

    def edge(self, e):
        a, r, f = e["a"], e.get("r"), e["f"]
        self.per_action[a[0]] += 1
        if a[0] == "state":
            self.states_seen[r["state"]] += 1
            if any(x != "-" for x in f["cache"]):
                self.flags["warm_state_query"] += 1
        elif a[0] == "since":
            self.flags["since_positive" if r > 0 else "since_zero"] += 1
            if any(x != "-" for x in f["cache"]):
                self.flags["warm_since_query"] += 1
        elif a[0] == "stats":
            self.flags["stats_possible" if r["possible"] else "stats_impossible"] += 1
        elif a[0] == "mine" and a[1] != len(f["par"]):
            self.flags["fork"] += 1
        if a[0] != "mine" and any(p != i for i, p in enumerate(f["par"])):
            self.flags["fork"] += 1


def replay_graph(ctx, binary, r, cfg, name, tally, max_len=80):
    def edges():
        for e in stream(r.emit_path):
            tally.edge(e)
            yield e
    g = vflib.Graph(edges())
    if g.nedges != r.emitted:
        ctx.log("note: %d emitted lines, %d distinct transitions" % (r.emitted, g.nedges))
    tests = list(g.path_cover(max_len=max_len))
    nsteps = sum(len(t["steps"]) for t in tests)
    for kf, outs in g.out.items():
        warm = any(x != "-" for x in g.nodes[kf]["cache"])
        for a, _r, kt in outs:
            if a[0] in ("state", "since") and (warm or kf != kt):
                ctx.nontrivial.add(vflib.digest([kf, a]))
    t = tests[len(tests) // 2]
    ctx.sample(dict(init=t["init"], actions=[s["a"] for s in t["steps"][:12]], predicted=[s["r"] for s in t["steps"][:12]]))
    ctx.log("E1 %s: %d states, %d transitions -> %d paths, %d steps" % (name, len(g.nodes), g.nedges, len(tests), nsteps))
    epochs = epochs_for(cfg)
    ctx.extra.setdefault("epochs", {})[name] = epochs
    res = ctx.run_harness(binary, "replay", tests, name=name, args=epochs)
    ctx.evaluations += int(res["summary"]["steps"]); ctx.traces += int(res["summary"]["tests"])
    ctx.extra["replayed_steps"] = ctx.extra.get("replayed_steps", 0) + int(res["summary"]["steps"])
    vflib.report_mismatches(ctx, binary, "replay", res, args=epochs, adapter="versionbits", what_prefix="VersionBits %s: " % name)
    if res["summary"].get("deviations"):
        check_deviations(ctx, res, cfg, name)
        # a deviation ends the comparison of its path: replay once more without the internal key
        res2 = ctx.run_harness(binary, "replay", [strip_cache(t) for t in tests], name=name + "-nocache", args=epochs)
        ctx.evaluations += int(res2["summary"]["steps"])
        vflib.report_mismatches(ctx, binary, "replay", res2, args=epochs, adapter="versionbits", what_prefix="VersionBits %s (answers only): " % name)
    return g


def mtp_assumption_probe(ctx, binary):
    """Why the model assumes a non-decreasing median time past: without it TLC finds a chain on which the cached computation
    is not BIP9 (the pre-start shortcut answers DEFINED for a block whose period chain already STARTED). The counterexample
    is replayed to show that the model is faithful there too (the code gives the shortcut's answer). Such a chain cannot
    pass the header check (time-too-old), so this is recorded as the reason for the assumption, not reported as a violation."""
    r = ctx.tlc("VersionBits", "VersionBits", "Probe_nomono.cfg", name="probe-nomono", expect_violation=True, emit=False, workers=1)
    out = dict(tlc_violated=r.violated)
    if r.violated:
        txt = open(r.log_path).read()
        last = txt[txt.rindex("State "):]

        def seq(name):
            m = re.search(r"/\\ %s = (<<.*?>>)\n" % name, last)
            return json.loads(m.group(1).replace("<<", "[").replace(">>", "]")) if m else None
        par, ver, tm, st = seq("par"), seq("ver"), seq("tm"), seq("st")
        dm = re.search(r"/\\ dep = \[(.*?)\]\n", last)
        if par and st and dm:
            dep = {k: int(v) for k, v in re.findall(r"(\w+) \|-> (-?\d+)", dm.group(1))}
            dep["period"] = cfg_constants("Probe_nomono.cfg")["P"]
            n = len(par)
            case = dict(init=dict(dep=dep, par=par, ver=ver, tm=tm),
                        steps=[dict(a=["state", n], r=dict(state=st[n]), exp=None)])
            res = ctx.run_harness(binary, "replay", [case], nproc=1, name="probe-nomono")
            mm = res["mismatches"]
            out.update(chain=case["init"], bip9_state_after_newest_block=st[n],
                       code_differs_from_bip9=bool(mm), code_answer=(mm[0]["why"] if mm else "as BIP9"))
    ctx.extra["mtp_assumption_probe"] = out
    if not r.violated:
        raise vflib.InfraError("the probe without the median-time assumption found no counterexample: the assumption may be unnecessary, revisit the model")


def run(ctx):
    binary = ctx.build_adapter("versionbits")
    rng = random.Random(1000003 * ctx.seed + 53)
    tally = Tally()
    quick = ctx.tier == "quick"
    # (cfg, what) — exhaustive over block contents
    enumerated = [("E1_p2n4.cfg", "every interleaving of Mine and queries, P=2, 4 blocks"),
                  ("E1_cold_p2n6.cfg", "every chain of 6 blocks, P=2, cold answers")]
    if not quick:
        enumerated += [("E1_p1n4.cfg", "every interleaving, P=1, 4 blocks"),
                       ("E1_p2n5f.cfg", "every interleaving with one fork, P=2, 5 blocks"),
                       ("E1_p3n6.cfg", "every interleaving, P=3, 6 blocks"),
                       ("E1_p2n6.cfg", "every interleaving, P=2, 6 blocks (reaches ACTIVE at the minimum activation height)"),
                       ("E1_cold_p3n7.cfg", "every chain of 7 blocks, P=3, cold answers")]
    def stop():
        # a violation is a verdict: the remaining (larger) models would only repeat it
        if ctx.violations:
            ctx.log("violation found: skipping the remaining models")
            ctx.extra["stopped_after_first_violation"] = True
            return True
        return False
    for cfg, what in enumerated:
        r = ctx.tlc("VersionBits", "VersionBits", cfg, name=cfg[:-4])
        replay_graph(ctx, binary, r, cfg, cfg[:-4], tally)
        if stop():
            return ctx.finish(level="model_checking", exhaustive=False, rule="stopped at the first model with a violation")
    # sampled trees, every query order on each
    ntrees = 150 if quick else 1500
    for cfg in ("Seeded_p2.cfg", "Seeded_p3.cfg"):
        c = cfg_constants(cfg)
        trees = sample_trees(rng, c, ntrees)
        path = os.path.join(ctx.work, cfg[:-4] + ".seeds.ndjson")
        with open(path, "w") as f:
            for t in trees:
                f.write(json.dumps(t) + "\n")
        r = ctx.tlc("VersionBits", "VersionBitsSeeded", cfg, name=cfg[:-4], env={"SEEDS": path})
        g = replay_graph(ctx, binary, r, cfg, cfg[:-4], tally)
        admitted = len(g.inits)
        ctx.extra.setdefault("sampled_trees", {})[cfg] = dict(offered=len(trees), admitted=admitted)
        if admitted < len(trees) // 2:
            raise vflib.InfraError("vacuity: only %d of %d sampled trees admitted by %s" % (admitted, len(trees), cfg))
        if stop():
            return ctx.finish(level="model_checking", exhaustive=False, rule="stopped at the first model with a violation")
    mtp_assumption_probe(ctx, binary)
    # vacuity guards
    missing = [a for a in ACTIONS if not tally.per_action[a]] + [s for s in STATES if not tally.states_seen[s]] + \
              [k for k in ("warm_state_query", "warm_since_query", "since_positive", "since_zero", "stats_possible", "stats_impossible", "fork")
               if not tally.flags[k]]
    if missing:
        raise vflib.InfraError("vacuity: never exercised in the explored models: %s" % missing)
    ctx.extra["transitions_per_action"] = dict(tally.per_action)
    ctx.extra["state_answers"] = dict(tally.states_seen)
    ctx.extra["coverage_flags"] = dict(tally.flags)
    ctx.assumptions += [
        "the median time past does not decrease along a chain (consensus rule time-too-old); the statement's 'arbitrary timestamps' is read "
        "within that rule — without it GetStateFor's pre-start shortcut answers DEFINED for blocks whose chain already STARTED (see mtp_assumption_probe)",
        "bounded model: periods of 1-3 blocks, thresholds 1..period, up to 14 blocks, one fork; block contents exhaustive up to 6 blocks "
        "(2 timestamp values), larger trees sampled from VERIF_SEED with every query order explored on each",
        "GetStateStatisticsFor is compared where BIP9 reports statistics (block in a STARTED or LOCKED_IN period); it cannot see the cache, "
        "so it is explored from the empty cache only",
        "model times are offsets realised as epoch + 600 s * t; each replay uses the epochs listed under coverage.epochs (today, t=1 at 2^31 and at "
        "2^31 - 1, the middle of the time domain at 2^31, everything beyond 2^31, largest block time = 2^32 - 1 with start / timeout above 32 bits)",
        "block versions are six classes (signalling with and without other bits, not signalling, neighbouring bits, wrong top bits, pre-versionbits number)"]
    return ctx.finish(level="model_checking", exhaustive=True,
                      rule="every transition of the bounded VersionBits state graphs (block trees enumerated up to 6 blocks; sampled trees of up to 14 blocks "
                           "with one fork, all query orders) replayed along covering paths; non-trivial = distinct (state, query) pairs where "
                           "GetStateFor / GetStateSinceHeightFor is answered from a warm cache or fills the cache")
