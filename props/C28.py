"""C28 — test-accept is faithful and side-effect free; policy implies consensus (specs/Mempool, engine E1 on a real node)."""
import os, sys
sys.path.insert(0, os.path.dirname(os.path.abspath(__file__)))
import vflib, _mempool

META = dict(
    engine="E1",
    level="model_checking",
    text="Mempool.TestAccept(tx) leaves every variable unchanged and returns the verdict Submit(tx) computes from the same state; the only answer a "
         "real submission can add is 'mempool full' (LimitMempoolSize runs after the acceptance). Script classes: key / anyone-can-spend (valid), "
         "always-failing, and NOP4 (valid for a block, rejected by the standard flags); standard-valid-but-consensus-invalid does not exist in the "
         "model, so a node that reports it deviates. From every reachable state of the rbf and chain scenarios (replacements around every threshold, "
         "timelocks, maturity, missing inputs, confirmed transactions, policy-only script failures) every transaction is test-accepted and submitted "
         "on a real node through ProcessTransaction: the test-accept must return the predicted verdict and leave txids, fees, prioritisation, links, "
         "totals, mempool sequence number and update counter unchanged, and the submission must return the same verdict.",
    note="EXACT for verdict equality and side-effect freedom. Where the node's verdict differs from the model's, the node is asked for both verdicts "
         "from that state (test-accept then submit): only a disagreement between the two, or a state change by the test-accept, is a violation - a "
         "rule change that affects both alike is another property's business. KNOWN FINDING (key testaccept-ignores-expiry-of-ancestor): with an "
         "in-pool ancestor past -mempoolexpiry, test-accept answers ok while the submission answers 'mempool full' (LimitMempoolSize expires the "
         "ancestor and the new transaction goes with it) although the pool is far from its limit. The model reproduces the node here (so the "
         "model, too, violates C28 as stated: Mempool!TestAcceptFaithfulAsStated); every such transition of the bounded model is confirmed on the "
         "node by asking it for both verdicts from that state and reported under that one key. Only a really full pool is exempt.",
    technique="TLA+ spec Mempool + TLC exhaustive; path cover replayed on a real node; verdict twins re-asked on the node on deviation",
)


def replay(ctx, path):
    return _mempool.replay(ctx, path)


def run(ctx):
    binary = ctx.build_adapter("mempool")
    nontrivial = lambda p: any(s["a"][0] == "test" for s in p["steps"])
    if ctx.tier == "quick":
        plan = [("rbf", "MC_rbf_c28q.cfg", "MU_std.cfg"), ("chain", "MC_chain_c28q.cfg", "MU_std.cfg"), ("chain", "MC_chain_exp_q.cfg", "MU_std.cfg")]
    else:
        plan = [("rbf", "MC_rbf_t.cfg", "MU_std.cfg"), ("rbf", "MC_rbf0_q.cfg", "MU_incr0.cfg"), ("chain", "MC_chain_c28t.cfg", "MU_std.cfg"), ("chain", "MC_chain_exp_t.cfg", "MU_std.cfg")]
    per = {}
    for uni, cfg, mu in plan:
        st = _mempool.run_scenario(ctx, binary, "C28", uni, cfg, mu, nontrivial=nontrivial)
        for k, v in st["per"].items():
            per[k] = per.get(k, 0) + v
        # C28 as stated exempts only a full mempool: submissions the model turns into "mempool full" without any trim are put to the node
        _mempool.confirm_expiry_finding(ctx, binary, st)
    _mempool.need(dict(per=per), [("test", w) for w in ("ok", "insufficient fee", "replacement-failed", "bad-txns-spends-conflicting-tx", "min relay fee not met",
                                                         "bad-txns-inputs-missingorspent", "txn-already-in-mempool", "txn-already-known", "non-final",
                                                         "non-BIP68-final", "bad-txns-premature-spend-of-coinbase", "script-failed")], "C28")
    for k in list(per):
        if k[0] == "test" and per.get(("submit", k[1]), 0) == 0:
            raise vflib.InfraError("vacuity: verdict %s is predicted for a test-accept but never for a submission" % k[1])
    ctx.assumptions += ["bounded scenarios (17- and 9-transaction universes); the mempool never reaches its size limit",
                        "the node runs with -acceptnonstdtxn=1; standardness (IsStandardTx) is not part of the verdicts compared"]
    return ctx.finish(level="model_checking", exhaustive=True,
                      rule="path cover of every transition of the bounded Mempool graphs with test-accept and submit of every transaction from every "
                           "reachable state; non-trivial = distinct paths containing at least one test-accept")
