"""C48 — serialization and text encodings round-trip and match the reference format (specs/Framing, engine E4)."""
import collections, json
import vflib

META = dict(
    engine="E4",
    level="model_checking",
    text="specs/Framing/Wire.tla is a byte-exact reference (de)serialiser written in TLA+ (CompactSize over exact 16-bit limbs with the three "
         "canonical-encoding checks and the MAX_SIZE range check, VARINT, vectors, BIP144 transaction framing statement by statement, block, "
         "header, inv, locator, getblocktxn with differential 16-bit indexes, cmpctblock, addr v1/v2). TLC enumerates every CompactSize length "
         "class x canonical/non-canonical x range_check x truncation, VARINT byte strings for 8/16/31-bit types, transaction shapes (0-2 inputs x "
         "witness absent/empty/present x both parameter sets x every flag byte class x trailing byte / truncation) and P2P payload variants, and "
         "proves the property's clauses on them: exactly the shortest in-range encodings are accepted, read(write(x)) = x, an extended "
         "transaction encoding is accepted iff flag = 1 and some witness stack is non-empty, txid commits to the no-witness and wtxid to the "
         "witness serialisation, truncated input is rejected, trailing bytes stay unread, and the empty-vin ambiguity is stated exactly (a "
         "transaction without inputs but with outputs does not survive TX_WITH_WITNESS). Every row is replayed on the real code: the bytes the "
         "model prescribes are deserialised (accept/reject, every decoded field, unread bytes), the real writers must produce exactly the "
         "model's bytes, and GetHash()/GetWitnessHash() must equal SHA256d of the model's byte strings. Decision tables of ParseMoney/"
         "FormatMoney, ToIntegral<T> at the range boundaries and DecodeBase58Check accept/reject classes are checked the same way.",
    note="Partly covered. Decided by the model: binary framing (above) and the accept/reject case analyses of ParseMoney/FormatMoney, "
         "ToIntegral and DecodeBase58Check (checksum / blanks / invalid character / length limit classes). NOT decided by a state model: the "
         "codec fidelity of the hex / base58 / base64 / base32 alphabets and bit packing (only plain encode-decode round trips of a few "
         "payloads and four malformed-input cases are run as a sanity check), LocaleIndependentAtoi, ParseFixedPoint, and every other P2P "
         "message / disk format not listed. addr rows are IPv4 only (BIP155 network classes belong to the NetAddr check). The 65535-transaction "
         "limit of cmpctblock and differential-index sums beyond three entries are not enumerated. The class of a failure (which exception "
         "text) is recorded but not judged, only accept/reject and values.",
    technique="TLA+ reference serialiser/deserialiser (byte-exact) + declarative clauses as TLC invariants; oracle table replayed on the real "
              "stream operators, writers and hash functions",
)

KINDS = ("cs", "varint", "tx", "p2p", "money", "fmtmoney", "int", "b58")


def run(ctx):
    binary = ctx.build_adapter("framing")
    cfg = "MC_quick.cfg" if ctx.tier == "quick" else "MC_thorough.cfg"
    r = ctx.tlc("Framing", "Framing", cfg)
    rows = [json.loads(l) for l in open(r.emit_path)]
    if len(rows) != r.distinct:
        raise vflib.InfraError("emitted %d rows for %d distinct states" % (len(rows), r.distinct))
    per = collections.Counter()
    for x in rows:
        k = x["kind"]
        if k in ("cs", "varint"):
            per[(k, x["st"])] += 1
        elif k == "tx":
            per[(k, x["src"], x["st"])] += 1
        elif k == "p2p":
            per[(k, x["obj"], "ok" if x["st"] == "ok" else "rejected")] += 1
        else:
            per[(k, "ok" if x["ok"] else "rejected")] += 1
    # vacuity guards: every table has accepting and rejecting rows, every failure class of the framing occurs
    need = [("cs", "ok"), ("cs", "noncanonical"), ("cs", "toolarge"), ("cs", "eof"), ("varint", "ok"), ("varint", "toolarge"), ("varint", "eof"),
            ("tx", "ser", "ok"), ("tx", "ser", "eof"), ("tx", "ext", "ok"), ("tx", "ext", "superfluous"), ("tx", "ext", "unknownflag")]
    for o in ("header", "block", "inv", "locator", "getblocktxn", "cmpctblock", "addr"):
        need += [("p2p", o, "ok"), ("p2p", o, "rejected")]
    for k in ("money", "fmtmoney", "int", "b58"):
        need += [(k, "ok"), (k, "rejected")]
    for n in need:
        if not per[n]:
            raise vflib.InfraError("vacuity: no row of class %s" % (n,))
    if not any(x["kind"] == "tx" and x["plain"] and x["txidpre"] != x["wtxidpre"] for x in rows):
        raise vflib.InfraError("vacuity: no transaction row whose wtxid preimage differs from the txid preimage")
    res = ctx.run_harness(binary, "table", rows)
    s = res["summary"]
    ctx.evaluations = int(s.get("evaluations", 0))
    ctx.traces = int(s["tests"])
    ctx.nontrivial = set(vflib.digest(x) for x in rows if x["kind"] in ("cs", "varint", "tx", "p2p") and len(x["bytes"]) > 1)
    ctx.extra["rows_per_class"] = {"/".join(k): v for k, v in sorted(per.items())}
    ctx.extra["rows_per_kind"] = {k: int(s.get("rows_" + k, 0)) for k in KINDS}
    ctx.extra["hash_checks"] = int(s.get("hash_checks", 0))
    ctx.extra["failure_class_differs"] = int(s.get("failure_class_differs", 0))
    ctx.extra["codec_round_trips_not_model_decided"] = int(s.get("codec_round_trips", 0))
    for k in KINDS:
        if not ctx.extra["rows_per_kind"][k]:
            raise vflib.InfraError("vacuity: the harness saw no row of kind " + k)
    if not ctx.extra["hash_checks"]:
        raise vflib.InfraError("vacuity: no txid / wtxid check was run")
    for kind in ("cs", "tx", "p2p", "money"):
        for x in rows:
            if x["kind"] == kind and (x.get("st", "ok") == "ok") and len(json.dumps(x)) < 900:
                ctx.sample(x); break
    vflib.report_mismatches(ctx, binary, "table", res, adapter="framing", what_prefix="Framing: ",
                            key_fn=lambda m, case: "row:" + vflib.digest(m.get("why")))
    ctx.assumptions += ["SHA256 as implemented is the reference hash (txid / wtxid are compared with SHA256d of the model's bytes computed by the same library)",
                        "values between the enumerated boundaries behave like their neighbours"]
    return ctx.finish(level="model_checking", exhaustive=True,
                      rule="every row of the enumerated tables (byte strings assembled by the TLA+ reference serialiser / character strings of the codec "
                           "tables); non-trivial = distinct binary rows longer than one byte")
