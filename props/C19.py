"""C19 — pruning never deletes data the node still needs (specs/Prune, engines E1 / E2 + INV-mode verdicts)."""
import collections, json, os
import vflib

META = dict(
    engine="E2",
    level="model_checking",
    text="The block-file layout (FindNextBlockPos / FindUndoPos / AddBlock), the prune section of FlushStateToDisk (prune locks and "
         "PRUNE_LOCK_BUFFER), GetPruneRange (MIN_BLOCKS_TO_KEEP), FindFilesToPruneManual, FindFilesToPrune (target, allocation buffer, IBD buffer), "
         "PruneOneBlockFile and DisconnectTip's moving back of prune locks are transcribed in TLA+ (specs/Prune). TLC proves the clauses of the property "
         "(no pruned file holds a block within 288 of the tip, at or above a prune lock, or inside the lock buffer as coded; automatic pruning ends under the "
         "target or with no eligible file) as action properties, exhaustively on a scaled-down model and on every simulated / directed behaviour with the real "
         "constants. Behaviours (macro steps: n blocks of an exact size class, reorgs, manual prune heights around every file and window boundary, lock heights "
         "around every file boundary plus buffer) are replayed on an in-process regtest node in prune mode with 64 KiB block files; file infos, files on disk, "
         "BLOCK_HAVE_DATA / HAVE_UNDO per file, prune locks and usage are compared after every step, and every prune event observed on the node is judged by "
         "TLC against the clauses of the property; blocks are also delivered out of height order (second of a pair before the first), and every file "
         "info (nHeightFirst..nHeightLast) must cover the blocks stored in its file. The assumeutxo clause has its own specification (PruneSnap: two "
         "block-file cursors per BlockfileTypeForHeight, snapshot chainstate pruning from base + 1, AddBlock as coded, out-of-order storage; exhaustive on a "
         "scaled-down model) whose scripted behaviours run on a real pruning node with an activated, unvalidated snapshot of height 110 (base block and "
         "historical blocks delivered, swapped pairs, manual prunes): no pruned file may hold a block the background chainstate has not validated. "
         "Thorough tier: automatic pruning with about 600 one-megabyte blocks (target 550 MiB).",
    note="On the snapshot node the block-file layout is observed, not predicted (INV-mode only), pruning is manual, and the halved automatic target with two "
         "chainstates is not exercised. Verdicts are "
         "SAFE-mode: a node that prunes less than the specification is a counted deviation, not a violation; violations are pruned files that break a clause "
         "on the observed state, an automatic prune that stops early, and a prune lock left higher than the specification moved it on a reorg. "
         "PruneAfterHeight (100 with -fastprune) is part of 'eligible'. Known finding (both clamps, genuine but confined to files that hold nothing above "
         "height 0 / 1, i.e. the test-only fast-prune geometry): max(0, tip - 288) lets a genesis-only file go while the chain is shorter than 288, "
         "and max(1, lock - 11) lets the files of genesis and block 1 go below a prune lock at height 0 or 1.",
    technique="TLA+ spec Prune, TLC exhaustive (scaled-down constants) + simulation and directed behaviours (real constants) replayed on a real pruning node; "
              "observed prune events judged by TLC (PruneObs)",
)

JOBS = int(os.environ.get("VERIF_JOBS", "0") or 0) or None
TLC_ENV = {"JAVA_TOOL_OPTIONS": "-Xss512m"}     # a macro step is a recursion of several hundred single-block steps
CLAUSES = {
    "ObsFileInfoCovers": "a block file's info (nHeightFirst..nHeightLast) does not cover a block stored in the file",
    "ObsKeepsRecentX": "a pruned file held a block within the last 288 blocks of the tip",
    "ObsKeepsLockedX": "a pruned file held a block at or above an active prune lock",
    "ObsKeepsBuffer": "a pruned file held a block inside the 10-block buffer below a prune lock",
    "ObsAutoPost": "automatic pruning stopped above the target although an eligible file was left",
    "ObsKeepsRecent": "a file holding only the genesis block was pruned while it was within the last 288 blocks of the tip (clamp max(0, tip - 288))",
    "ObsKeepsLocked": "a file holding nothing above height 1 was pruned at or above a prune lock at height 0 / 1 (clamp max(1, lock - 11))",
}
SNAP_CLAUSES = {
    "ObsSnapFileInfoCovers": "on the snapshot node a block file's info (nHeightFirst..nHeightLast) does not cover a block stored in the file",
    "ObsSnapKeepsBackground": "a prune on behalf of the snapshot chainstate deleted a file holding a block the background chainstate has not validated yet",
    "ObsSnapKeepsRecent": "on the snapshot node a pruned file held a block within the last 288 blocks of the tip",
}
CORNER_KEYS = {"ObsKeepsRecent": "corner:genesis-only-file-within-288", "ObsKeepsLocked": "corner:height-1-file-above-lock"}


def script_tests(ctx, cfg, name):
    r = ctx.tlc("Prune", "MCPrune", cfg, name=name, env=TLC_ENV, workers=JOBS, timeout=2400)
    g = vflib.Graph(vflib.load_emitted(r.emit_path))
    tests = list(g.path_cover())
    return tests


def count_actions(tests, acc):
    for t in tests:
        prev_locks = None
        for s in t["steps"]:
            a = s["a"]
            acc["action:" + a[0]] += 1
            ev = s.get("r") or []
            if any(e["pruned"] for e in ev):
                acc["step_prunes:" + a[0]] += 1
            locks = s["exp"]["locks"]
            if a[0] == "reorg" and prev_locks is not None and any(prev_locks[k] >= 0 and locks[k] < prev_locks[k] for k in locks):
                acc["reorg_moves_lock_back"] += 1
            prev_locks = locks


def replay_tests(ctx, binary, tests, args, name, nproc):
    res = ctx.run_harness(binary, "replay", tests, args=args, nproc=nproc, name=name, timeout=2700)
    vflib.report_mismatches(ctx, binary, "replay", res, args=args, adapter="prune", what_prefix="prune (%s): " % name)
    return res


def judge(ctx, res, tests, cfg, name, args):
    obs = [t for t in res["traces"] if "obs" in t]
    lines = [t["obs"] for t in obs]
    verdicts = vflib.judge(ctx, "Prune", "MCPruneObs", cfg, lines, name="observed_" + name)
    n_viol = 0
    for idx, inv in verdicts:
        t = obs[idx]
        case = tests[t["index"]] if t.get("index") is not None and t["index"] < len(tests) else None
        o = t["obs"]
        if inv == "ObsFileInfoCovers":
            bad = [(f, o["after"][f]["hf"], o["after"][f]["hl"], min(h), max(h)) for f, h in enumerate(o["heights"])
                   if h and f < len(o["after"]) and o["after"][f]["size"] > 0 and (min(h) < o["after"][f]["hf"] or max(h) > o["after"][f]["hl"])]
            what = "%s: after %s (step %s) tip=%d; (file, nHeightFirst, nHeightLast, lowest stored, highest stored): %s" % (
                CLAUSES[inv], json.dumps(t.get("action")), t.get("step"), o["tip"], bad[:4])
            n_fileinfo = sum(1 for v in ctx.violations if v["key"].startswith("fileinfo:"))
            if n_fileinfo >= 4:        # the same defect shows in every later observation: a few cases are enough
                continue
            if ctx.violation("fileinfo:" + vflib.digest(bad[:1]), what, dict(adapter="prune", mode="replay", args=list(args), case=case, observation=dict(after=o["after"], heights=o["heights"]), clause=inv)):
                n_viol += 1
            continue
        spans = [(f, min(o["heights"][f]), max(o["heights"][f])) for f in o["pruned"] if o["heights"][f]]
        top = sorted(spans, key=lambda x: -x[2])[:3]
        what = "%s: after %s (step %s) tip=%d locks=%s usage %s -> %s; %d files pruned, the highest (file, first height, last height): %s" % (
            CLAUSES.get(inv, inv), json.dumps(t.get("action")), t.get("step"), o["tip"], o["locks"], o["usage0"], o["usage1"], len(o["pruned"]), top)
        key = CORNER_KEYS.get(inv) or "prune:%s:%s" % (inv, vflib.digest([t.get("action"), o["tip"], o["locks"], o["pruned"]]))
        if ctx.violation(key, what, dict(adapter="prune", mode="replay", args=list(args), case=case, observation=o, clause=inv)):
            n_viol += 1
    return len(lines), verdicts


def snapshot_stage(ctx, thorough):
    """The assumeutxo clause: PruneSnap (two block-file cursors, snapshot chainstate pruning from base + 1, out-of-order storage) model-checked on a
    scaled-down model; its scripted behaviours replayed on a real pruning node with an activated, unvalidated snapshot; observations judged by TLC."""
    binary = ctx.build_adapter("prunesnap")
    ctx.tlc("Prune", "MCPruneSnap", "MC_snap_thorough.cfg" if thorough else "MC_snap_small.cfg", name="snap_model", workers=JOBS, timeout=2400)
    r = ctx.tlc("Prune", "MCPruneSnap", "E1_snap.cfg", name="snap_scripts", env=TLC_ENV, workers=1, timeout=2400)
    tests = list(vflib.Graph(vflib.load_emitted(r.emit_path)).path_cover())
    kinds = collections.Counter(s["a"][0] for t in tests for s in t["steps"])
    for k in ("mine", "swap", "base", "hist", "prune"):
        if not kinds[k]:
            raise vflib.InfraError("vacuity: the snapshot behaviours never exercise " + k)
    res = ctx.run_harness(binary, "replay", tests, nproc=JOBS, name="snapshot", timeout=2400)
    vflib.report_mismatches(ctx, binary, "replay", res, adapter="prunesnap", what_prefix="prune (snapshot node): ")
    obs = [t for t in res["traces"] if "obs" in t]
    verdicts = vflib.judge(ctx, "Prune", "MCPruneSnapObs", "Obs_snap.cfg", [t["obs"] for t in obs], name="observed_snapshot")
    seen = set()
    for idx, inv in verdicts:
        t = obs[idx]; o = t["obs"]
        case = tests[t["index"]] if t.get("index") is not None and t["index"] < len(tests) else None
        bad = [(f, o["after"][f]["hf"], o["after"][f]["hl"], min(h), max(h)) for f, h in enumerate(o["heights"])
               if h and f < len(o["after"]) and o["after"][f]["size"] > 0 and f not in o["pruned"] and (min(h) < o["after"][f]["hf"] or max(h) > o["after"][f]["hl"])]
        lost = [(f, min(o["heights"][f]), max(o["heights"][f])) for f in o["pruned"] if o["heights"][f]]
        key = "snapshot:%s:%s" % (inv, vflib.digest([bad[:1], lost[:1]]))
        if key in seen:
            continue
        seen.add(key)
        what = "%s: after %s (step %s) snapshot tip=%d background tip=%d base=%d; files pruned (file, lowest, highest height held): %s; file infos not covering (file, nHeightFirst, nHeightLast, lowest, highest): %s" % (
            SNAP_CLAUSES.get(inv, inv), json.dumps(t.get("action")), t.get("step"), o["tip"], o["bg"], o["base"], lost[:4], bad[:4])
        ctx.violation(key, what, dict(adapter="prunesnap", mode="replay", args=[], case=case, observation=o, clause=inv))
    s = res["summary"]
    if not s.get("prune_events"):
        raise vflib.InfraError("vacuity: nothing was pruned on the snapshot node")
    ctx.extra["snapshot_node"] = dict(behaviours=len(tests), steps=int(s.get("steps", 0)), observations=len(obs), prune_events=int(s.get("prune_events", 0)),
                                      files_pruned=int(s.get("files_pruned", 0)), clauses_violated=dict(collections.Counter(inv for _, inv in verdicts)))
    return len(tests), int(s.get("steps", 0)) + len(obs)


def run_auto_only(ctx, binary):
    """VERIF_C19_ONLY=auto: only the automatic-pruning part of the thorough tier (for the seeded self-test; the full check gives the same verdicts)."""
    atests = script_tests(ctx, "E1_auto.cfg", "directed_auto")
    aacc = collections.Counter(); count_actions(atests, aacc)
    aargs = ["fast=1", "target=576716800"]
    resa = replay_tests(ctx, binary, atests, aargs, "auto", min(JOBS or 2, 3))
    n_obs, verdicts = judge(ctx, resa, atests, "Obs_auto.cfg", "auto", aargs)
    ctx.traces = len(atests); ctx.evaluations = int(resa["summary"].get("steps", 0)) + n_obs
    ctx.nontrivial = set(vflib.digest(t["steps"]) for t in atests)
    ctx.extra["model_steps_per_kind"] = dict(aacc)
    ctx.extra["deviations_from_model"] = len(resa["deviations"])
    ctx.extra["deviation_samples"] = [d.get("why", "")[:300] for d in resa["deviations"][:5]]
    ctx.extra["clauses_violated_on_observations"] = dict(collections.Counter(inv for _, inv in verdicts))
    return ctx.finish(level="model_checking", exhaustive=False, rule="automatic-pruning directed behaviours only (VERIF_C19_ONLY=auto)")


def run(ctx):
    binary = ctx.build_adapter("prune")
    thorough = ctx.tier != "quick"
    acc = collections.Counter()
    if os.environ.get("VERIF_C19_ONLY") == "auto":
        return run_auto_only(ctx, binary)

    # 1. the clauses on the scaled-down model, exhaustively
    ctx.tlc("Prune", "MCPrune", "MC_small_thorough.cfg" if thorough else "MC_small_quick.cfg", env=TLC_ENV, workers=JOBS, timeout=2400)

    # 2. directed behaviours + simulation with the real constants (manual pruning, 64 KiB files)
    tests = script_tests(ctx, "E1_directed.cfg", "directed")
    n_directed = len(tests)
    nsim, depth = (40, 12) if thorough else (8, 9)
    rs = ctx.tlc("Prune", "MCPrune", "Sim_manual.cfg", simulate=(nsim, depth), env=TLC_ENV, timeout=2400)
    tests += vflib.sim_behaviours(rs.emit_path)
    count_actions(tests, acc)
    for k in ("action:connect", "action:reorg", "action:swap", "action:manual", "action:lock", "action:unlock", "action:auto", "step_prunes:manual", "reorg_moves_lock_back"):
        if not acc[k]:
            raise vflib.InfraError("vacuity: the replayed behaviours never exercise " + k)
    args = ["fast=1", "target=manual"]
    res = replay_tests(ctx, binary, tests, args, "manual", JOBS)
    n_obs, verdicts = judge(ctx, res, tests, "Obs_manual.cfg", "manual", args)
    deviations = list(res["deviations"])
    summary = collections.Counter(res["summary"])
    all_tests = len(tests)

    # 3. automatic pruning (thorough): one-megabyte blocks against the 550 MiB floor of the target
    if thorough:
        atests = script_tests(ctx, "E1_auto.cfg", "directed_auto")
        ra = ctx.tlc("Prune", "MCPrune", "Sim_auto.cfg", name="Sim_auto", simulate=(3, 8), env=TLC_ENV, timeout=2400)
        atests += vflib.sim_behaviours(ra.emit_path)
        aacc = collections.Counter(); count_actions(atests, aacc)
        if not (aacc["step_prunes:connect"] and aacc["step_prunes:auto"]):
            raise vflib.InfraError("vacuity: no automatic prune event in the automatic-pruning behaviours (%s)" % dict(aacc))
        acc.update(aacc)
        aargs = ["fast=1", "target=576716800"]
        resa = replay_tests(ctx, binary, atests, aargs, "auto", min(JOBS or 2, 2))
        n2, v2 = judge(ctx, resa, atests, "Obs_auto.cfg", "auto", aargs)
        n_obs += n2; verdicts += v2; deviations += resa["deviations"]; summary.update(resa["summary"]); all_tests += len(atests)

    if not summary.get("prune_events"):
        raise vflib.InfraError("vacuity: the node never pruned a file")
    # 4. the assumeutxo clause on a node with an activated snapshot
    n_snap_tests, n_snap_evals = snapshot_stage(ctx, thorough)
    ctx.traces = all_tests + n_snap_tests
    ctx.evaluations = int(summary.get("steps", 0)) + n_obs + n_snap_evals
    ctx.nontrivial = set(vflib.digest(t["steps"]) for t in tests if any((s.get("r") or []) and any(e["pruned"] for e in s["r"]) for s in t["steps"]))
    ctx.extra["directed_behaviours"] = n_directed
    ctx.extra["model_steps_per_kind"] = dict(acc)
    ctx.extra["node_prune_events"] = int(summary.get("prune_events", 0))
    ctx.extra["node_files_pruned"] = int(summary.get("files_pruned", 0))
    ctx.extra["observations_judged"] = n_obs
    ctx.extra["clauses_violated_on_observations"] = dict(collections.Counter(inv for _, inv in verdicts))
    ctx.extra["deviations_from_model"] = len(deviations)
    ctx.extra["deviation_samples"] = [d.get("why", "")[:300] for d in deviations[:5]]
    for t in tests[:2]:
        ctx.sample([s["a"] for s in t["steps"]])
    ctx.assumptions += ["snapshot part: regtest assumeutxo height 110, background validation progresses only by the blocks the behaviour delivers", "the node stays in initial block download (old block timestamps), as the specification assumes",
                        "PruneAfterHeight = 100 (-fastprune chain parameter), block files of 64 KiB (BlockManager::Options::fast_prune)"]
    return ctx.finish(level="model_checking", exhaustive=False,
                      rule="directed behaviours at every boundary of the rules plus TLC-simulated behaviours (seeded); non-trivial = behaviours in which at least "
                           "one file is pruned")


def replay(ctx, path):
    """./check C19 --replay <file>: re-run the stored behaviour on the current tree and judge its prune events again."""
    o = json.load(open(path))
    binary = ctx.build_adapter("prune")
    args = o.get("args") or ["fast=1", "target=manual"]
    if o.get("case") is None:
        print("replay file has no behaviour"); return 2
    res = ctx.run_harness(binary, "replay", [json.dumps(o["case"])], args=args, nproc=1, name="replay")
    bad = res["mismatches"] + res["aborts"]
    for m in bad:
        print("REPLAY %s:" % m.get("kind"), json.dumps(m)[:1500])
    obs = [t for t in res["traces"] if "obs" in t]
    cfg = "Obs_manual.cfg" if "target=manual" in args else "Obs_auto.cfg"
    verdicts = vflib.judge(ctx, "Prune", "MCPruneObs", cfg, [t["obs"] for t in obs], name="observed_replay")
    for idx, inv in verdicts:
        t = obs[idx]
        print("REPLAY clause %s (%s) violated after %s (step %s): tip=%s locks=%s pruned=%s" % (
            inv, CLAUSES.get(inv, inv), json.dumps(t.get("action")), t.get("step"), t["obs"]["tip"], t["obs"]["locks"], t["obs"]["pruned"][:20]))
    print("REPLAY result: %s" % ("still fails" if (bad or verdicts) else "passes"))
    return 1 if (bad or verdicts) else 0
