"""C22 wip"""
import os, sys
sys.path.insert(0, os.path.dirname(os.path.abspath(__file__)))
import vflib, _mempool

META = dict(engine="E1", level="model_checking", text="wip", note="wip", technique="wip")


def run(ctx):
    binary = ctx.build_adapter("mempool")
    st = _mempool.run_scenario(ctx, binary, "C22", "chain", "MC_chain_q.cfg")
    st2 = _mempool.run_scenario(ctx, binary, "C22", "chain", "MC_chain_exp_q.cfg")
    return ctx.finish(level="model_checking", exhaustive=True, rule="wip")
