"""C22 — the mempool stays consistent and every entry is valid for the next block (specs/Mempool, engine E1 on a real node)."""
import os, sys
sys.path.insert(0, os.path.dirname(os.path.abspath(__file__)))
import vflib, _mempool

META = dict(
    engine="E1",
    level="model_checking",
    text="Mempool models the pool (set of transactions + PrioritiseTransaction deltas + entry times) over a confirmed chain state (UTXO set, "
         "heights, block times) on a fixed transaction universe whose fees / virtual sizes / weights are measured from the real signed "
         "transactions: Submit (AcceptToMemoryPool with replacements, in the code's rule order), Prioritise, MineBlock (removeForBlock: "
         "confirmed + conflicts, recursively), Disconnect (InvalidateBlock of the tip: the block's transactions return in order through "
         "AcceptToMemoryPool, removeForReorg drops non-final / BIP68-non-final / immature-coinbase entries with descendants), two-block "
         "Reorg, mock-time jumps and expiry. TLC proves on the bounded model that in every reachable state every entry's inputs are unspent "
         "or created by the pool, no output is spent twice, and the whole pool (parents first) is a valid block on the tip by the UtxoChain "
         "rules (inputs, amounts, maturity, nLockTime/BIP113, BIP68, scripts). Every transition is replayed on a real regtest node with "
         "check_ratio = 1 (CTxMemPool::check after every call: an assertion is a violation); pool, per-entry fee / modified fee / vsize / "
         "parents / children, prioritisations, totals, tip height and UTXO set are compared with the prediction, and where the node deviates "
         "TLC evaluates the consistency and next-block-validity invariants on the observed state.",
    note="Bounded: universes of 9 (chain) and 17 (rbf) transactions, <= 2 mined blocks, one tip disconnect, one two-block reorg, two time jumps. "
         "INV mode: a pool that differs from the prediction but is consistent and next-block valid (e.g. a more aggressive eviction) is not a "
         "C22 violation. TRUC, packages, trimming and persistence are outside this check (C27/C29/C55).",
    technique="TLA+ spec Mempool + TLC exhaustive; path cover replayed on a real node; invariants evaluated by TLC on observed states",
)


def replay(ctx, path):
    return _mempool.replay(ctx, path)


def run(ctx):
    binary = ctx.build_adapter("mempool")
    block_acts = ("mine", "disconnect", "reorg", "tick", "expire")
    nontrivial = lambda p: any(s["a"][0] in block_acts for s in p["steps"]) and any(s["a"][0] == "submit" and s["r"]["ok"] for s in p["steps"])
    if ctx.tier == "quick":
        plan = [("chain", "MC_chain_q.cfg", "MU_std.cfg"), ("chain", "MC_chain_exp_q.cfg", "MU_std.cfg")]
    else:
        plan = [("chain", "MC_chain_t.cfg", "MU_std.cfg"), ("chain", "MC_chain_exp_t.cfg", "MU_std.cfg"), ("rbf", "MC_rbf_t.cfg", "MU_std.cfg")]
    per = {}
    for uni, cfg, mu in plan:
        st = _mempool.run_scenario(ctx, binary, "C22", uni, cfg, mu, nontrivial=nontrivial)
        for k, v in st["per"].items():
            per[k] = per.get(k, 0) + v
    _mempool.need(dict(per=per), [("mine", "none"), ("disconnect", "none"), ("reorg", "none"), ("tick", "none"), ("submit", "ok"),
                                  ("submit", "mempool full"), ("submit", "non-final"), ("submit", "bad-txns-premature-spend-of-coinbase"),
                                  ("submit", "non-BIP68-final"), ("submit", "script-failed"), ("submit", "insufficient fee"),
                                  ("submit", "txn-already-known")], "C22")
    ctx.assumptions += ["bounded scenario on a 101-block regtest base chain; blocks delivered to the node are valid (invalid blocks are C02/C05's subject)",
                        "fees, virtual sizes and weights of the universe are measured from the real signed transactions at run time",
                        "the node runs with -acceptnonstdtxn=1 (bare OP_TRUE outputs) and check_ratio = 1"]
    return ctx.finish(level="model_checking", exhaustive=True,
                      rule="path cover of every transition of the bounded Mempool graphs; non-trivial = distinct paths with at least one accepted "
                           "submission and one block connection / disconnection / reorg / time jump")
