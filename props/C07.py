"""C07 — headers need real proof of work and the exact required difficulty (specs/Pow, engine E4)."""
import collections, json
import vflib

META = dict(
    engine="E4",
    level="model_checking",
    text="Compact target encoding, DeriveTarget/CheckProofOfWork, GetNextWorkRequired/CalculateNextWorkRequired (x4 clamp, 256-bit "
         "wrap of the multiplication, pow-limit clamp, BIP94 variant, min-difficulty walk-back), PermittedDifficultyTransition and the "
         "header rules of CheckBlockHeader/ContextualCheckBlockHeader are written in TLA+ over exact base-256 digit strings. TLC enumerates "
         "five boundary-valued tables and decides on every row: decoding/encoding equal the reference definition N = mantissa*256^(exp-3) "
         "(canonical, idempotent, sign and overflow flags), the procedural checks equal the property's declarative statement, every required "
         "difficulty on a built-in chain is permitted, lies within a factor 4 of the previous target and below the limit, and no product leaves "
         "256 bits there. Every row is replayed on the real code: arith_uint256, DeriveTarget, CheckProofOfWork(Impl), GetNextWorkRequired and "
         "CalculateNextWorkRequired on synthetic CBlockIndex chains built from the same chain description, PermittedDifficultyTransition, and "
         "header acceptance through ChainstateManager::ProcessNewBlockHeaders of an in-process regtest node under mock time.",
    note="Encoding and required difficulty are compared exactly; header acceptance, DeriveTarget and CheckProofOfWork one-directionally (the code "
         "may reject more than the statement demands; such rows are counted as conservative). Header acceptance runs on regtest only (mainnet "
         "headers cannot be mined); retargeting on the other chains is bound through GetNextWorkRequired on synthetic chains. Domains are finite "
         "boundary sets; hash = target-1/target/target+1 boundaries are checked on CheckProofOfWorkImpl, not through the node.",
    technique="TLA+ operators over 256-bit digit strings (procedural = declarative decided by TLC), TLC-enumerated oracle tables replayed on the real functions and on a regtest node",
)

TABLES = ["compact", "pow", "next", "permit", "header"]


def run(ctx):
    binary = ctx.build_adapter("pow")
    tier = ctx.tier

    r = ctx.tlc("Pow", "Pow", "MC_%s.cfg" % tier, timeout=2400)      # all five tables in one run
    emitted = [json.loads(l) for l in open(r.emit_path)]
    if len(emitted) != r.distinct:
        raise vflib.InfraError("emitted %d rows for %d distinct states" % (len(emitted), r.distinct))

    rows = []
    per_kind = collections.Counter(); outcome = collections.Counter()
    for x in emitted:
        i, o = x["in"], x["out"]
        k = i["kind"]
        if k == "seed":          # first level of the two-level table generation, not a row
            continue
        rows.append(x); per_kind[k] += 1
        if k == "compact":
            outcome["compact neg=%s ovf=%s" % (o["neg"], o["ovf"])] += 1
        elif k == "pow":
            outcome["pow valid=%s ok=%s" % (o["valid"], o["ok"])] += 1
        elif k == "next":
            p = i["p"]
            cls = "retarget" if (o["boundary"] and not p["noRetarget"]) else "boundary-noretarget" if o["boundary"] else "min-difficulty" if p["minDiff"] else "unchanged"
            outcome["next %s %s" % (cls, "builtin" if p["builtin"] else "synthetic")] += 1
            if not o["permitted"]:
                outcome["next not-permitted (synthetic)"] += 1
            if o["boundary"] and p["bip94"] and not p["noRetarget"]:
                outcome["next retarget bip94"] += 1
        elif k == "permit":
            outcome["permit %s" % o["ok"]] += 1
        elif k == "header":
            outcome["header " + o["res"]] += 1
    need = ["compact neg=True ovf=False", "compact neg=False ovf=True", "compact neg=True ovf=True", "compact neg=False ovf=False",
            "pow valid=True ok=True", "pow valid=True ok=False", "pow valid=False ok=False",
            "next retarget builtin", "next retarget synthetic", "next min-difficulty builtin", "next unchanged builtin", "next retarget bip94",
            "next not-permitted (synthetic)", "permit True", "permit False",
            "header ok", "header high-hash", "header bad-diffbits", "header time-too-old", "header time-too-new"]
    missing = [n for n in need if not outcome[n]]
    if missing:
        raise vflib.InfraError("vacuity: no row with outcome %s" % missing)
    ctx.log("tables: %s" % dict(per_kind))

    res = ctx.run_harness(binary, "table", rows)
    summ = res["summary"]
    ctx.evaluations = int(summ["tests"]); ctx.traces = ctx.evaluations
    for k in TABLES:
        if int(summ.get("rows_" + k, 0)) != per_kind[k]:
            raise vflib.InfraError("harness evaluated %s rows of table %s, expected %d" % (summ.get("rows_" + k), k, per_kind[k]))
    if not summ.get("headers_accepted") or not summ.get("pow_accepted") or not summ.get("retarget_rows"):
        raise vflib.InfraError("vacuity: the implementation accepted no header / no proof of work / saw no retarget row")
    # non-trivial: a valid proof-of-work decision, a real retarget, a min-difficulty walk, a header that passes the proof-of-work check, a non-zero decode
    def nontrivial(x):
        i, o = x["in"], x["out"]
        k = i["kind"]
        return ((k == "compact" and any(o["target"])) or (k == "pow" and o["valid"]) or (k == "next" and (o["boundary"] or i["p"]["minDiff"]))
                or k == "permit" or (k == "header" and o["res"] != "high-hash"))
    ctx.nontrivial = set(vflib.digest(x) for x in rows if nontrivial(x))
    ctx.extra["rows_per_table"] = dict(per_kind)
    ctx.extra["rows_per_outcome"] = dict(outcome)
    cons = {k: int(v) for k, v in summ.items() if k.startswith("conservative") or k in ("reason_differs", "permit_differs")}
    ctx.extra["diverged_conservative"] = cons
    ctx.extra["impl_counters"] = {k: int(summ.get(k, 0)) for k in ("headers_accepted", "pow_accepted", "retarget_rows", "permit_true")}
    for k, v in cons.items():
        if v:
            ctx.log("note: %s = %d (implementation stricter than / different from the model where the property is silent)" % (k, v))
    for kind in TABLES:
        ctx.sample(next(x for x in rows if x["in"]["kind"] == kind), limit=5)
    for m in res["mismatches"] + res["aborts"]:      # the "action" of a table row is the whole row: say which row briefly, the replay file has it all
        a = m.get("action")
        if isinstance(a, dict) and "in" in a:
            i = a["in"]
            m["action"] = dict(table=i["kind"], **{k: i[k] for k in ("c", "hk", "height", "old", "new") if k in i},
                               **({"chain": i["p"]["name"], "blocks": i["d"]["n"]} if "d" in i else {}))
    vflib.report_mismatches(ctx, binary, "table", res, adapter="pow", what_prefix="Pow: ",
                            key_fn=lambda m, case: "row:" + vflib.digest(m.get("why")))
    ctx.assumptions += ["values between the enumerated boundaries behave like their neighbours",
                        "header acceptance is exercised on regtest (min-difficulty, no retargeting); the other chains' rules are bound through "
                        "GetNextWorkRequired/CalculateNextWorkRequired on synthetic CBlockIndex chains with the built-in Consensus::Params",
                        "block versions and the BIP94 timewarp rule are outside the statement: headers use version 0x20000000 on a chain without BIP94"]
    return ctx.finish(level="model_checking", exhaustive=True,
                      rule="every row of the five boundary-valued tables (compact, pow, next, permit, header); non-trivial = non-zero decode, valid target, "
                           "retarget or min-difficulty row, permitted-transition row, header that reaches the contextual checks")
