"""C39 — transaction-origin privacy is preserved (specs/TxPrivacy: TxPrivacy.tla E1/E2 on PeerManager, PrivBroadcast.tla MC + E3 on PrivateBroadcast)."""
import collections, concurrent.futures, json, os
import vflib

META = dict(
    engine="E1",
    level="model_checking",
    text="(a) + (b, node level) TxPrivacy.tla models what net_processing.cpp lets peers learn about unconfirmed transactions: FindTxForGetData / "
         "info_for_relay (served iff the transaction entered the pool before the peer's last inventory trickle - mempool sequence numbers "
         "abstracted to 'the pool at the last trickle' - or is in the most recent block), the trickle timers (a peer's SendMessages round trickles "
         "when the clock passed its timer, always for noban peers), the known-inventory filter, and the private broadcast path "
         "(BroadcastTransaction NO_MEMPOOL_PRIVATE_BROADCAST, PushPrivateBroadcastTx at the end of a private-broadcast connection's handshake, "
         "getdata / pong handling on such a connection, removal from the queue when the transaction comes back in a tx message). TLC checks on every "
         "transition: a getdata is answered with the transaction only if it was in the pool at that peer's last trickle or in the most recent block; "
         "a privately submitted transaction enters the pool only through a tx message or a normal submission; while private it is never announced "
         "or sent to a normal peer; a private-broadcast connection gets the INV of exactly one transaction and the transaction only in answer to the "
         "request for it. Every transition of two bounded graphs (three normal peers incl. a noban one; one peer + two private-broadcast "
         "connections, deeper) and TLC-simulated behaviours are replayed on a real PeerManager (real CNodes, real serialized getdata / tx / pong, "
         "node::BroadcastTransaction for submissions, mock clock for the trickle timers, every message the node pushes captured). (b, queue) "
         "PrivBroadcast.tla models class PrivateBroadcast method by method; TLC checks |queue| <= max_transactions, attempts <= "
         "max_send_attempts unless re-added / removed, one transaction per connection, GetTxForNode = the pick, on the exhaustive bounded model, and "
         "validates call traces recorded from the real class under a seeded random driver (max 2/2 and 3/3) against the same actions.",
    note="SAFE mode: the node answering notfound where the model would serve, announcing less, or picking another pending transaction is a "
         "deviation, not a violation. The limits 10,000 / 1,000 are the constructor defaults of PrivateBroadcast; the model and the driver use the "
         "same code with small values. Only one transaction is ever submitted privately in the node-level model (with several, which one a "
         "connection gets is a tie the queue model covers). Peer 1 is a manual connection (outbound-style timers without the outbound "
         "eviction logic, which needs headers traffic). Getdata is by wtxid (the peers negotiate wtxid relay).",
    technique="TLA+ specs TxPrivacy / PrivBroadcast + TLC action properties and invariants; graph and simulation replay on the real PeerManager; "
              "trace validation of the real PrivateBroadcast",
)


def tx_in(msgs, types):
    out = set()
    for m in msgs:
        if m["type"] in types:
            out |= set(m["txs"])
    return out


def property_difference(step, diff):
    """Is the difference between model and node something C39 states (SAFE direction), or bookkeeping?"""
    a, r, exp = step["a"], step["r"], step["exp"]
    private = {x for x in exp["pbq"] if x not in exp["pool"] and x not in exp["hid"]["recent"]}
    obs = diff["obs"]
    if "result" in diff["keys"]:
        got = obs["result"]["msgs"]
        if a[0] == "getdata" and a[2] in tx_in(got, {"tx"}) and a[2] not in tx_in(r["msgs"], {"tx"}):
            return "getdata for %s answered with the transaction although it was not in the pool at the peer's last trickle nor in the most recent block" % a[2]
        if obs["result"]["to"].startswith("p") and private & tx_in(got, {"inv", "tx"}):
            return "a privately broadcast transaction was announced / sent to normal peer %s" % obs["result"]["to"]
        if obs["result"]["to"] == "c":
            invs = [m for m in got if m["type"] == "inv"]
            if len(invs) > 1 or any(len(m["txs"]) != 1 for m in invs) or (invs and a[0] != "pbconnect"):
                return "a private-broadcast connection was announced more or other than one transaction at its handshake"
            sent = tx_in(got, {"tx"})
            if sent and (a[0] != "pbgetdata" or sent != {a[2]} or not tx_in(r["msgs"], {"tx"})):
                return "a private-broadcast connection was sent %s not in answer to the request for the transaction announced to it" % sorted(sent)
    if "others" in diff["keys"]:
        for m in obs["others"]:
            if m["type"] in ("inv", "tx") and (set(m["txs"]) & private or m["to"].startswith("c")):
                return "%s of %s sent to %s, which did not ask" % (m["type"], m["txs"], m["to"])
    if "state.pool" in diff["keys"] and private & set(obs["state.pool"]):
        return "a privately submitted transaction is in the mempool"
    return None


def replay(ctx, binary, tests, what, stats):
    res = ctx.run_harness(binary, "replay", tests, name=what, timeout=3000)
    ctx.evaluations += int(res["summary"]["tests"]); ctx.traces += int(res["summary"]["tests"])
    ctx.extra["replayed_steps"] = ctx.extra.get("replayed_steps", 0) + int(res["summary"]["steps"])
    for k, v in res["summary"].items():
        if k.startswith("act_"):
            stats[k] += int(v)
    reported = set()
    for m in res["mismatches"] + res["aborts"]:
        case = json.loads(res["lines"][m["index"]])
        why = str(m.get("why", ""))
        if m["kind"] == "abort":
            reason = "abort: " + why
        elif why.startswith("exception"):
            stats["harness_exceptions"] += 1
            stats["first_exception"] = stats.get("first_exception") or ("%s: %s" % (vflib.canon(m.get("action")), why))
            continue
        else:
            diff = json.loads(why)
            reason = property_difference(case["steps"][m["step"]], diff)
            if reason is None:
                for k in diff["keys"]:
                    stats["deviation_" + k + ":" + str(m["action"][0])] += 1
                continue
        key = "%s:%s" % (what, vflib.digest([m.get("action"), reason[:60]]))
        if key in reported or len(reported) >= 6:
            continue
        reported.add(key)
        acts = [s["a"] for s in case["steps"][:m["step"] + 1]]

        def confirm(case=case):
            r2 = ctx.run_harness(binary, "replay", [json.dumps(case)], nproc=1, name="confirm")
            return bool(r2["mismatches"] or r2["aborts"])
        ctx.violation(key, "TxPrivacy %s: after %s: %s" % (what, vflib.canon(acts), reason),
                      dict(adapter="txprivacy", mode="replay", args=[], case=case, mismatch=m), confirm=confirm)


def run(ctx):
    binary = ctx.build_adapter("txprivacy")
    quick = ctx.tier == "quick"
    stats = collections.Counter()
    per_action = collections.Counter()
    only = os.environ.get("VERIF_C39_ONLY", "")       # "queue" | "net": restricts the check (binding self-tests)

    jobs = {}
    with concurrent.futures.ThreadPoolExecutor(max_workers=4) as ex:
        if only != "net":
            jobs["mcq"] = ex.submit(ctx.tlc, "TxPrivacy", "PrivBroadcast", "MC_PB_quick.cfg" if quick else "MC_PB.cfg", name="MC_PB", timeout=2400, workers=1 if quick else 4)
        if only != "queue":
            if not quick:
                jobs["mcn"] = ex.submit(ctx.tlc, "TxPrivacy", "TxPrivacy", "MC_PBnet.cfg", name="MC_PBnet", timeout=2400, workers=2)
            jobs["e1"] = ex.submit(ctx.tlc, "TxPrivacy", "TxPrivacy", "E1.cfg" if quick else "E1_deep.cfg", name="E1", timeout=2400, workers=1 if quick else 4)
            jobs["e1pb"] = ex.submit(ctx.tlc, "TxPrivacy", "TxPrivacy", "E1_PB.cfg", name="E1_PB", timeout=2400, workers=1)
            jobs["sim"] = ex.submit(ctx.tlc, "TxPrivacy", "TxPrivacy", "Sim.cfg", simulate=(40 if quick else 600, 14), name="Sim", timeout=2400)
    for j in jobs.values():
        j.result()

    # ---- (b) the queue: traces of the real PrivateBroadcast validated by TLC
    if only != "net":
        for maxtx, maxatt, cfg, episodes in ((2, 2, "Trace_PB.cfg", 100 if quick else 1500), (3, 3, "Trace_PB3.cfg", 60 if quick else 1000)):
            trace = ctx.run_driver(binary, "drive", args=[ctx.seed, episodes, maxtx, maxatt], out_name=os.path.join(ctx.work, "pb_%d_%d.trace.ndjson" % (maxtx, maxatt)))
            lines = open(trace).read().splitlines()
            nreset = sum(1 for l in lines if '"e":"reset"' in l)
            counts = collections.Counter(json.loads(l)["e"] for l in lines)
            full = sum(1 for l in lines if '"res":"QueueFull"' in l)
            acc, matched, res = ctx.validate_trace("TxPrivacy", "TracePrivBroadcast", cfg, trace, name="trace_%d_%d" % (maxtx, maxatt))
            if acc and (not full or not counts["pick"] or not counts["confirm"] or not counts["stale"]):
                raise vflib.InfraError("vacuity: driver never hit QueueFull / pick / confirm / stale: %s" % dict(counts))
            ctx.traces += nreset; ctx.evaluations += len(lines)
            ctx.extra.setdefault("queue_trace_events", {})["max%d_att%d" % (maxtx, maxatt)] = dict(counts)
            for l in lines[5:400:97]:
                ctx.nontrivial.add(vflib.digest(l))
            if not acc:
                bad = lines[matched] if matched < len(lines) else "(end)"
                why = ("invariant %s fails on the implementation's state" % res.violated) if res.violated and res.violated != "NotAccepted" else "no action of the specification matches"
                ctx.violation("queue:%s" % vflib.digest([json.loads(bad).get("e") if bad.startswith("{") else bad, why]),
                              "PrivateBroadcast(max_transactions=%d, max_send_attempts=%d): trace line %d %s: %s" % (maxtx, maxatt, matched + 1, bad[:300], why),
                              dict(module_dir="TxPrivacy", module="TracePrivBroadcast", cfg=cfg, trace=trace, line=matched + 1))
        ctx.sample(dict(queue_trace_head=[json.loads(l) for l in lines[:4]]))

    # ---- (a) / (b, node level): graphs and simulated behaviours on the real PeerManager
    if only != "queue":
        for name in ("e1", "e1pb"):
            r = jobs[name].result()
            g = vflib.Graph(vflib.load_emitted(r.emit_path))
            # the deeper private-broadcast graph is replayed along a path cover in the quick tier (every peer costs several bloom filters)
            tests = list(g.path_cover()) if (quick and name == "e1pb") else list(g.edge_tests())
            for t in tests:
                for s_ in t["steps"]:
                    per_action[s_["a"][0]] += 1
                if any(s["a"][0] in ("getdata", "pbgetdata") for s in t["steps"]) and len(t["steps"]) >= 3:
                    ctx.nontrivial.add(vflib.digest([s["a"] for s in t["steps"]]))
            ctx.log("%s: %d states, %d transitions" % (name, len(g.nodes), g.nedges))
            ctx.sample(dict(actions=[s["a"] for s in tests[len(tests) * 2 // 3]["steps"]], results=[s["r"] for s in tests[len(tests) * 2 // 3]["steps"]]))
            replay(ctx, binary, tests, name, stats)
        beh, fans = vflib.sim_behaviours(jobs["sim"].result().emit_path, with_fans=True)
        keep = [t for i, t in enumerate(fans) if (i * 2654435761 + ctx.seed) % (16 if quick else 8) == 0]
        for t in beh + keep:
            per_action[t["steps"][-1]["a"][0]] += 1
            ctx.nontrivial.add(vflib.digest([s["a"] for s in t["steps"]]))
        ctx.log("sim: %d behaviours + %d candidate-successor tests" % (len(beh), len(keep)))
        replay(ctx, binary, beh + keep, "sim", stats)
        if not ctx.violations:
            if stats["harness_exceptions"]:
                raise vflib.InfraError("adapter exceptions: %d, first: %s" % (stats["harness_exceptions"], stats["first_exception"]))
            missing = [a for a in ("submit", "submitprivate", "trickle", "getdata", "peertx", "block", "pbconnect", "pbgetdata", "pbpong") if not per_action[a]]
            if missing:
                raise vflib.InfraError("vacuity: actions never taken: %s" % missing)
        ctx.extra["bookkeeping_deviations"] = {k[10:]: v for k, v in stats.items() if k.startswith("deviation_")}
        ctx.extra["replayed_per_action"] = {k[4:]: v for k, v in stats.items() if k.startswith("act_")}
    ctx.assumptions += ["mempool sequence numbers are abstracted to 'the pool at the peer's last trickle'; transactions are not re-submitted after removal",
                        "one private transaction at node level; queue limits checked with small constructor parameters on the same code",
                        "mock clock: a trickle is SendMessages after a 10 minute jump; the inventory rate-limit bucket never runs dry at these rates"]
    return ctx.finish(level="model_checking", exhaustive=True,
                      rule="node level: one implementation test per transition of the bounded graphs plus TLC -simulate behaviours of 14 actions with candidate "
                           "successors; queue: seeded random call sequences on the real class, validated line by line; non-trivial = node-level tests of "
                           ">= 3 actions containing a getdata, all simulated behaviours, sampled queue trace lines")
