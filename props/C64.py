"""C64 — a malleated copy of a transaction cannot censor the genuine one (specs/TxDownload, engines E1 + E2)."""
import collections, concurrent.futures, json, os
import vflib

META = dict(
    engine="E1",
    level="model_checking",
    text="TxDownload.tla models node::TxDownloadManagerImpl as coded (AlreadyHaveTx, AddTxAnnouncement incl. orphan-resolution candidates, "
         "GetRequestsToSend over an explicit request tracker with preferred-peer selection, expiry and the deletion of completed announcements, "
         "ReceivedTx, MempoolAcceptedTx, the insertion rules of MempoolRejectedTx, BlockConnected / ActiveTipChange) together with the glue "
         "net_processing.cpp puts around it and the verdict classes of mempool validation, over a universe of one genuine segwit transaction G "
         "(txid T, wtxid W) and its malleated copies with the same txid - invalid witness, oversized non-standard witness, stripped witness - "
         "optionally all spending an unconfirmed parent so that every copy is an orphan first; two wtxid-relay peers (one preferred). A third "
         "universe (TxDownloadOrphan.tla) gives G TWO unconfirmed parents accepted at separate steps, copies with a lower and a higher wtxid than G "
         "(ground in the harness), the per-peer orphan work sets with their reconsideration marks as explicit state and ProcessOrphanTx turns as "
         "separate, delayable actions (invariant: a valid G waiting in the orphanage is always marked for reconsideration). TLC checks on "
         "every reachable state / transition of the bounded model: while G is valid and absent from the pool neither W nor T is in any filter, "
         "AlreadyHaveTx(W) is false and G does not sit in the orphanage; an inv for W is taken up; the peer the tracker prefers is asked for W; "
         "nothing but that peer's own answer (G, notfound, timeout) ends its announcement of W; G, when it arrives, is validated and accepted. "
         "Every transition of the bounded graphs (E1) and TLC-simulated longer behaviours with all their candidate successors (E2) are replayed "
         "on a real TxDownloadManagerImpl with real signed P2WSH transactions validated by the real mempool on a regtest node: results "
         "(dropped inv, requested hashes, validated / verdict class) and the projected state (mempool and orphanage membership, membership of "
         "every hash in the three filters, live announcers per hash, AlreadyHaveTx(W)) are compared after every step.",
    note="INV mode: a difference between model and implementation is a violation only if it concerns what the property states (W or T in a filter, "
         "AlreadyHaveTx(W) or AlreadyHaveTx(txid T) turning true, nobody left to ask for W, W not requested from the peer whose turn it is, W's announcement dropped, G not validated / "
         "accepted / in the pool); any other difference (bookkeeping of the copies, orphan announcers, tracker state of other hashes) is counted "
         "as a deviation and ends that behaviour. The glue (tx message branch, ProcessOrphanTx loop, forwarding of validation signals) is replicated in the adapter from net_processing.cpp; "
         "PeerManager itself is not in the loop. Peers are wtxid-relay only (the property's scope); the txid T is observed through the filters. "
         "Once G is in the pool or confirmed, T's membership in the reject filter is not compared (it depends on the order in which orphaned copies "
         "are reconsidered and the property no longer cares). No reorgs, no mempool eviction, no reconsiderable (fee) rejections in the universe.",
    technique="TLA+ spec TxDownload + TLC invariants and action properties; exhaustive graph replay and simulation replay on the real TxDownloadManagerImpl",
)

ACTIONS = ("inv", "poll", "notfound", "tx", "block", "turn")


def property_difference(step, diff, prev):
    """Does a difference between the model's prediction and the implementation concern what C64 states (the genuine transaction being
    rejected, treated as already known, no longer requested, or not accepted)? Everything else is bookkeeping around it: a deviation."""
    a, r, exp = step["a"], step["r"], step["exp"]
    for key in diff["keys"]:
        obs = diff["obs"].get(key)
        if key == "state.ahW" and obs is True and exp["ahW"] is False:
            return "AlreadyHaveTx(W) is true while the genuine transaction is wanted"
        if key == "state.rejT" and obs == "yes" and exp["rejT"] == "no":
            return "the txid T is in the reject filter while the genuine transaction is wanted"
        if key in ("state.rej", "state.recon", "state.conf") and exp.get("rejT", "no") != "na":      # ("na": G is in the pool or confirmed)
            extra = set(obs) - set(exp[key[6:]])
            if extra & {"W", "T"}:
                return "%s holds %s although the model's does not" % (key[6:], sorted(extra & {"W", "T"}))
        if key == "state.pool" and "G" in exp["pool"] and "G" not in obs:
            return "the genuine transaction is not in the mempool"
        if key == "state.hw":
            # third universe: the genuine orphan, both parents in the pool, should be marked for reconsideration in its announcer's work set
            for pk, pn in (("p1", 0), ("p2", 1)):
                if exp["hw"][pk] and not obs[pk] and "G" in exp["hid"]["work"][pn] and "G" not in exp["pool"] and {"P1", "P2"} <= set(exp["pool"]):
                    return "the genuine transaction sits in the orphanage with both parents accepted and is not queued for reconsideration"
        if key == "state.ahT" and obs == "yes" and exp["ahT"] == "no":
            return "AlreadyHaveTx(txid T) is true because of a copy, while the genuine transaction is wanted"
        if key == "state.live.W" and "live" in exp and exp["live"]["W"] and not obs and not (a[0] == "poll" and "req" in prev["hid"]["trk"]["W"]):
            # (a request that times out differently from the model's 60 s is the peer's own timeout, not censorship)
            return "no peer is left to ask for W"
        if key == "result.ask" and "W" in r["ask"] and "W" not in obs:
            return "W is not requested from the peer the tracker should ask"
        if key == "result.validated" and a[0] == "tx" and a[2] == "G" and r["validated"] and obs is False:
            return "the genuine transaction was ignored as already known (not validated, not kept as an orphan)"
        if key == "result.verdict" and a[0] == "tx" and a[2] == "G" and r["verdict"] == "ok":
            return "the genuine transaction was not accepted (verdict %s)" % obs
        if key == "result.dropped" and a[0] == "inv" and a[2] == "W" and r["dropped"] is False and obs is True:
            return "the announcement of W was dropped as already known"
    return None


def run_set(ctx, binary, tests, what, haspar, stats):
    args = [int(haspar), "all"]
    res = ctx.run_harness(binary, "replay", tests, args=args, name=what, timeout=9000)
    ctx.evaluations += int(res["summary"]["tests"]); ctx.traces += int(res["summary"]["tests"])
    ctx.extra["replayed_steps"] = ctx.extra.get("replayed_steps", 0) + int(res["summary"]["steps"])
    for k, v in res["summary"].items():
        if k.startswith("act_") or k.startswith("verdict_"):
            stats[k] += int(v)
    reported = set()
    for m in res["mismatches"] + res["aborts"]:
        case = json.loads(res["lines"][m["index"]])
        why = str(m.get("why", ""))
        if m["kind"] == "abort":
            reason = "abort: " + why
        elif why.startswith("exception"):
            stats["harness_exceptions"] += 1
            stats["first_exception"] = stats.get("first_exception") or ("%s: %s" % (vflib.canon(m.get("action")), why))
            continue
        else:
            diff = json.loads(why)
            prev = case["steps"][m["step"] - 1]["exp"] if m["step"] > 0 else case["init"]
            reason = property_difference(case["steps"][m["step"]], diff, prev)
            if reason is None:
                for k in diff["keys"]:
                    stats["deviation_" + k] += 1
                continue
            reason += " (differing: %s)" % ", ".join(diff["keys"])
        key = "%s:%s" % (what.split("_")[-1], vflib.digest([m.get("action"), reason[:50]]))
        if key in reported or len(reported) >= 6:
            continue
        reported.add(key)
        acts = [s["a"] for s in case["steps"][:m["step"] + 1]]

        def confirm(case=case):
            r2 = ctx.run_harness(binary, "replay", [json.dumps(case)], args=args, nproc=1, name="confirm")
            return bool(r2["mismatches"] or r2["aborts"])
        ctx.violation(key, "TxDownload %s: after %s: %s" % (what, vflib.canon(acts), reason),
                      dict(adapter="txdownload", mode="replay", args=args, case=case, mismatch=m), confirm=confirm)


def interesting(t):
    """a test is non-trivial if a malleated copy is delivered or announced before the genuine transaction is delivered"""
    seen_copy = False
    for s in t["steps"]:
        a = s["a"]
        if a[0] in ("tx", "inv") and str(a[2]) in ("Vbad", "Vbig", "Vstrip", "Wbad", "Wbig", "T", "Vlo", "Vhi"):
            seen_copy = True
        if a[0] == "tx" and a[2] == "G" and seen_copy:
            return True
        if a[0] == "turn" and seen_copy:
            return True
    return False


def run(ctx):
    binary = ctx.build_adapter("txdownload")
    quick = ctx.tier == "quick"
    stats = collections.Counter()
    per_action = collections.Counter()
    if not quick and not os.environ.get("C64_SKIP_MC"):
        for mc in ("MC_U1.cfg", "MC_U2.cfg"):
            ctx.tlc("TxDownload", "TxDownload", mc, timeout=2400)
        ctx.tlc("TxDownload", "TxDownloadOrphan", "MC_U3.cfg", timeout=2400)
    # ---- all TLC runs at once (one worker each; the machine is shared), then the replays
    e1 = (("E1_U1.cfg", 0, "TxDownload"), ("E1_U2.cfg", 1, "TxDownload"), ("E1_U3.cfg", 2, "TxDownloadOrphan")) if quick else \
         (("E1_U1_deep.cfg", 0, "TxDownload"), ("E1_U2_deep.cfg", 1, "TxDownload"), ("E1_U3_deep.cfg", 2, "TxDownloadOrphan"))
    sims = (("Sim_U1.cfg", 0, 25 if quick else 600), ("Sim_U2.cfg", 1, 35 if quick else 900))
    jobs = {}
    with concurrent.futures.ThreadPoolExecutor(max_workers=4) as ex:
        for cfg, haspar, module in e1:
            jobs[cfg] = ex.submit(ctx.tlc, "TxDownload", module, cfg, name=cfg[:-4], timeout=2400, workers=1 if quick else 4)
        for cfg, haspar, num in sims:
            jobs[cfg] = ex.submit(ctx.tlc, "TxDownload", "TxDownload", cfg, simulate=(num, 12), name=cfg[:-4], timeout=2400)
    # ---- E1: every transition of the bounded graphs
    for cfg, haspar, module in e1:
        r = jobs[cfg].result()
        g = vflib.Graph(vflib.load_emitted(r.emit_path))
        tests = list(g.edge_tests())
        if len(tests) != g.nedges:
            raise vflib.InfraError("%s: %d tests for %d edges (unreachable edges?)" % (cfg, len(tests), g.nedges))
        for t in tests:
            per_action[t["steps"][-1]["a"][0]] += 1
            if interesting(t):
                ctx.nontrivial.add(vflib.digest([s["a"] for s in t["steps"]]))
        ctx.sample(dict(universe=cfg, actions=[s["a"] for s in tests[len(tests) // 2]["steps"]], results=[s["r"] for s in tests[len(tests) // 2]["steps"]]))
        ctx.log("%s: %d states, %d transitions" % (cfg, len(g.nodes), g.nedges))
        run_set(ctx, binary, tests, cfg[:-4], haspar, stats)
    # ---- E2: longer simulated behaviours, with candidate successors of the visited states
    for cfg, haspar, num in sims:
        r = jobs[cfg].result()
        beh, fans = vflib.sim_behaviours(r.emit_path, with_fans=True)
        if len(beh) < num // 2:
            raise vflib.InfraError("%s: only %d behaviours" % (cfg, len(beh)))
        # the fans repeat the prefix of their behaviour: keep the behaviours and a seeded share of the fans
        keep = [t for i, t in enumerate(fans) if (i * 2654435761 + ctx.seed) % (10 if quick else 12) == 0]
        tests = beh + keep
        for t in tests:
            per_action[t["steps"][-1]["a"][0]] += 1
            if interesting(t):
                ctx.nontrivial.add(vflib.digest([s["a"] for s in t["steps"]]))
        ctx.sample(dict(universe=cfg, actions=[s["a"] for s in beh[0]["steps"]]))
        ctx.log("%s: %d behaviours + %d candidate-successor tests" % (cfg, len(beh), len(keep)))
        run_set(ctx, binary, tests, cfg[:-4], haspar, stats)
    if not ctx.violations:
        missing = [a for a in ACTIONS if not per_action[a]]
        if missing:
            raise vflib.InfraError("vacuity: actions never taken: %s" % missing)
        for v in ("ok", "missing", "script", "witmut", "stripped", "conflict", "known"):
            if not stats["verdict_" + v]:
                raise vflib.InfraError("vacuity: the real mempool never returned verdict class %s (%s)" % (v, dict(stats)))
    if stats["harness_exceptions"] and not ctx.violations:
        raise vflib.InfraError("adapter exceptions: %d, first: %s" % (stats["harness_exceptions"], stats["first_exception"]))
    ctx.extra["bookkeeping_deviations"] = {k[10:]: v for k, v in stats.items() if k.startswith("deviation_")}
    ctx.extra["replayed_per_action_and_verdict"] = {k: v for k, v in stats.items() if k.startswith("act_") or k.startswith("verdict_")}
    ctx.assumptions += ["universe: one genuine transaction, three malleated copies, optionally one unconfirmed parent; two wtxid-relay peers",
                        "the adapter's glue around TxDownloadManagerImpl mirrors net_processing.cpp (tx branch, ProcessOrphanTx, validation callbacks)",
                        "rolling bloom filters are treated as exact sets (false positives 1e-6 are outside the model)"]
    return ctx.finish(level="model_checking", exhaustive=True,
                      rule="E1: one implementation test per transition of the bounded state graphs (BFS path + edge); E2: TLC -simulate behaviours of 12 actions "
                           "plus candidate successors of the visited states; non-trivial = tests in which a malleated copy is announced or delivered before "
                           "the genuine transaction is delivered")
