"""C20 — a UTXO snapshot is used only if it matches its commitment (specs/Snapshot, engines E4 + E1 on a small state model)."""
import collections, json, os
import vflib

META = dict(
    engine="E4",
    level="model_checking",
    text="The snapshot file (magic, version, network magic, base block, declared count, coins grouped per txid) and the activation protocol are "
         "specified in TLA+ twice: procedurally (loadtxoutset's metadata parser, the checks of ActivateSnapshot and the coins_left loop of "
         "PopulateAndValidateSnapshot in code order) and declaratively (the statement: well formed, the loaded set is the committed one, base is an "
         "assumeutxo block on the best valid header chain with more work than the tip, no snapshot yet, empty mempool). TLC enumerates a table of "
         "~115 mutated files (every metadata field, every coin field of the first/middle/last record, added/removed/repeated coins, count fields off "
         "by one, truncation at every element, trailing bytes) x node states (headers missing / forked / invalidated, tip below / at / above the base, "
         "mempool, existing snapshot) and proves activate => all conditions, refusal => nothing changes, validated => the set validated from genesis is "
         "the committed one. Every transition is replayed on a real regtest node: the genuine snapshot comes from CreateUTXOSnapshot on the "
         "deterministic chain whose commitment is in the chain parameters, each abstract file is concretised into real bytes, loadtxoutset's steps are "
         "executed, and success/failure, identity/tip/coins of the existing chainstate, the coins of the snapshot chainstate and the outcome of "
         "background validation (incl. coin sets tampered with as the unit tests do) are compared. Random bit flips, truncations, deletions and appended "
         "bytes are classified by an independent decoder of the format and must be refused unless the decoded coin set is the original. "
         "Process death: a second TLA+ module spells ActivateSnapshot out as its separate steps with a Crash action between them and a Restart that follows "
         "LoadAssumeutxoChainstate (adopt iff the base_blockhash marker exists); TLC proves that the node never runs on, and background validation never blesses, "
         "a snapshot chainstate whose coins were not compared equal to the commitment, and re-derives the counterexample for the order 'marker first'; the harness "
         "kills a forked on-disk node at every observable step boundary and restarts a node on the files left behind.",
    note="SAFE mode: a refusal of something the specification would accept is counted (diverged_conservative), not reported. One base (height 200 of the "
         "deterministic chain; the entries at 110 and 299 serve as 'assumeutxo hash whose header is unknown'). The coin codec (VARINT, amount and script "
         "compression) is the library's on both sides (property C18); HASH_SERIALIZED is treated as injective. Crash points are the step boundaries that emit a log "
         "line (process kill, not power loss); with 200 coins there is no intermediate flush during the load. Re-activation over a leftover, marker-less snapshot "
         "directory is not covered.",
    technique="TLA+ spec Snapshot (procedural loader = declarative statement on a mutation table, TLC) + table/graph replay on a real ChainstateManager + decoder-classified byte damage",
)

CLASS_ROWS = dict(same="genuine", coinset_differs="s1_amt_plus1", meta_truncated="meta_truncated", meta_magic="magic", meta_version="ver3",
                  meta_net="net_unknown", meta_base="base_unknown", meta_count="declared_minus1", truncated="s2_cut_coin",
                  malformed="s1_count_noncanonical", trailing="trailing_byte")


def crash_section(ctx, binary, edges):
    """Process death between the steps of ActivateSnapshot, restart on the files left behind (specs/Snapshot/SnapshotCrash.tla)."""
    files = {e["a"][1]: e["a"][2] for e in edges if e["a"][0] == "activate"}
    r = ctx.tlc("Snapshot", "SnapshotCrash", "Crash_real.cfg" if ctx.tier == "quick" else "Crash_real_thorough.cfg", name="crash")
    # the order "marker first" must break the invariant: re-derive the counterexample (a negative test of the model itself)
    rr = ctx.tlc("Snapshot", "SnapshotCrash", "Crash_markerfirst.cfg", name="crash_markerfirst", expect_violation=True, emit=False)
    if rr.violated != "RunsOnlyOnCompared":
        raise vflib.InfraError("writing the marker before the comparison should violate RunsOnlyOnCompared in the model, got %s" % rr.violated)
    ctx.extra["crash_counterexample_rederived"] = "marker-first order violates RunsOnlyOnCompared"
    ce = vflib.load_emitted(r.emit_path)
    out = collections.defaultdict(list)
    for e in ce:
        out[vflib.canon(e["f"])].append(e)
    tests = []
    for e in ce:
        if e["a"][0] != "crash":
            continue
        if ctx.tier == "quick" and not e["f"]["blocks"] and e["a"][1] not in ("flushed", "added", "done"):
            continue          # quick: the headers-only node only where it differs (marker present before the faked flags are on disk)
        rs = [x for x in out[vflib.canon(e["t"])] if x["a"][0] == "restart"]
        if len(rs) != 1:
            raise vflib.InfraError("crash state without a unique restart")
        t = rs[0]["t"]
        bg = [x for x in out[vflib.canon(t)] if x["a"][0] == "bgcomplete"]
        tests.append(dict(file=e["f"]["file"], F=files[e["f"]["file"]], blocks=e["f"]["blocks"], point=e["a"][1],
                          exp=dict(started=t["started"], final=(bg[0]["t"]["snap"] if bg else t["snap"]), dir=t["dir"], marker=t["marker"], coins=t["coins"])))
    points = collections.Counter((t["point"], t["exp"]["started"]) for t in tests)
    for need in (("flushed", "single"), ("added", "adopted"), ("done", "adopted"), ("cleanup", "single"), ("added", "refused")):
        if not points[need]:
            raise vflib.InfraError("vacuity: no crash test %s -> %s" % need)
    res = ctx.run_harness(binary, "crash", tests, name="crash")
    fatal = [i for i in res["infos"] if "fatal" in i]
    if fatal:
        raise vflib.InfraError("snapshot adapter (crash): %s" % fatal[0]["fatal"])
    s = res["summary"]
    ctx.evaluations += int(s["steps"]); ctx.traces += int(s["tests"])
    for t in tests:
        ctx.nontrivial.add("crash:" + vflib.digest([t["file"], t["blocks"], t["point"]]))
    ctx.extra["crash_restart"] = dict(tests=len(tests), crashes=int(s.get("crashes", 0)), not_reached=int(s.get("crashpoint_not_reached", 0)),
                                      adopted=int(s.get("restart_adopted", 0)), single=int(s.get("restart_single", 0)), refused=int(s.get("restart_refused", 0)),
                                      conservative=int(s.get("diverged_conservative", 0)), restart_result_deviations=int(s.get("restart_result_deviations", 0)),
                                      leftover_deviations=int(s.get("leftover_deviations", 0)))
    if int(s.get("crashes", 0)) < len(tests) * 3 // 4 and not res["mismatches"] and not res["aborts"]:
        raise vflib.InfraError("most crash points were not reached: %s" % dict(s))
    if not s.get("restart_adopted") and not res["mismatches"] and not res["aborts"]:
        raise vflib.InfraError("vacuity: no restart adopted a snapshot chainstate")
    vflib.report_mismatches(ctx, binary, "crash", res, adapter="snapshot", what_prefix="Snapshot crash/restart: ",
                            key_fn=lambda m, case: "crash:" + vflib.digest([m.get("action"), (m.get("why") or "")[:60]]))


def run(ctx):
    binary = ctx.build_adapter("snapshot")
    cfg = "MC_quick.cfg" if ctx.tier == "quick" else "MC_thorough.cfg"
    r = ctx.tlc("Snapshot", "Snapshot", cfg)
    edges = vflib.load_emitted(r.emit_path)
    per_action = collections.Counter(e["a"][0] for e in edges)
    for a in ("activate", "tamper", "bgsync"):
        if not per_action[a]:
            raise vflib.InfraError("vacuity: action %s never taken" % a)
    verdicts = collections.Counter()
    files = {}
    for e in edges:
        if e["a"][0] == "activate":
            verdicts[(e["r"]["ok"], e["r"]["may"])] += 1
            files.setdefault(e["a"][1], collections.Counter())[e["r"]["why"]] += 1
    if not verdicts[(True, True)] or not verdicts[(False, False)] or not verdicts[(False, True)]:
        raise vflib.InfraError("vacuity: expected accepted, refused and refused-but-admissible rows, got %s" % dict(verdicts))
    reasons = collections.Counter()
    for c in files.values():
        reasons.update(c)
    for w in ("metadata", "already", "not-assumeutxo", "no-header", "invalid-chain", "forked-headers", "mempool", "work", "eof", "count-mismatch",
              "desync", "format", "bad-data", "bad-amount", "leftover", "hash", "ok"):
        if not reasons[w]:
            raise vflib.InfraError("vacuity: no row with predicted outcome " + w)
    ctx.extra["files_in_table"] = len(files)
    ctx.extra["rows_per_predicted_outcome"] = dict(reasons)
    ctx.extra["transitions_per_action"] = dict(per_action)

    g = vflib.Graph(edges)
    tests = list(g.path_cover())
    # long chains of refused activations on one node are cheap but serial: split them so that the shards are balanced
    split = []
    for t in tests:
        steps = t["steps"]
        k = 0
        while k < len(steps) and steps[k]["a"][0] == "activate" and not steps[k]["r"]["ok"]:
            k += 1
        CH = 40
        if k > CH:
            for i in range(0, k, CH):
                split.append(dict(init=t["init"], steps=steps[i:i + CH] + (steps[k:] if i + CH >= k else [])))
        else:
            split.append(t)
    tests = split
    covered = set()
    for t in tests:
        st = t["init"]
        for s in t["steps"]:
            covered.add(vflib.canon([st, s["a"][:2], s["exp"]])); st = s["exp"]
            if s["a"][0] == "activate" and s["a"][1] != "genuine":
                ctx.nontrivial.add(vflib.digest([t["init"], s["a"][1]]))
    if len(covered) < g.nedges:
        raise vflib.InfraError("path cover lost transitions: %d of %d" % (len(covered), g.nedges))
    ctx.log("%d states, %d transitions -> %d node behaviours, %d steps" % (len(g.nodes), g.nedges, len(tests), sum(len(t["steps"]) for t in tests)))
    mid = max(tests, key=lambda t: len([s for s in t["steps"] if s["a"][0] != "activate"]))
    ctx.sample(dict(node=mid["init"], actions=[s["a"][:2] for s in mid["steps"]][:12], predicted=[s["r"] for s in mid["steps"]][:12]))
    tests.sort(key=lambda t: -len(t["steps"]))
    res = ctx.run_harness(binary, "replay", tests, name="replay")
    fatal = [i for i in res["infos"] if "fatal" in i]
    if fatal:
        raise vflib.InfraError("snapshot adapter: %s" % fatal[0]["fatal"])
    ctx.evaluations += int(res["summary"]["steps"]); ctx.traces += int(res["summary"]["tests"])
    s = res["summary"]
    ctx.extra.update(activations_accepted=int(s.get("activations_accepted", 0)), activations_refused=int(s.get("activations_refused", 0)),
                     diverged_conservative=int(s.get("diverged_conservative", 0)), accepted_other_reading=int(s.get("accepted_other_reading", 0)),
                     completions_validated=int(s.get("completions_validated", 0)), completions_invalid=int(s.get("completions_invalid", 0)))
    cons = [i for i in res["infos"] if "conservative" in i]
    if cons:
        ctx.extra["conservative_examples"] = cons[:5]
    if not s.get("activations_accepted") or not s.get("completions_validated") or not s.get("completions_invalid"):
        if not res["mismatches"] and not res["aborts"]:
            raise vflib.InfraError("vacuity: the node never accepted / validated / invalidated a snapshot: %s" % dict(s))
    vflib.report_mismatches(ctx, binary, "replay", res, adapter="snapshot", what_prefix="Snapshot: ",
                            key_fn=lambda m, case: "replay:" + vflib.digest([m.get("action"), (m.get("why") or "")[:60]]))

    # byte-level damage, classified by the adapter's own decoder; the verdict of each class is the table's verdict for its representative file
    good = [e for e in edges if e["a"][0] == "activate" and e["f"]["hdr"] == "chain" and e["f"]["failed"] == "no" and e["f"]["pool"] == 0
            and e["f"]["otip"] == 0 and e["f"]["snap"] == "none" and not e["f"]["disk"]]
    may = {}
    for cls, row in CLASS_ROWS.items():
        m = [e["r"]["may"] for e in good if e["a"][1] == row]
        if not m:
            raise vflib.InfraError("no table row %s for damage class %s" % (row, cls))
        may[cls] = bool(m[0])
    if not may["same"] or any(v for k, v in may.items() if k != "same"):
        raise vflib.InfraError("unexpected class verdicts %s" % may)
    cpath = os.path.join(ctx.work, "classes.json")
    json.dump(may, open(cpath, "w"))
    njobs, per = (8, 150) if ctx.tier == "quick" else (32, 1500)
    jobs = [dict(seed=ctx.seed * 1000003 + j, count=per, otip=(0 if j % 2 == 0 else 190), disk=(ctx.tier != "quick" and j % 8 == 7)) for j in range(njobs)]
    fres = ctx.run_harness(binary, "flips", jobs, args=[cpath], name="flips")
    fatal = [i for i in fres["infos"] if "fatal" in i]
    if fatal:
        raise vflib.InfraError("snapshot adapter (flips): %s" % fatal[0]["fatal"])
    fs = fres["summary"]
    ctx.evaluations += int(fs["steps"]); ctx.traces += int(fs["tests"])
    classes = {k[6:]: int(v) for k, v in fs.items() if k.startswith("class_")}
    ctx.extra["byte_damage_per_class"] = classes
    ctx.extra["byte_damage_conservative"] = int(fs.get("diverged_conservative", 0))
    for k, v in classes.items():
        if k != "same":
            ctx.nontrivial.add("flips:" + k)
    for need in ("coinset_differs", "truncated", "trailing", "meta_base", "meta_count"):
        if not classes.get(need) and not fres["mismatches"]:
            raise vflib.InfraError("vacuity: no random damage of class " + need)
    vflib.report_mismatches(ctx, binary, "flips", fres, args=[cpath], adapter="snapshot", what_prefix="Snapshot damage: ",
                            key_fn=lambda m, case: "flips:" + vflib.digest((m.get("why") or "")[:50]))
    crash_section(ctx, binary, edges)
    ctx.assumptions += ["HASH_SERIALIZED is collision free on the files considered (the model's hash is injective)",
                        "a group whose count field disagrees with its records desynchronises the parser; whatever is then parsed is not the committed set",
                        "the coin codec (compressor, VARINT) is the library's on both sides (covered by C18)",
                        "the model distinguishes the first, the last-but-one and the last record of the snapshot; the other records are treated as one untouched block in the table (random damage hits them too)"]
    return ctx.finish(level="model_checking", exhaustive=True,
                      rule="every transition of the bounded Snapshot model (mutation table x node states, then tamper/background-sync/second activation) replayed on a real node, "
                           "plus seeded random byte damage; non-trivial = distinct (node state, mutated file) pairs and damage classes other than the genuine file")
