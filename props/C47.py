"""C47 — PSBTs round-trip, combine and finalize correctly (specs/Psbt, engine E4)."""
import collections, concurrent.futures, json
import vflib

META = dict(
    engine="E4",
    level="model_checking",
    text="specs/Psbt models a PSBT as [version 0/2, fallback locktime, tx-modifiable flags, global fields, inputs [sequence, required time "
         "locktime, required height locktime, fields], outputs [fields]] with fields at the granularity of the serialized key. Four TLC-enumerated "
         "tables: (lock) every combination of none/time/height/both for 0-3 inputs over boundary values (1, 499999999 | 500000000, 2^32-1) x "
         "fallback x sequence pattern, where TLC proves the fold of ComputeTimeLock equal to the declarative BIP370 rule (height preferred, "
         "undetermined on conflicting requirements, fallback otherwise, order of inputs irrelevant); (merge) 14-15 scenarios covering every "
         "field type, each field group assigned to every non-empty set of holders among 2-3 parts, where TLC proves Merge(p,p)=p, commutativity, "
         "associativity, result = union containing every field, on conflict-free operands of one transaction, and predicts CombinePSBTs for every "
         "order; (raw) input maps assembled field by field in orders the serializer never produces; (size) one map entry per variable-length field "
         "class (scripts, witness stack items and item counts, preimages, utxo scripts, tap leaf scripts and control blocks, leaf-hash lists, key paths, "
         "musig participant lists, tap tree leaf scripts and leaf counts, proprietary identifier / key data / value, unknown key / value) at the "
         "compact-size width boundaries 252/253/254 and 65535/65536, whose key, value and entry lengths the specification prescribes and which the "
         "harness writes with its own writer. Every row is replayed on real "
         "PartiallySignedTransaction objects: ComputeTimeLock, GetUnsignedTx, CombinePSBTs in every order, serialize -> DecodeRawPSBT -> serialize "
         "(decoded content equal to the model's record, second encoding byte-identical), and for every determinate lock row one signer per input "
         "(P2WPKH / P2PKH), CombinePSBTs of the signers' copies, FinalizeAndExtractPSBT, txid of the extracted transaction (scriptSigs blanked) = "
         "txid of the unsigned transaction, VerifyScript with the standard flags against the spent outputs.",
    note="Byte-level mutation of encodings is out of scope (codec fidelity): the decoder is only fed encodings of structured PSBTs, including "
         "field orders and field combinations the serializer itself never emits. Locktime values outside BIP370's ranges (height 0 or >= 500000000, "
         "time < 500000000) are rejected by the decoder and not part of the table. The extracted transaction's txid equals the unsigned "
         "transaction's only when no input has a scriptSig; otherwise equality is checked after blanking the scriptSigs. "
         "Four deviations of the code from the statement are reported under stable keys (see known_findings): Merge never copies "
         "PSBT_IN_SIGHASH_TYPE; Merge drops the second control block of one tap leaf script; CombinePSBTs is order dependent when merged required "
         "locktimes flip the computed locktime; re-encoding a finalized input drops its signer/updater fields.",
    technique="TLA+ operators (procedural fold = declarative BIP370 rule; Merge algebra) checked by TLC; TLC-enumerated oracle tables replayed on "
              "PartiallySignedTransaction / CombinePSBTs / SignPSBTInput / FinalizeAndExtractPSBT",
)

FINDING_KEYS = ("merge-drops-sighash-type", "merge-drops-tapleaf-control-block", "combine-order-dependent-locktime-flip",
                "reencode-drops-fields-of-finalized-input")


def enumerate_tables(ctx):
    """One TLC process per table, run concurrently (the JVM start dominates small tables); the merge table gets the spare workers."""
    sfx = "quick" if ctx.tier == "quick" else "thorough"
    spare = max(1, vflib.free_cpus() - 2)
    jobs = [("PsbtMerge", "MC_merge_%s.cfg" % sfx, spare), ("PsbtLock", "MC_lock_%s.cfg" % sfx, 1), ("PsbtRaw", "MC_raw_%s.cfg" % sfx, 1),
            ("PsbtSize", "MC_size_%s.cfg" % sfx, 1)]

    def one(job):
        module, cfg, workers = job
        return module, ctx.tlc("Psbt", module, cfg, workers=workers, xmx="4g", timeout=2700)
    with concurrent.futures.ThreadPoolExecutor(len(jobs)) as ex:
        results = list(ex.map(one, jobs))
    rows = []
    for module, r in results:
        got = [json.loads(l) for l in open(r.emit_path)]
        if not got:
            raise vflib.InfraError("TLC emitted no row for %s (%s)" % (module, r.log_path))
        rows += got
    return rows


def vacuity(rows):
    by_t = collections.Counter(r["t"] for r in rows)
    for t in ("lock", "merge", "raw", "size"):
        if not by_t[t]:
            raise vflib.InfraError("vacuity: no %s row" % t)
    lock = [r for r in rows if r["t"] == "lock"]
    kinds = collections.Counter()
    for r in lock:
        v = r["lock"]["v"]
        reqs = [i for i in r["p"]["ins"] if i["t"] != "none" or i["h"] != "none"]
        if r["p"]["ver"] == 0:
            kinds["v0"] += 1
        elif not r["lock"]["ok"]:
            kinds["undetermined"] += 1
        elif not reqs:
            kinds["fallback"] += 1
        elif int(v) < 500000000:
            kinds["height"] += 1
        else:
            kinds["time"] += 1
    for k in ("v0", "undetermined", "fallback", "height", "time"):
        if not kinds[k]:
            raise vflib.InfraError("vacuity: no lock row of kind " + k)
    merge = [r for r in rows if r["t"] == "merge"]
    scen = collections.Counter(r["sc"] for r in merge)
    if len(scen) < 14:
        raise vflib.InfraError("vacuity: merge scenarios missing: %s" % sorted(scen))
    oks = collections.Counter(ok for r in merge for ok in r["ok"])
    if not oks[True] or not oks[False]:
        raise vflib.InfraError("vacuity: merge rows lack a succeeding or a failing order")
    if not any(r["flip"] for r in merge) or not any(r["alt"] for r in merge):
        raise vflib.InfraError("vacuity: no order-dependent / different-transaction merge row")
    raw = [r for r in rows if r["t"] == "raw"]
    if not any(r["drops"] for r in raw) or not any(not r["drops"] for r in raw):
        raise vflib.InfraError("vacuity: raw rows lack a dropping or a non-dropping case")
    size = [r for r in rows if r["t"] == "size"]
    size_classes = collections.Counter(r["sc"] + "." + r["cls"] for r in size)
    widths = collections.Counter((1 if x < 253 else 3 if x <= 65535 else 5) for r in size for x in (r["keylen"], r["vallen"]))
    if len(size_classes) < 38 or not (widths[1] and widths[3] and widths[5]):
        raise vflib.InfraError("vacuity: size rows cover %d classes, prefix widths %s" % (len(size_classes), dict(widths)))
    return dict(size_rows_by_class=dict(size_classes), lock_rows_by_kind=dict(kinds), merge_rows_by_scenario={str(k): v for k, v in sorted(scen.items())},
                combine_orders_predicted=dict(succeed=oks[True], fail=oks[False]), rows_by_table=dict(by_t))


def nontrivial(r):
    if r["t"] == "lock":
        return any(i["t"] != "none" or i["h"] != "none" for i in r["p"]["ins"])
    if r["t"] == "merge":
        return True
    if r["t"] == "size":
        return max(r["keylen"], r["vallen"]) >= 253
    return len(r["p"]["ins"][0]["f"]) >= 2


def report_findings(ctx, res):
    """Deviations of the code from the statement that the specification itself predicts (the harness prints them as `finding`
    lines after confirming them on the real classes): one report per key; listed keys print KNOWN-FINDING."""
    counts = {k: int(res["summary"].get("finding:" + k, 0)) for k in FINDING_KEYS}
    ctx.extra["statement_deviations_confirmed_rows"] = counts
    first = {}
    for o in res["infos"]:
        if o.get("kind") == "finding":
            first.setdefault(o["key"], o)
    for k, n in counts.items():
        if n and k in first:
            o = first[k]
            ctx.violation(k, "%s (%d rows)" % (o["what"], n), dict(adapter="psbt", mode="table", args=[str(ctx.seed)], case=o["row"], finding=k))
    unknown = [k[8:] for k in res["summary"] if k.startswith("finding:") and k[8:] not in FINDING_KEYS]
    if unknown:
        raise vflib.InfraError("harness reported unlisted finding keys: %s" % unknown)


def run(ctx):
    binary = ctx.build_adapter("psbt")
    rows = enumerate_tables(ctx)
    ctx.extra.update(vacuity(rows))
    res = ctx.run_harness(binary, "table", rows, args=[str(ctx.seed)])
    s = res["summary"]
    ctx.evaluations = int(s["tests"])
    ctx.traces = (int(s.get("combines", 0)) + int(s.get("self_merges", 0)) + int(s.get("roundtrips", 0)) + int(s.get("raw_roundtrips", 0)) +
                  int(s.get("size_roundtrips", 0)) + int(s.get("extracted", 0)))
    ctx.nontrivial = set(vflib.digest(r) for r in rows if nontrivial(r))
    ctx.extra["implementation_calls"] = {k: int(v) for k, v in s.items() if k in (
        "combines", "self_merges", "roundtrips", "raw_roundtrips", "size_roundtrips", "extracted", "extracted_all_segwit", "lock_determinate", "lock_undetermined",
        "self_merge_of_undetermined_fails", "self_merge_of_undetermined_succeeds")}
    for t in ("lock", "merge", "raw", "size"):
        ctx.sample(next(r for r in rows if r["t"] == t and nontrivial(r)))
    vflib.report_mismatches(ctx, binary, "table", res, args=[str(ctx.seed)], adapter="psbt", what_prefix="Psbt: ",
                            key_fn=lambda m, case: "row:" + vflib.digest(m.get("why")))
    report_findings(ctx, res)
    # vacuity of the replay (only meaningful when every row ran to its end)
    if not ctx.violations and (not s.get("extracted") or not s.get("extracted_all_segwit") or not s.get("combines") or not s.get("roundtrips") or not s.get("size_roundtrips")):
        raise vflib.InfraError("vacuity: the harness extracted / combined / round-tripped nothing: %s" % dict(s))
    ctx.assumptions += ["values between the enumerated boundaries behave like their neighbours",
                        "fields are exercised through one or two representatives of every PSBT key type; byte-level mutations of encodings are out of scope"]
    return ctx.finish(level="model_checking", exhaustive=True,
                      rule="every row of the four bounded tables (locktime shapes; field-group-to-holder assignments of every scenario in every "
                           "order; assembled input maps; framed entries at the length-prefix boundaries); non-trivial = lock rows with a required "
                           "locktime, all merge rows, raw rows with >= 2 fields, size rows with a key or value of >= 253 bytes")


def replay(ctx, path):
    """./check C47 --replay <file>: re-run one stored row (mismatch or finding) against the current tree."""
    o = json.load(open(path))
    binary = ctx.build_adapter("psbt")
    r = ctx.run_harness(binary, "table", [json.dumps(o["case"])], args=o.get("args", ["1"]), nproc=1, name="replay")
    bad = r["mismatches"] + r["aborts"] + [i for i in r["infos"] if i.get("kind") == "finding"]
    for m in bad:
        print("REPLAY %s: %s" % (m.get("kind"), (m.get("why") or m.get("what") or "")[:1500]))
    print("REPLAY result: %s" % ("still fails" if bad else "passes"))
    return 1 if bad else 0
