"""C01 — no coins are created beyond the subsidy schedule (specs/UtxoChain, engine E1 on a real node)."""
import os, sys
sys.path.insert(0, os.path.dirname(os.path.abspath(__file__)))
import vflib, _utxochain

META = dict(
    engine="E1",
    level="model_checking",
    text="UtxoChain carries every value as k*subsidy + s satoshi; blocks claim nothing, exactly subsidy+fees, or one satoshi more; the universe "
         "contains a transaction creating one satoshi. TLC proves on the bounded model: coinbase <= subsidy + fees for every connected block, "
         "in >= out for every connected transaction (ActiveChainValid) and total UTXO value <= base value + one subsidy per new block (NoInflation). "
         "Every transition is replayed on a real regtest node; UTXO values are read back and, where the node deviates from the prediction, TLC "
         "evaluates validity, utxo = replay and the supply bound on the observed state.",
    note="Bounded: <= 3 new blocks; amounts at the satoshi boundary of the coinbase limit and of in >= out. 64-bit range checks of CheckTxInputs "
         "(inputvalues-outofrange, accumulated-fee-outofrange) cannot be reached by a valid regtest history and are not covered here (C03 covers output ranges; C31 the schedule).",
    technique="TLA+ spec UtxoChain + TLC exhaustive; path cover replayed on a real node; supply/validity invariants evaluated by TLC on observed states",
)
RELEVANT = {"ObsChainValid", "ObsUtxoIsReplay", "ObsNoInflation"}


def run(ctx):
    binary = ctx.build_adapter("utxochain")
    nontrivial = lambda p: any(s["a"][0] == "mine" and (s["a"][3] != "zero" or 6 in s["a"][2]) for s in p["steps"])
    name = "c01q" if ctx.tier == "quick" else "spend3"
    pa, pr = _utxochain.run_scenario(ctx, binary, "MC_spend", "MCO_spend", name, RELEVANT, nontrivial)
    _utxochain.need(pr, ["connected", "bad-cb-amount", "bad-txns-in-belowout"], "C01")
    ctx.assumptions += ["bounded scenario: base chain of 101 blocks with two 1000-satoshi coins, <= 3 new blocks, coinbase modes zero / exact limit / limit + 1 sat"]
    return ctx.finish(level="model_checking", exhaustive=True,
                      rule="path cover of every transition of the bounded UtxoChain graph; non-trivial = distinct paths with a claiming coinbase or the money-creating transaction")
