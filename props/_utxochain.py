"""Shared driver for the UtxoChain specification (C01, C02, C05, C09): TLC model checking of the bounded scenario, exhaustive
graph replay on a real regtest node (real signed transactions, real mined blocks) through a path cover, and the INV-mode
verdict rule: where the node differs from the deterministic prediction, TLC evaluates the properties on the observed state
(module UtxoChainObs)."""
import collections, json, os, re
import vflib


def norm_obs(o):
    return dict(tip=o["tip"], stored=sorted(o["stored"]), failed=sorted(o["failed"]),
                utxo=sorted(o["utxo"], key=lambda c: (c["t"], c["i"])))


def world_after(case, upto):
    w0 = case["init"]["world"]
    # TLC prints a function over 0..MaxBlocks as an object with keys "0", "1", ...: turn it into a list (index = block id)
    blk = w0["blk"]
    if isinstance(blk, dict):
        blk = [blk[str(i)] for i in range(len(blk))]
    w = dict(n=w0["n"], blk=json.loads(json.dumps(blk)))
    for s in case["steps"][:upto]:
        a = s["a"]
        if a[0] == "mine":
            w["n"] += 1
            w["blk"][w["n"]] = dict(parent=a[1], txs=a[2], cb=a[3], dt=a[4])
    return w


def anc(blk, b):
    out = set()
    while b != 0:
        out.add(b); b = blk[b]["parent"]
    return out


def manual_inv(case, upto):
    """blocks under a manual invalidation after the first `upto` steps"""
    w = world_after(case, upto)
    inv = set()
    for s in case["steps"][:upto]:
        a = s["a"]
        if a[0] == "invalidate":
            inv.add(a[1])
        elif a[0] == "reconsider":
            b = a[1]
            inv = {x for x in inv if not (x in anc(w["blk"], b) or b in anc(w["blk"], x))}
    return sorted(inv)


def check_deviations(ctx, res, obs_module, obs_cfg, relevant):
    devs = res["deviations"]
    ctx.extra["deviations_from_prediction"] = ctx.extra.get("deviations_from_prediction", 0) + int(res["summary"].get("deviations", 0))
    if not devs:
        return
    lines = {}
    for d in devs:
        case = json.loads(res["lines"][d["index"]])
        k = d["step"]
        line = dict(world=world_after(case, k + 1), act=d["action"], exp=case["steps"][k]["exp"]["obs"], post=d["state"]["obs"],
                    inv=manual_inv(case, k + 1))
        lines.setdefault(vflib.canon(line), (line, d, case))
    keys = list(lines)
    bad = 0
    for i, inv in vflib.judge(ctx, "UtxoChain", obs_module, obs_cfg, [lines[k][0] for k in keys], invariants=sorted(relevant)):
        line, d, case = lines[keys[i]]
        ctx.violation("obs:%s:%s" % (inv, vflib.digest([d["action"], line["post"]["tip"], line["post"]["utxo"]])),
                      "node state after %s breaks %s: observed tip=%s utxo=%s (prediction differed: %s)" % (
                          vflib.canon(d["action"]), inv, line["post"]["tip"],
                          vflib.canon([[c["t"], c["i"]] for c in line["post"]["utxo"]]), d["why"]),
                      dict(adapter="utxochain", mode="replay", args=res.get("args", []), case=case, mismatch=d, invariant=inv))
        bad += 1
    ctx.extra["benign_deviation_states"] = ctx.extra.get("benign_deviation_states", 0) + len(keys) - bad


def run_scenario(ctx, binary, mc_module, obs_module, name, relevant, nontrivial, simulate=None, use_fork=False, extra_args=(), model_check=True, tag=""):
    """name: cfg stem (MC_<name>.cfg, E1_<name>.cfg, Obs_<name>.cfg). simulate=(num, depth) switches E1 to E2 sampling."""
    cache = getattr(ctx, "_scenario_cache", None)
    if cache is None:
        cache = ctx._scenario_cache = {}
    if name in cache:
        upath, paths, per_action, per_result = cache[name]
    else:
        if model_check and not simulate:
            ctx.tlc("UtxoChain", mc_module, "MC_%s.cfg" % name, name="MC_" + name)
        r = ctx.tlc("UtxoChain", mc_module, "E1_%s.cfg" % name, name="E1_" + name, simulate=simulate)
        recs = vflib.load_emitted(r.emit_path)
        uni = [x for x in recs if "universe" in x]
        edges = [x for x in recs if "universe" not in x]
        if not uni:
            raise vflib.InfraError("specification did not print its universe")
        upath = os.path.join(ctx.work, "universe_%s.json" % name)
        json.dump(uni[0], open(upath, "w"))
        per_action = collections.Counter(); per_result = collections.Counter()
        for e in edges:
            per_action[e["a"][0]] += 1
            if e["a"][0] == "mine":
                per_result[e["r"][0]] += 1
        if simulate:
            tmp = os.path.join(ctx.work, "sim_%s.ndjson" % name)
            with open(tmp, "w") as f:
                for e in edges:
                    f.write(json.dumps(e) + "\n")
            paths = list(vflib.sim_behaviours(tmp))
            nstates = 0
        else:
            g = vflib.Graph(edges)
            paths = list(g.path_cover())
            nstates = len(g.nodes)
            ctx.extra["model_transitions_covered"] = ctx.extra.get("model_transitions_covered", 0) + g.nedges
        for p in paths:
            p["init"] = {"world": p["init"]["world"], "obs": norm_obs(p["init"]["obs"])}
            for s in p["steps"]:
                s["exp"] = {"obs": norm_obs(s["exp"]["obs"])}
            if nontrivial(p):
                ctx.nontrivial.add(vflib.digest([s["a"] for s in p["steps"]]))
        ctx.log("%s: %d states, %d transitions -> %d paths, %d steps" % (name, nstates, len(edges), len(paths), sum(len(p["steps"]) for p in paths)))
        # every path needs its own node: above the cap a seeded sample of the path cover is replayed (TLC's check stays exhaustive)
        cap = int(os.environ.get("VERIF_MAX_PATHS", "24000" if ctx.tier == "thorough" else "1000000000"))
        if len(paths) > cap:
            import random
            keep = sorted(random.Random(ctx.seed).sample(range(len(paths)), cap))
            ctx.extra.setdefault("replay_sampled", {})[name] = dict(paths_in_cover=len(paths), paths_replayed=cap)
            ctx.assumptions.append("scenario %s: %d of the %d paths of the transition cover replayed (seeded sample)" % (name, cap, len(paths)))
            paths = [paths[i] for i in keep]
        if paths:
            mid = paths[len(paths) // 2]
            ctx.sample(dict(scenario=name, actions=[s["a"] for s in mid["steps"]], expected_results=[s["r"] for s in mid["steps"]],
                            expected_final_tip=mid["steps"][-1]["exp"]["obs"]["tip"]))
        cache[name] = (upath, paths, per_action, per_result)
    args = [upath] + (["fork"] if use_fork else ["nofork"]) + list(extra_args)
    res = ctx.run_harness(binary, "replay", paths, args=args, name="E1_" + name + tag)
    res["args"] = args
    ctx.evaluations += int(res["summary"]["tests"]); ctx.traces += int(res["summary"]["tests"])
    ctx.extra["replayed_steps"] = ctx.extra.get("replayed_steps", 0) + int(res["summary"]["steps"])
    vflib.report_mismatches(ctx, binary, "replay", res, args=args, adapter="utxochain", what_prefix="UtxoChain %s: " % name)
    check_deviations(ctx, res, obs_module, "Obs_%s.cfg" % name, relevant)
    ctx.extra.setdefault("mined_blocks_per_predicted_verdict", {}).update({name: dict(per_result)})
    return per_action, per_result


def need(per_result, verdicts, name):
    missing = [v for v in verdicts if not per_result.get(v)]
    if missing:
        raise vflib.InfraError("vacuity (%s): predicted verdicts never occur in the bounded model: %s" % (name, missing))
