"""C55 — saving and reloading the mempool preserves it (specs/Mempool, engine E1 on real nodes)."""
import json, os, sys
sys.path.insert(0, os.path.dirname(os.path.abspath(__file__)))
import vflib, _mempool

META = dict(
    engine="E1",
    level="model_checking",
    text="Mempool (see C22) with entry times, prioritisation of absent transactions, the unbroadcast set (AddUnbroadcastTx) and the actions Dump "
         "(DumpMempool: entries parents first with time and fee delta, stray prioritisations, unbroadcast set) and Load(cut, existing): a second "
         "node on the same chain, possibly already holding transactions, runs LoadMempool on the file - undamaged, truncated at a record boundary, "
         "inside a record (transaction / time / fee delta), inside the header, the prioritisation map or the unbroadcast set, or with a damaged "
         "version / obfuscation key / count field. The model follows LoadMempool record by record (PrioritiseTransaction, the expiry test, "
         "AcceptToMemoryPool with the saved time, LimitMempoolSize). TLC proves on the bounded model: after an undamaged load every saved entry "
         "in the pool has its saved time, fee delta and unbroadcast mark, no unexpired saved entry that Submit would accept is missing, stray "
         "prioritisations are restored; a truncated file is reported as failed; after any damaged load the existing entries are still there and "
         "what was added is accepted by Submit in saved order. Every transition is replayed on real nodes with mock time (DumpMempool on the first, "
         "LoadMempool on a fresh second node fed with the same blocks; byte offsets of the cuts come from walking the real file); pool, entry "
         "times, modified fees, prioritisations and unbroadcast set are compared. Seeded random byte flips of real dumps are loaded too and "
         "judged by TLC on the observed result.",
    note="INV / relation mode: where the node deviates from the prediction TLC evaluates the clauses on the observed load. 'In saved order' is "
         "observed as: the file lists parents before children and holds exactly the saved pool. Bounded: 6-transaction universe, one dump and one "
         "load per history, clock jumps of 100 s and expiry - 100 s; the mempool never reaches its size limit.",
    technique="TLA+ spec Mempool + TLC exhaustive; path cover replayed on real nodes; load clauses evaluated by TLC on observed loads",
)


def replay(ctx, path):
    return _mempool.replay(ctx, path)


def fuzz_loads(ctx, binary, st, uni, cfg, n_tests, seeds):
    """Random byte flips (quantifier of the property): histories of the model up to a dump, then the real file with seeded flips loaded
    by a fresh node; TLC judges existing-entries-kept / only-acceptable-added on what the node did."""
    tests, seen = [], set()
    for p in st["paths"]:
        for k, s in enumerate(p["steps"]):
            if s["a"][0] == "load" and k > 0:
                pre = p["steps"][k - 1]["m"]
                key = vflib.canon([pre["file"], pre["now"], s["a"][2]])
                if key in seen or not pre["file"]["recs"]:
                    continue
                seen.add(key)
                tests.append(dict(steps=[dict(a=x["a"], r=None, exp=None) for x in p["steps"][:k]], exist=s["a"][2], seeds=seeds, pre=pre))
    tests.sort(key=lambda t: -len(t["pre"]["file"]["recs"]))
    tests = tests[:n_tests]
    if not tests:
        raise vflib.InfraError("no history with a non-empty dump to fuzz")
    r = ctx.run_harness(binary, "loadfuzz", [dict(steps=t["steps"], exist=t["exist"], seeds=t["seeds"]) for t in tests], args=st["args"], name="loadfuzz")
    vflib.report_mismatches(ctx, binary, "loadfuzz", r, args=st["args"], adapter="mempool", what_prefix="load of a byte-flipped dump: ")
    lines, outcomes = [], {}
    for info in r["infos"]:
        if "seed" not in info:
            continue
        t = tests[info["index"]]
        res = info["result"]
        lines.append(dict(pre=t["pre"], act=["load", dict(kind="flip", k=info["seed"], sub="at"), t["exist"]], res=res, exp=t["pre"], post=info["post"]))
        outcomes[res["why"]] = outcomes.get(res["why"], 0) + 1
    ctx.evaluations += len(lines); ctx.traces += len(lines)
    ctx.extra["byte_flipped_loads"] = dict(loads=len(lines), outcomes=outcomes)
    cfgp = _mempool.obs_cfg(ctx, cfg, ["ObsKnown", "ObsDumpOrder", "ObsLoadSafe"])
    os.environ["MP_MEASURE"] = st["mpath"]          # vflib.judge passes only the observation file; TLC inherits the rest of the environment
    for i, inv in vflib.judge(ctx, _mempool.SPEC, "MCO_" + uni, cfgp, lines, name="fuzz_observed"):
        l = lines[i]
        ctx.violation("flip:%s:%s" % (inv, vflib.digest([l["act"], l["post"]["pool"]])),
                      "node after loading a dump with byte flips (seed %s) breaks %s: pool before %s, after %s, returned %s" % (
                          l["act"][1]["k"], inv, l["res"]["@load"]["before"]["pool"], l["post"]["pool"], l["res"]["ok"]),
                      dict(adapter="mempool", mode="loadfuzz", args=st["args"], case=dict(steps=tests[0]["steps"], exist=l["act"][2], seeds=[l["act"][1]["k"]]), invariant=inv))


def run(ctx):
    binary = ctx.build_adapter("mempool")
    plan = ["MC_persist_q.cfg", "MC_persist_b.cfg"] if ctx.tier == "quick" else ["MC_persist_t.cfg", "MC_persist_e.cfg", "MC_persist_b.cfg"]
    nontrivial = lambda p: any(s["a"][0] == "load" and p["steps"][i - 1]["m"]["file"]["recs"] for i, s in enumerate(p["steps"]) if i > 0)
    # vacuity: loads that drop an expired entry, keep a younger one, restore a stray prioritisation, a fee delta and an unbroadcast mark,
    # meet an existing conflict, and leave out an entry that Submit rejects at load time (below the minimum relay fee)
    seen = dict(expired=0, aged=0, stray=0, delta=0, unb=0, conflict=0, unacceptable=0, cuts=set())
    per = {}
    first = None
    for cfg in plan:
        st = _mempool.run_scenario(ctx, binary, "C55", "persist", cfg, "MU_std.cfg", nontrivial=nontrivial)
        first = first or (st, cfg)
        for k, v in st["per"].items():
            per[k] = per.get(k, 0) + v
        for p in st["paths"]:
            for k, s in enumerate(p["steps"]):
                if s["a"][0] != "load" or k == 0:
                    continue
                pre, post = p["steps"][k - 1]["m"], s["m"]
                seen["cuts"].add("%s/%s" % (s["a"][1]["kind"], s["a"][1]["sub"]))
                saved = {r["t"]: r for r in pre["file"]["recs"]}
                gone = set(saved) - set(post["pool"])
                if s["a"][1]["kind"] == "none":
                    seen["expired"] += bool(not s["a"][2] and any(saved[t]["time"] <= pre["now"] - 1209600 for t in gone))
                    seen["aged"] += any(0 < pre["now"] - saved[t]["time"] < 1209600 for t in post["pool"] if t in saved)
                    seen["stray"] += bool(pre["file"]["stray"])
                    seen["delta"] += any(saved[t]["d"] for t in post["pool"] if t in saved)
                    seen["unb"] += bool(post["unb"])
                    seen["conflict"] += bool(s["a"][2] and gone)
                seen["unacceptable"] += bool(cfg == "MC_persist_b.cfg" and s["a"][1]["kind"] != "hdr" and 6 in gone and saved[6]["d"] == 0)
    _mempool.need(dict(per=per), [("dump", "ok"), ("load", "ok"), ("load", "failed"), ("tick", "none"), ("prio", "none"), ("unb", "none")], "C55")
    miss = [k for k in ("expired", "aged", "stray", "delta", "unb", "conflict", "unacceptable") if not seen[k]]
    if miss:
        raise vflib.InfraError("vacuity: no load in the bounded models with: %s" % miss)
    ctx.extra["cut_kinds"] = sorted(seen["cuts"])
    fuzz_loads(ctx, binary, first[0], "persist", first[1], 4 if ctx.tier == "quick" else 12, list(range(1, 7 if ctx.tier == "quick" else 25)))
    ctx.assumptions += ["bounded scenario on a 110-block regtest base chain, -acceptnonstdtxn=1, mock time, both nodes on the same chain",
                        "the second node starts with an empty mempool and no prioritisations apart from the listed existing transactions"]
    return ctx.finish(level="model_checking", exhaustive=True,
                      rule="path cover of every transition of the bounded Mempool graphs (histories ending in dump, clock jump, load with every listed "
                           "damage and existing pool); non-trivial = distinct paths that load a non-empty dump")
