"""C56 — fee bumping replaces the original safely (specs/WalletSpend, Bump part; engine E3)."""
import collections, concurrent.futures, json, os, sys
sys.path.insert(0, os.path.dirname(os.path.abspath(__file__)))
import vflib
import _wallet

META = dict(
    engine="E3",
    level="model_checking",
    text="WalletSpend.tla states C56 as a relation over one call of feebumper::CreateRateBumpTransaction (+ SignTransaction, CommitTransaction "
         "and the submission of the replacement to the node): a transaction that is confirmed, conflicted by the chain, already replaced, has "
         "descendants in the wallet or the mempool, or has foreign inputs where require_mine is set is refused; every refusal leaves the wallet "
         "(transactions, states, replacement marks, locked coins, balances) and the mempool unchanged; a replacement spends every input of the "
         "original (none twice), carries every non-change output of the original unchanged (or exactly the outputs the caller supplied; a "
         "designated change output may shrink), sends everything else to the wallet, pays at least the original's fee plus the incremental relay "
         "fee for its own signed size, at least the requested feerate, at most maxtxfee, reports old and new fee correctly, passes the node's "
         "mempool test-accept and, once committed and submitted, is in the mempool while the original is gone. TLC decides the fee clause on "
         "feebumper's arithmetic as coded (CheckFeeRate before funding / EstimateFeeRate, funding that adds inputs, signing that shrinks, surplus "
         "dropped to fees) for every combination of a boundary-valued domain. Binding (code -> spec): the behaviours of the wallet model "
         "WalletSpendGen (C41) extended with bump calls (no feerate / feerates just below, at and above old rate + incremental / absurd ones; new "
         "outputs; recycled change; require_mine on and off; commit or not), 'the recipient spends his output' and mining are executed on a real "
         "descriptor CWallet attached to a regtest node; TLC evaluates the relation on every logged bump.",
    note="One-directional: a refusal of a bumpable transaction is not a violation. This tree has no opt-in signalling requirement (full RBF), so "
         "'not signalling where required' has no instance. Transactions with foreign inputs are bumped but not committed (CWallet::CommitTransaction "
         "requires wallet inputs; the RPC only offers them through psbtbumpfee). Known finding (key bump:shrunk-outputs-estimated-feerate): with "
         "caller-supplied outputs that make the replacement smaller than the original and no explicit feerate, EstimateFeeRate's assumption 'the "
         "replacement is at least as large as the original' is false and the replacement can pay LESS than the original's fee; the mempool refuses "
         "it, yet CommitTransaction records it and marks the original as replaced. Second known finding (key bump:weight-rounding-feerate-diagram, "
         "thorough tier): the wallet compares feerates per vbyte (weights rounded up); a replacement that has to add inputs at a feerate only "
         "marginally above the original's can have the lower feerate per weight unit and fails the mempool's feerate-diagram check, again after "
         "CommitTransaction has recorded it. Both are reproduced by TLC on the fee-arithmetic model (non-invariants PaysIncrementShrunk, "
         "HigherRateWeight). A wallet descendant only counts if it is alive (a spender that is itself conflicted does not block a bump).",
    technique="TLA+ relation WalletSpend (Bump part) + fee arithmetic model checked exhaustively by TLC; TLC -simulate generates scenarios for a real "
              "wallet on a regtest node; TLC evaluates the relation on every logged call (trace validation)",
)

NEED = ["bump_ok", "bump_ok_committed", "bump_refused_unbumpable:mined", "bump_refused_unbumpable:replaced", "bump_refused_fee", "bump_ok_explicit_rate",
        "bump_ok_new_outputs"]
NEED_THOROUGH = NEED + ["bump_refused_unbumpable:walletdesc", "bump_refused_unbumpable:pooldesc", "bump_ok_added_inputs", "bump_ok_changeidx", "bump_ok_foreign"]
FINDING_KEY = "bump:shrunk-outputs-estimated-feerate"


def alg_check(ctx):
    ctx.tlc(_wallet.SPEND, "WalletBumpAlg", "MC_bump.cfg", workers=4, timeout=2400)
    # the known finding, on the model: without an explicit feerate and with outputs that shrink the transaction the clause does not hold
    src = open(os.path.join(vflib.SPECS, _wallet.SPEND, "MC_bump.cfg")).read()
    p = os.path.join(ctx.work, "MC_bump_shrunk.cfg")
    open(p, "w").write(src.replace(src[src.index("INVARIANTS"):src.index("CHECK_DEADLOCK")], "INVARIANTS PaysIncrementShrunk\n"))
    r = ctx.tlc(_wallet.SPEND, "WalletBumpAlg", p, name="MC_bump_shrunk", workers=2, expect_violation=True, timeout=1200)
    ctx.extra["model_reproduces_known_finding"] = (r.violated == "PaysIncrementShrunk")
    p2 = os.path.join(ctx.work, "MC_bump_weight.cfg")
    open(p2, "w").write(src.replace(src[src.index("INVARIANTS"):src.index("CHECK_DEADLOCK")], "INVARIANTS HigherRateWeight\n"))
    r2 = ctx.tlc(_wallet.SPEND, "WalletBumpAlg", p2, name="MC_bump_weight", workers=2, expect_violation=True, timeout=1200)
    ctx.extra["model_reproduces_known_finding2"] = (r2.violated == "HigherRateWeight")


def bump_stats(lines, ev, nontrivial):
    for o in lines:
        if o["e"] != "bump" or "orig" not in o:
            if o["e"] == "bump":
                ev["bump_skipped"] += 1
            continue
        g, a, r = o["orig"], o["args"], o["res"]
        reasons = [k for k, v in (("mined", g["depth"] != 0), ("conflicted", g["inputsgone"]), ("replaced", g["replaced"]), ("walletdesc", g["walletdesc"]),
                                  ("pooldesc", g["pooldesc"]), ("foreign", a["requiremine"] and not g["allmine"])) if v]
        if not r["ok"]:
            ev["bump_refused"] += 1
            if reasons:
                for x in reasons:
                    ev["bump_refused_unbumpable:" + x] += 1
            elif "nsufficient total fee" in r["err"] or "lower than the minimum" in r["err"] or "too high" in r["err"]:
                ev["bump_refused_fee"] += 1
            else:
                ev["bump_refused_other:" + r["err"][:50]] += 1
            continue
        ev["bump_ok"] += 1
        nontrivial.add(vflib.digest([o["index"], o["step"]]))
        if a["feerate"] >= 0:
            ev["bump_ok_explicit_rate"] += 1
        if a["outputs"]:
            ev["bump_ok_new_outputs"] += 1
        if a["changeidx"] >= 0:
            ev["bump_ok_changeidx"] += 1
        if len(r["new"]["ins"]) > len(g["ins"]):
            ev["bump_ok_added_inputs"] += 1
        if not g["allmine"]:
            ev["bump_ok_foreign"] += 1
        if r.get("committed"):
            ev["bump_ok_committed"] += 1
        if not r["accept"]["ok"]:
            ev["bump_ok_not_accepted:" + r["accept"]["why"]] += 1


def is_known_finding(line, inv):
    """The replacement pays too little because the supplied outputs made it smaller than the original and no feerate was named."""
    if inv not in ("ObsBumpFee", "ObsBumpReplaces") or not line["res"]["ok"]:
        return False
    a, g, n = line["args"], line["orig"], line["res"]["new"]
    return a["feerate"] < 0 and len(a["outputs"]) > 0 and n["vsize"] < g["vsize"]


FINDING2_KEY = "bump:weight-rounding-feerate-diagram"


def is_known_finding2(line, inv):
    """The replacement needed additional inputs, and its feerate - higher than the original's when sizes are rounded up to vbytes, as the
    wallet computes - is not higher in exact weight units, which is what the mempool's feerate-diagram check compares."""
    if inv != "ObsBumpReplaces" or not line["res"]["ok"]:
        return False
    g, n = line["orig"], line["res"]["new"]
    newfee = n["invalue"] - sum(o["v"] for o in n["outs"])
    return (line["res"]["accept"].get("why") == "replacement-failed" and len(n["ins"]) > len(g["ins"]) and "weight" in n and
            newfee * g["weight"] <= g["fee"] * n["weight"] and newfee * g["vsize"] > g["fee"] * n["vsize"])


def run(ctx):
    binary = ctx.build_adapter("walletnode")
    quick = ctx.tier == "quick"
    only = os.environ.get("VERIF_C56_ONLY", "")           # "trace": skip the pure TLC runs (seeded self-tests)
    if os.environ.get("VERIF_C56_KNOWN_LOCAL"):           # self-tests before a finding is listed in known_findings.jsonl
        ctx._known.append(dict(status="known", property="C56", key=FINDING2_KEY, what="replacement with added inputs: feerate higher per vbyte (rounded up) but not per weight unit"))
    with concurrent.futures.ThreadPoolExecutor(max_workers=2) as ex:
        fut = ex.submit(alg_check, ctx) if only != "trace" else None
        num, depth = (110, 26) if quick else (900, 30)
        tests, r = _wallet.gen_behaviours(ctx, "Sim_bump.cfg" if quick else "Sim_bump_t.cfg", num, depth, "gen")
        ctx.log("generator: %d behaviours, %d calls" % (len(tests), sum(len(t["steps"]) for t in tests)))
        lines, res = _wallet.run_scripts(ctx, binary, tests, "script")
        if fut:
            fut.result()
    ctx.traces += len(tests)
    vflib.report_mismatches(ctx, binary, "script", res, args=[ctx.seed], adapter="walletnode", what_prefix="wallet call aborted: ")
    bumps = [o for o in lines if o["e"] == "bump" and "orig" in o]
    ctx.evaluations += len(bumps)
    ev = collections.Counter()
    bump_stats(lines, ev, ctx.nontrivial)
    bad = _wallet.judge(ctx, bumps, _wallet.C56_INVS, "observed")
    known = [(l, i) for l, i in bad if is_known_finding(l, i)]
    for line, inv in known:
        ctx.violation(FINDING_KEY, "%s is false: replacement smaller than the original, estimated feerate: %s" % (inv, _wallet.short_call(line)),
                      dict(adapter="walletnode", mode="script", args=[ctx.seed], case=tests[line["index"]], invariant=inv, observed=line))
    ev["known_finding_instances"] = len(known)
    known2 = [(l, i) for l, i in bad if is_known_finding2(l, i)]
    for line, inv in known2:
        ctx.violation(FINDING2_KEY, "%s is false: replacement with added inputs has a lower feerate per weight unit than the original: %s" % (inv, _wallet.short_call(line)),
                      dict(adapter="walletnode", mode="script", args=[ctx.seed], case=tests[line["index"]], invariant=inv, observed=line))
    ev["known_finding2_instances"] = len(known2)
    _wallet.report(ctx, "C56", tests, [(l, i) for l, i in bad if not is_known_finding(l, i) and not is_known_finding2(l, i)])
    ctx.extra["events"] = dict(sorted(ev.items()))
    missing = [k for k in (NEED if quick else NEED_THOROUGH) if not ev.get(k)]
    if missing and not ctx.violations:
        raise vflib.InfraError("vacuity: the generated behaviours never exercised %s (events: %s)" % (missing, dict(ev)))
    oks = [o for o in bumps if o["res"]["ok"]]
    if oks:
        ctx.sample(dict(call=_wallet.short_call(oks[len(oks) // 2])))
    ctx.assumptions += ["the wallet does not broadcast itself (the test node has no PeerManager): the adapter submits the committed replacement to the mempool",
                        "facts about the original (depth, descendants, spent inputs) come from the node and the adapter's records, not from the wallet"]
    return ctx.finish(level="model_checking", exhaustive=False,
                      rule="behaviours = TLC -simulate of WalletSpendGen with bump calls (seeded by VERIF_SEED), each executed on a fresh node + wallet; every bump "
                           "of an existing wallet transaction is one evaluation of the relation by TLC; non-trivial = bumps that produced a replacement")


def replay(ctx, path):
    return _wallet.replay(ctx, path, _wallet.C56_INVS)
