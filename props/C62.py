"""C62 — the wallet never hands out the same new address twice (specs/WalletDB/Keypool + KeypoolObs, crash images of real runs)."""
import collections, concurrent.futures, json, os, re, sys
sys.path.insert(0, os.path.dirname(os.path.abspath(__file__)))
sys.path.insert(0, os.path.join(os.path.dirname(os.path.dirname(os.path.abspath(__file__))), "tools"))
import vflib, _walletdb as W

META = dict(
    engine="E2",
    level="fault_enumeration",
    text="Design level: Keypool.tla models next_index / range_end of every active descriptor in memory, in the committed database file and in its "
         "durable (fsynced) content, GetNewDestination as the code's two steps (TopUp transaction, then increment + WriteDescriptor), keypoolrefill, the "
         "wallet's lock state (unencrypted / unlocked / locked) with hardened-range descriptors that cannot refill while locked (requests then FAIL and must "
         "change nothing), requests through ReserveDestination (kept, or reserved and returned), clean reload, process kill and power loss at any point; "
         "TLC checks exhaustively that no (descriptor, index) pair is handed out twice and that a failed request changes nothing, and finds the repeat in "
         "four deliberately broken variants (no write, write before the increment, commit not fsynced before the return, a failed reservation giving back "
         "the last index). Code level: behaviours chosen by TLC and two fixed ones (new receiving / change addresses of all four output types, returned "
         "reservations, refills, lock / unlock, a hardened change descriptor that runs dry in a locked wallet, clean reloads, kills and power failures) run on a "
         "real SQLite descriptor wallet under strace; at every return (and at sampled write/fsync boundaries inside later calls) the kill image and three "
         "power-loss images of the wallet directory are cut from the syscall stream, a wallet is loaded from each and asked for one fresh address of "
         "every active descriptor; TLC evaluates the specification's invariant on every observed list of addresses (all sessions of a wallet plus the "
         "fresh ones).",
    note="Power-loss model: per file the content at its last fsync survives (no torn or reordered writes inside a file); mixed images keep the "
         "unsynced writes of either the journal or the database. Addresses reserved for a transaction that is then not created are given back by "
         "design (ReturnDestination) and are not 'returned addresses'; a locked wallet may refuse a request on a hardened descriptor. The index the model predicts for each call is compared as well; a difference "
         "there is reported as a deviation in the evidence, not as a violation (the property only forbids repeats).",
    technique="TLA+ spec of the keypool bookkeeping model-checked with TLC; TLC-simulated behaviours replayed on a real SQLite wallet under strace, crash images reloaded and judged by TLC",
)

KEYPOOL = 3


PASSPHRASE = "pw"
HARD_SLOT = "bech32/1"     # the slot whose active descriptor has a hardened range step (imported in the prelude of every chain)


def prelude(lock):
    """wallet set-up before the behaviour starts: the hardened descriptor becomes the active bech32 change descriptor; an encrypted chain is
    encrypted first (EncryptWallet replaces the active descriptors, so the import comes afterwards, with the wallet unlocked)"""
    imp = ["importh", 1, True]
    return [imp] if lock == "plain" else [["encrypt", PASSPHRASE], ["unlock", PASSPHRASE], imp]


def split_sessions(steps):
    """model steps -> [(list of (model step index, adapter op), crash kind after the session or None)]"""
    sessions, cur = [], []
    for k, s in enumerate(steps):
        a = s["a"]
        if a[0] == "newbegin" or a[0] == "flush":
            continue
        if a[0] == "crash":
            sessions.append((cur, a[1])); cur = []
        elif a[0] == "new":
            cur.append((k, W.addr_step(a[1])))
        elif a[0] == "resret":
            t, internal = a[1].split("/")
            cur.append((k, ["reserve", t, internal == "1", "return"]))
        elif a[0] == "topup":
            cur.append((k, ["topup", a[1]]))
        elif a[0] == "reload":
            cur.append((k, ["reload"]))
        elif a[0] == "lock":
            cur.append((k, ["lock"]))
        elif a[0] == "unlock":
            cur.append((k, ["unlock", PASSPHRASE]))
        else:
            raise vflib.InfraError("unknown model action %s" % a)
    if cur or not sessions:
        sessions.append((cur, None))
    return sessions


def lock_state(obs):
    return "plain" if not obs.get("enc") else ("locked" if obs.get("islocked") else "unlocked")


def add_probe(o, addrs, pairs, enc):
    """appends the fresh addresses of a probed image; returns the number of requests that failed although they must succeed (a locked wallet
    may refuse the hardened descriptor)"""
    failed = 0
    for n, stp in enumerate(o["steps"]):
        if n == 8:       # ["unlock", pw] of an encrypted chain
            failed += 0 if stp["r"].get("ok") else 1
            continue
        slot = W.SLOTS[n] if n < 8 else HARD_SLOT
        if stp["r"].get("ok"):
            addrs.append(stp["r"]["addr"]); pairs.append([slot, stp["r"].get("idx", -1)])
        elif not (enc and n < 8 and slot == HARD_SLOT):
            failed += 1
    return failed


def slot_state(obs):
    """{slot: (next, range)} of the active descriptors from the adapter's projection"""
    by_id = {d["id"]: d for d in obs.get("desc", [])}
    return {slot: (by_id[i]["next"], by_id[i]["range"]) for slot, i in obs.get("active", {}).items() if i in by_id}


def run_chain(ctx, binary, bi, beh, quick, stride):
    """runs one behaviour as a chain of sessions; returns (observation lines, deviations, stats)"""
    lines, devs = [], []
    stats = collections.Counter()
    prev_addrs, prev_pairs = [], []
    image = None
    nested_candidates = []
    lock0 = beh["init"]["lock"]
    enc = lock0 != "plain"
    probe = W.PROBE + ([["unlock", PASSPHRASE], ["change", "bech32"]] if enc else [])
    for si, (ops, crash) in enumerate(split_sessions(beh["steps"])):
        tag = "b%d_s%d" % (bi, si)
        nprel = 0
        if si == 0:
            pre = prelude(lock0); nprel = len(pre)
            ops = [(None, op) for op in pre] + ops
        sess = W.Session(ctx, binary, dict(keypool=KEYPOOL, steps=[op for _, op in ops]), tag, image_rel=image)
        ctx.log("%s: session done (%d syscalls)" % (tag, len(sess.calls)))
        try:
            if sess.abort and "step" in sess.abort:
                lines.append(dict(act=["session", bi, si], where="the process aborted inside step %s %s" % (sess.abort["step"], sess.abort.get("action")), load="aborted: " + sess.abort.get("why", "")[-80:],
                                  addrs=prev_addrs, pairs=prev_pairs, failed=0))
                break
            if sess.out["load"] != "ok":
                lines.append(dict(act=["session", bi, si], where="start of session %d" % si, load=sess.out["load"], addrs=prev_addrs, pairs=prev_pairs, failed=0))
                break
            mut = sess.mutating_points()
            if sess.model_bad:
                raise vflib.InfraError("file model does not reproduce the wallet directory (%s differ)" % sess.model_bad)
            if nprel:
                if any(not sess.out["steps"][j]["r"].get("ok") for j in range(nprel)):
                    # the chain goes on with whatever wallet there is; run() turns this into an infrastructure error unless the observations show a violation
                    stats["setup_failures"] += 1
                    devs.append(dict(chain=bi, step=-1, a=["setup"], why="wallet set-up failed: %s" % [sess.out["steps"][j]["r"] for j in range(nprel)]))
                prelude_end = sess.step_end[nprel - 1]
                mut = [p for p in mut if p > prelude_end]
            stats["sessions"] += 1
            # addresses this session handed out, by step
            got = {}
            failed_steps = 0
            for j, (k, op) in enumerate(ops):
                if k is None:
                    continue
                st = sess.out["steps"][j]
                model = beh["steps"][k]
                model_fails = model.get("r") == ["fail"]
                if op[0] in ("new", "change", "reserve"):
                    slot = model["a"][1]
                    if not st["r"].get("ok"):
                        stats["failed_requests"] += 1
                        if not model_fails:      # the specification expects an address here
                            failed_steps += 1
                            devs.append(dict(chain=bi, step=k, a=model["a"], why="request failed: %s" % st["r"]))
                    elif op[0] == "reserve":
                        stats["returned_reservations"] += 1   # reserved and given back: never handed out
                        if model_fails:
                            devs.append(dict(chain=bi, step=k, a=model["a"], why="reservation succeeded, model expects a failure"))
                    else:
                        got[j] = (st["r"]["addr"], [slot, st["r"].get("idx", -1)])
                        if model_fails:
                            devs.append(dict(chain=bi, step=k, a=model["a"], why="address handed out, model expects a failure"))
                        elif "r" in model and st["r"].get("idx") != model["r"][1]:
                            devs.append(dict(chain=bi, step=k, a=model["a"], why="index %s, model %s" % (st["r"].get("idx"), model["r"][1])))
                elif not st["r"].get("ok") and op[0] != "topup":     # keypoolrefill reports false when some descriptor cannot be refilled (locked, hardened)
                    devs.append(dict(chain=bi, step=k, a=model["a"], why="call failed: %s" % st["r"]))
                have = slot_state(st["obs"])
                exp = model.get("exp")
                for slot in (W.SLOTS if exp else []):
                    if have.get(slot) != (exp["next"][slot], exp["range"][slot]):
                        devs.append(dict(chain=bi, step=k, a=model["a"], why="%s next/range %s, model %s" % (slot, have.get(slot), (exp["next"][slot], exp["range"][slot]))))
                        break
                if exp and lock_state(st["obs"]) != exp["lock"]:
                    devs.append(dict(chain=bi, step=k, a=model["a"], why="lock state %s, model %s" % (lock_state(st["obs"]), exp["lock"])))
                stats["steps"] += 1
            # crash points: every return, plus write/fsync boundaries inside the calls
            ends = sorted(e for j, e in sess.step_end.items() if j >= nprel)
            inner = mut[(ctx.seed + bi + si) % stride::stride]
            points = sorted(set(ends + inner))
            stats["mutating_syscalls"] += len(mut)
            imgs, meta, seen = [], [], {}
            end_images = {}
            for pt, mode, rel in sess.images(points):
                dg = W.image_digest(rel)
                if dg not in seen:
                    seen[dg] = len(imgs); imgs.append(rel)
                meta.append((pt, mode, seen[dg]))
                if ends and pt == ends[-1]:
                    end_images[mode] = rel
                done, cur = sess.steps_done(pt)
                if mode == 0 and cur is not None and rel.get("/wallet.dat-journal") and len(nested_candidates) < (1 if quick else 4) and (pt + bi) % 7 == 0:
                    nested_candidates.append((rel, tag, pt, list(prev_addrs) + [got[j][0] for j in done if j in got], list(prev_pairs) + [got[j][1] for j in done if j in got]))
            ctx.log("%s: %d steps, %d crash points, %d images (%d distinct)" % (tag, len(ops), len(points), len(meta), len(imgs)))
            rec = W.recover_batch(ctx, binary, imgs, probe, KEYPOOL, tag=tag)
            ctx.log("%s: images reloaded" % tag)
            stats["images"] += len(meta); stats["distinct_images"] += len(imgs)
            for pt, mode, k in meta:
                done, cur = sess.steps_done(pt)
                addrs = list(prev_addrs) + [got[j][0] for j in done if j in got]
                pairs = list(prev_pairs) + [got[j][1] for j in done if j in got]
                o = rec[k]
                failed = add_probe(o, addrs, pairs, enc) if o["load"] == "ok" else 0
                where = ("inside step %d %s" % (cur, ops[cur][1][0]) if cur is not None else "after the return of step %d" % (done[-1] if done else -1))
                lines.append(dict(act=["crash", bi, si, pt, W.MODE_NAMES[mode]], where=where + " of session %d" % si, load=o["load"], addrs=addrs, pairs=pairs, failed=failed))
            prev_addrs = prev_addrs + [got[j][0] for j in sorted(got)]
            prev_pairs = prev_pairs + [got[j][1] for j in sorted(got)]
            lines.append(dict(act=["session", bi, si], where="end of session %d" % si, load="ok", addrs=prev_addrs, pairs=prev_pairs, failed=failed_steps))
            if crash is not None:
                if not ends:
                    # a crash right after loading / set-up: the image is the directory as it is then
                    end_images = {m: rel for pt, m, rel in sess.images([sess.step_end[nprel - 1] if nprel else sess.base_end], modes=(0, 1))}
                image = end_images[0 if crash == "kill" else 1]
        finally:
            sess.cleanup()
    # second level: crash the *recovery* (hot-journal rollback and the top-up LoadExisting performs), then load again
    for rel, tag, pt0, addrs0, pairs0 in nested_candidates:
        sess = W.Session(ctx, binary, dict(keypool=KEYPOOL, steps=[]), tag + "_n%d" % pt0, image_rel=rel)
        try:
            if sess.out["load"] != "ok":
                continue
            pts = [p for p in sess.mutating_points(first=sess.preload_end) if p <= sess.base_end]
            if quick:
                pts = pts[(ctx.seed + bi) % 10::10]
            imgs, meta, seen = [], [], {}
            for pt, mode, r2 in sess.images(pts, modes=(0, 1)):
                dg = W.image_digest(r2)
                if dg not in seen:
                    seen[dg] = len(imgs); imgs.append(r2)
                meta.append((pt, mode, seen[dg]))
            rec = W.recover_batch(ctx, binary, imgs, probe, KEYPOOL, tag=tag + "_n")
            for pt, mode, k in meta:
                o = rec[k]; addrs = list(addrs0); pairs = list(pairs0)
                failed = add_probe(o, addrs, pairs, enc) if o["load"] == "ok" else 0
                lines.append(dict(act=["crash-during-recovery", bi, pt0, pt, W.MODE_NAMES[mode]], where="syscall %d of the load from the kill image taken at syscall %d" % (pt, pt0),
                                  load=o["load"], addrs=addrs, pairs=pairs, failed=failed))
                stats["second_level_images"] += 1
        finally:
            sess.cleanup()
    return lines, devs, stats


def run(ctx):
    binary = ctx.build_adapter("walletdb")
    quick = ctx.tier == "quick"
    # ---- design level (the five TLC runs are small: run them side by side)
    with concurrent.futures.ThreadPoolExecutor(max_workers=6) as ex:
        f_ok = ex.submit(ctx.tlc, "WalletDB", "Keypool", "MC_keypool.cfg" if quick else "MC_keypool_t.cfg", workers=2, xmx="2g")
        f_neg = {v: ex.submit(ctx.tlc, "WalletDB", "Keypool", "MC_keypool_%s.cfg" % v, expect_violation=True, workers=1, xmx="1g") for v in ("nowrite", "staleidx", "lazysync", "failreturn")}
        f_sim = ex.submit(ctx.tlc, "WalletDB", "Keypool", "Sim_keypool.cfg", name="sim_keypool", simulate=(40 if quick else 400, 20 if quick else 26), xmx="2g")
        f_ok.result()
        for v, f in f_neg.items():
            if f.result().violated != "NoRepeat":
                raise vflib.InfraError("negative control of the specification (variant %s) was not caught by TLC" % v)
        r = f_sim.result()
    behs = vflib.sim_behaviours(r.emit_path)

    def interesting(b):
        acts = [s["a"][0] for s in b["steps"]]
        return acts.count("new") >= 3 and ("crash" in acts or "reload" in acts)

    def score(b):
        kinds = {s["a"][0] + str(s["a"][1:]) for s in b["steps"]}
        fails = sum(1 for s in b["steps"] if s.get("r") == ["fail"])
        return len(kinds) + 6 * min(fails, 2) + (3 if b["init"]["lock"] != "plain" else 0)
    sim_fail = sum(1 for b in behs for s in b["steps"] if s.get("r") == ["fail"])
    behs = [b for b in behs if interesting(b)]
    behs.sort(key=lambda b: -score(b))
    behs = behs[: (1 if quick else 10)]
    # two hand-shaped behaviours that are always included. Plain wallet: runs of requests on one descriptor, every descriptor, returned
    # reservations, a refill, a clean reload, a kill and a power failure. Encrypted wallet: the hardened change descriptor runs dry while the wallet
    # is locked (requests and reservations FAIL), is refilled after an unlock, across a reload, a kill and a power failure.
    fixed_plain = [["new", "bech32/0"]] * 4 + [["new", "bech32m/1"]] * 3 + [["resret", "bech32m/1"], ["new", "bech32m/1"]] + [["new", s] for s in W.SLOTS] + [
        ["topup", 5], ["new", "bech32/0"], ["reload"], ["new", "bech32/0"], ["resret", "legacy/1"], ["new", "legacy/1"], ["crash", "kill"],
        ["new", "bech32/0"], ["new", "bech32m/1"], ["crash", "power"], ["new", "bech32/0"], ["new", "p2sh-segwit/0"]]
    H = HARD_SLOT
    fixed_enc = [["lock"], ["new", H], ["new", H], ["new", H], ["new", H], ["resret", H], ["new", "bech32/0"], ["new", H], ["unlock"], ["resret", H], ["new", H], ["topup", 0], ["lock"],
                 ["new", H], ["new", H], ["reload"], ["new", H], ["new", H], ["new", H], ["crash", "kill"], ["new", H], ["unlock"], ["new", H], ["new", "legacy/1"], ["lock"], ["new", H], ["new", H], ["new", H],
                 ["crash", "power"], ["new", H], ["new", "bech32/0"], ["unlock"], ["new", H]]

    def with_begin(acts):
        out = []
        for a in acts:
            if a[0] in ("new", "resret"):
                out.append(["newbegin", a[1], a[0]])
            out.append(a)
        return out
    fixed = [("plain", with_begin(fixed_plain)), ("unlocked", with_begin(fixed_enc))]
    bpath = os.path.join(ctx.work, "fixed.ndjson")
    with open(bpath, "w") as f:
        for lk, acts in fixed:
            f.write(json.dumps(dict(lock=lk, acts=acts)) + "\n")
    rr = ctx.tlc("WalletDB", "KeypoolRun", "Run_keypool.cfg", name="run_keypool", env={"BEHS": bpath}, workers=1, xmx="1g")
    rows = collections.defaultdict(dict)
    for row in vflib.load_emitted(rr.emit_path):
        rows[row["b"] - 1][row["k"]] = row
    fixed_behs = []
    for n, (lk, acts) in enumerate(fixed):
        if len(rows[n]) != len(acts):
            raise vflib.InfraError("fixed behaviour %d is not a behaviour of Keypool (stops after step %d: %s)" % (n, len(rows[n]), acts[len(rows[n])] if len(rows[n]) < len(acts) else ""))
        fixed_behs.append(dict(init=dict(lock=lk), steps=[dict(a=rows[n][k + 1]["a"], r=rows[n][k + 1]["r"], exp=rows[n][k + 1]["t"]) for k in range(len(acts))]))
    behs = fixed_behs + behs
    per_action = collections.Counter(s["a"][0] + (" fail" if s.get("r") == ["fail"] else "") for b in behs for s in b["steps"])
    for need in ("new", "new fail", "resret", "resret fail", "reload", "crash", "topup", "lock", "unlock"):
        if not per_action[need]:
            raise vflib.InfraError("no replayed behaviour takes action %s" % need)
    ctx.extra["failed_requests_in_all_simulated_behaviours"] = sim_fail
    stride = 6 if quick else 1
    lines, devs, stats = [], [], collections.Counter()
    jobs = max(1, min(len(behs), vflib.free_cpus() // 2))
    with concurrent.futures.ThreadPoolExecutor(max_workers=jobs) as ex:
        futs = [ex.submit(run_chain, ctx, binary, bi, b, quick, stride) for bi, b in enumerate(behs)]
        for f in futs:
            l, d, s = f.result()
            lines += l; devs += d; stats.update(s)
    ctx.traces = stats["sessions"]; ctx.evaluations = len(lines)
    for l in lines:
        ctx.nontrivial.add(vflib.digest(l["act"]))
    ctx.extra["workload"] = dict(stats)
    ctx.extra["model_actions_replayed"] = dict(per_action)
    ctx.extra["index_deviations_from_model"] = len(devs)
    ctx.extra["requests_refused_although_the_model_answers"] = sum(l.get("failed", 0) for l in lines)
    if devs:
        ctx.extra["index_deviation_samples"] = devs[:5]
        ctx.log("%d deviations of the observed indices from the model, e.g. %s" % (len(devs), devs[0]))
    outcomes = collections.Counter((l["act"][0], l["act"][-1] if l["act"][0] != "session" else "", "ok" if l["load"] == "ok" else l["load"][:60]) for l in lines)
    ctx.extra["observations"] = {"%s %s | %s" % k: v for k, v in outcomes.items()}
    for l in lines[:: max(1, len(lines) // 3)][:3]:
        ctx.sample(dict(observation=l["act"], where=l["where"], load=l["load"], addresses=len(l["addrs"]), last_pairs=l["pairs"][-3:]))
    # ---- TLC judges every observation
    reported = collections.Counter()
    for k, inv in vflib.judge(ctx, "WalletDB", "KeypoolObs", "Obs_keypool.cfg", lines, name="observed"):
        l = lines[k]
        rep = [a for a in set(l["addrs"]) if l["addrs"].count(a) > 1]
        sig = (inv, l["act"][0], l["act"][-1] if l["act"][0] != "session" else "", re.sub(r"'[^']*'", "<path>", l["load"])[:80] if l["load"] != "ok" else "")
        reported[sig] += 1
        if reported[sig] == 1:
            ctx.violation("keypool:%s:%s:%s:%s" % (inv, sig[1], sig[2], vflib.digest(sig[3])),
                          "%s breaks %s: %s (behaviour %s; load=%s; repeated addresses %s; pairs %s)" % (
                              " ".join(str(x) for x in l["act"]), inv, l["where"], l["act"][1], l["load"], rep[:3], [p for p in l["pairs"] if l["pairs"].count(p) > 1][:4]),
                          dict(observation=l, invariant=inv))
    ctx.extra["observations_breaking_an_invariant"] = {"%s | %s | %s | %s" % k: v for k, v in reported.items()}
    if not ctx.violations and (stats["setup_failures"] or not stats["failed_requests"] or not stats["returned_reservations"]):
        raise vflib.InfraError("the hardened / reservation scenarios did not run as intended (set-up failures %d, failed requests %d, returned reservations %d)" % (
            stats["setup_failures"], stats["failed_requests"], stats["returned_reservations"]))
    ctx.assumptions += ["power loss: per-file durability = content at last fsync; no torn writes or intra-file reordering; directory entries are durable once created",
                        "crash points: every return of an address request, refill or reload, and %s" % ("every %d-th write/fsync boundary inside the calls" % stride if stride > 1 else "every write/fsync boundary inside the calls"),
                        "keypool size %d so that every request extends the range and a locked hardened descriptor runs dry after %d requests" % (KEYPOOL, KEYPOOL)]
    return ctx.finish(level="fault_enumeration", exhaustive=False,
                      rule="TLC-simulated keypool behaviours plus two fixed behaviours (plain wallet; encrypted wallet with a hardened change descriptor) run as chains of wallet sessions under strace; observation = (behaviour, session, syscall index, "
                           "image kind) with the addresses handed out before that point plus one fresh address per active descriptor from the reloaded image")


def replay(ctx, path):
    o = json.load(open(path))
    print("REPLAY: crash observations are re-derived by running the check again with the same VERIF_SEED; stored observation:")
    print(json.dumps(o.get("observation"), indent=1)[:3000])
    return 1
