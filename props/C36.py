"""C36 — peers are punished only for what the rules say, never for transactions (specs/PeerPunish, engines E4 + E2)."""
import collections, hashlib, json, os, re
import vflib

META = dict(
    engine="E4",
    level="model_checking",
    text="PeerPunish.tla transcribes the punishment rules of net_processing.cpp as a decision table: Effect (what ProcessMessage does with each "
         "of 81 message content classes: nothing / Misbehaving() incl. MaybePunishNodeForBlock and every other call site / direct disconnect for a "
         "protocol violation, with RejectIncomingTxs as a dimension) composed with Punish (MaybeDiscourageAndDisconnect: noban, manual, local). "
         "TLC checks the three sentences of C36 on every transition of the table (6 connection types x noban x relay permission x local "
         "address x fRelay x sendcmpct x blocks-only mode x class = 31,104 rows), on every second message of a peer that is a high-bandwidth "
         "compact-block peer or has a stored, not yet validated block (the sender is remembered in blockSource until the block is validated: on receipt, when "
         "its parent arrives, or at a later reorganisation), and on every sequence of three messages. The rows and TLC-simulated three-message sequences are replayed on a real "
         "PeerManager + ConnmanTestMsg + BanMan on a fresh regtest node per test: the peer is created and handshaken as in the repository's "
         "tests, every class is realised as real serialized bytes (signed segwit transactions, hand-built valid / mutated / invalid blocks, "
         "headers with invalid proof of work, forged compact blocks, oversized and undecodable payloads) pushed through the peer's transport, "
         "and only CNode::fDisconnect and BanMan::IsDiscouraged(address) are compared.",
    note="Quick tier replays a seeded stratified sample of the table (every class x connection type x noban x mode stratum) and 150 sequences; "
         "thorough replays the whole table. A difference on a row the property is silent about (e.g. oversized inv) is recorded as a deviation, "
         "not a violation. 'Invalid' is read as permanently invalid: a block whose timestamp is too far in the future (BLOCK_TIME_FUTURE) and a "
         "block already marked invalid earlier that an inbound peer repeats (BLOCK_CACHED_INVALID) are not validated and not punished by the code, "
         "and the table says so. Feeler connections are dropped at the version message and private-broadcast connections have no message "
         "handling of their own; the former are in the table (always 'disconnect'), the latter are covered by C39.",
    technique="TLA+ decision table + TLC action properties; oracle-table and simulated-sequence replay on the real PeerManager",
)

# what validation must say about the content of a class at least once (shows that the class is realised as named); checked on a clean run only
EXPECT_DIAG = {
    "tx_valid": r"tx:ok", "tx_belowout": r"bad-txns-in-belowout", "tx_dupinputs": r"bad-txns-inputs-duplicate", "tx_coinbase": r"tx:coinbase",
    "tx_badsig": r"script-verify-flag-failed", "tx_nonstd": r"tx:version", "tx_dust": r"tx:dust", "tx_lowfee": r"min relay fee not met",
    "tx_orphan": r"missingorspent", "tx_orphan_bad": r"missingorspent", "tx_parent": r"tx:ok", "tx_conflict": r"insufficient fee|replacement",
    "tx_stripped": r"script-verify-flag-failed", "tx_premature": r"premature-spend-of-coinbase", "tx_confirmed": r"txn-already-known",
    "tx_twice": r"txn-already-in-mempool", "tx_orphan_resolved": r"child-in-pool:yes", "tx_orphan_bad_resolved": r"child-in-pool:no",
    "blk_valid": r"blk:valid", "blk_valid_tx": r"blk:valid", "blk_badpow": r"high-hash", "blk_cb_multiple": r"bad-cb-multiple", "blk_cb_amount": r"bad-cb-amount",
    "blk_missing_inputs": r"missingorspent", "blk_badsig": r"block-script-verify-flag-failed", "blk_cb_height": r"bad-cb-height",
    "blk_time_old": r"time-too-old", "blk_time_future": r"time-too-new", "blk_unknown_prev": r"prev-blk-not-found", "blk_invalid_prev": r"bad-prevblk",
    "blk_cached_invalid": r"duplicate-invalid", "blk_lowwork": r"too-little-chainwork",
    "blk_child_first_bad": r"stored:child", "blk_child_first_ok": r"stored:child", "blk_side_first_bad": r"stored:side", "blk_side_first_ok": r"stored:side",
    "blk_parent_arrives": r"bad-cb-amount", "blk_parent_from_elsewhere": r"bad-cb-amount", "blk_side_extended": r"bad-cb-amount",
}


def to_test(init, steps):
    return dict(mode=init["mode"], peer=init["peer"], msgs=[s["a"][1] for s in steps],
                exp=[init["out"]] + [s["exp"]["out"] for s in steps], flags=[None] + [s["r"] for s in steps])


def stratum_pick(rows, seed):
    """Quick tier: one row per (class, connection type, noban, mode) stratum, the secondary attributes chosen by a keyed hash."""
    best = {}
    for t in rows:
        p = t["peer"]
        k = (t["msgs"][0], p["conn"], p["noban"], t["mode"])
        h = hashlib.sha1(("%d|%s" % (seed, vflib.canon(t))).encode()).hexdigest()
        if k not in best or h < best[k][0]:
            best[k] = (h, t)
    return [v[1] for _, v in sorted(best.items(), key=lambda kv: str(kv[0]))]


def replay(ctx, binary, tests, what, stats):
    tests = sorted(tests, key=lambda t: t["mode"])          # consecutive tests of one mode share a node in the adapter
    res = ctx.run_harness(binary, "replay", tests, name=what, timeout=3000)
    for d in res["infos"]:
        if d.get("kind") == "sharedonly":
            stats["shared_only"].append("%s: %s" % (what, d.get("why")))
    ctx.evaluations += int(res["summary"]["tests"]); ctx.traces += int(res["summary"]["tests"])
    ctx.extra["replayed_messages"] = ctx.extra.get("replayed_messages", 0) + int(res["summary"]["steps"])
    for d in res["infos"]:
        if d.get("kind") == "diag":
            stats["diag"][d["cls"]].update(d["diag"])
            if d.get("hb"):
                stats["hb"] += 1
    nviol = 0
    for m in res["mismatches"] + res["aborts"]:
        case = json.loads(res["lines"][m["index"]])
        step = m.get("step", 0)
        flags = case["flags"][step] if 0 < step < len(case["flags"]) else None
        cls = case["msgs"][step - 1] if step > 0 else "handshake"
        if m["kind"] == "abort" or flags is None or str(m.get("why", "")).startswith("exception"):
            sentence = "abort" if m["kind"] == "abort" else "harness"
        elif flags["never"]:
            sentence = "never-punish"
        elif flags["must"]:
            sentence = "must-punish"
        else:
            # a row the property is silent about (oversized inv, cached-invalid block, unknown parent ...): not a verdict
            stats["silent_deviations"][cls] += 1
            continue
        if sentence == "harness":
            raise vflib.InfraError("%s: adapter failed on %s: %s" % (what, vflib.canon(case), m.get("why")))
        key = "%s:%s:%s" % (sentence, cls, vflib.digest([case["peer"], case["mode"], case["msgs"][:step]]))
        what_s = "PeerPunish %s (%s row): peer %s mode %s messages %s: %s" % (
            what, sentence, vflib.canon(case["peer"]), case["mode"], case["msgs"][:step], m.get("why"))

        def confirm(case=case):
            r2 = ctx.run_harness(binary, "replay", [json.dumps(case)], args=["fresh"], nproc=1, name="confirm")
            return bool(r2["mismatches"] or r2["aborts"])
        if nviol < 8 and ctx.violation(key, what_s, dict(adapter="peerpunish", mode="replay", args=[], case=case, mismatch=m), confirm=confirm):
            nviol += 1
    return res


def run(ctx):
    binary = ctx.build_adapter("peerpunish")
    quick = ctx.tier == "quick"
    stats = dict(diag=collections.defaultdict(set), hb=0, silent_deviations=collections.Counter(), shared_only=[])

    # ---- the table: TLC checks the three sentences on every row and emits them
    r = ctx.tlc("PeerPunish", "PeerPunish", "Table.cfg", workers=4)
    edges = vflib.load_emitted(r.emit_path)
    rows = [to_test(e["f"], [dict(a=e["a"], r=e["r"], exp=e["t"])]) for e in edges if e["l"] == 1]
    if len(rows) < 20000:
        raise vflib.InfraError("table has only %d rows" % len(rows))
    per_eff = collections.Counter((t["flags"][1]["eff"], t["exp"][1]) for t in rows)
    for need in (("misbehave", "discourage"), ("misbehave", "disconnect"), ("misbehave", "none"), ("violation", "disconnect"), ("none", "none"), ("ignored", "disconnect")):
        if not per_eff[need]:
            raise vflib.InfraError("vacuity: no table row with effect/outcome %s" % (need,))
    ctx.extra["table_rows"] = len(rows)
    ctx.extra["table_rows_by_effect_outcome"] = {"%s->%s" % k: v for k, v in per_eff.items()}
    ctx.extra["must_punish_rows"] = sum(1 for t in rows if t["flags"][1]["must"])
    ctx.extra["never_punish_rows"] = sum(1 for t in rows if t["flags"][1]["never"])
    if not quick:
        # every sequence of three messages satisfies the sentences (no emission)
        ctx.tlc("PeerPunish", "PeerPunish", "MC_Seq.cfg", workers=4)
    chosen = stratum_pick(rows, ctx.seed) if quick else rows
    ctx.log("table: %d rows, replaying %d" % (len(rows), len(chosen)))
    for t in chosen:
        if t["flags"][1]["must"] or (t["flags"][1]["never"] and t["flags"][1]["eff"] != "ignored"):
            ctx.nontrivial.add(vflib.digest(t))
    ctx.sample(chosen[len(chosen) // 2]); ctx.sample(chosen[len(chosen) // 5])
    replay(ctx, binary, chosen, "table", stats)

    # ---- sequences of three messages (E2)
    nb = 120 if quick else 2500
    rs = ctx.tlc("PeerPunish", "PeerPunish", "Sim.cfg", simulate=(nb, 3), name="Sim")
    seqs = [to_test(b["init"], b["steps"]) for b in vflib.sim_behaviours(rs.emit_path)]
    seqs = [t for t in seqs if len(t["msgs"]) == 3]
    # the high-bandwidth compact block paths need a valid block first: directed sequences, expectations computed by TLC like the others
    ctx.log("sequences: %d simulated behaviours" % len(seqs))
    if len(seqs) < nb // 2:
        raise vflib.InfraError("simulation produced only %d sequences" % len(seqs))
    for t in seqs:
        ctx.nontrivial.add(vflib.digest(t))
    ctx.sample(seqs[0])
    replay(ctx, binary, seqs, "sequences", stats)

    # ---- all two-message sequences through the high-bandwidth compact block state (second-level transitions of the table run)
    hbt = [to_test(t["init"], t["steps"]) for t in vflib.Graph(edges).edge_tests() if len(t["steps"]) == 2]
    if not hbt:
        raise vflib.InfraError("no high-bandwidth sequences")
    # a stored block that is validated by the second message (parent arrives / side branch extended): its own strata
    deferred = [t for t in hbt if t["msgs"][0].endswith(("_first_bad", "_first_ok")) and t["msgs"][1] in ("blk_parent_arrives", "blk_parent_from_elsewhere", "blk_side_extended")
                and (t["msgs"][0].startswith("blk_child") == t["msgs"][1].startswith("blk_parent"))]
    if not any(t["flags"][2]["must"] for t in deferred):
        raise vflib.InfraError("vacuity: no deferred-validation sequence with a must-punish step")
    if quick:
        best = {}
        for t in deferred:
            k = (t["msgs"][0], t["msgs"][1], t["peer"]["conn"], t["peer"]["noban"], t["mode"])
            h = hashlib.sha1(("%d|%s" % (ctx.seed, vflib.canon(t))).encode()).hexdigest()
            if k not in best or h < best[k][0]:
                best[k] = (h, t)
        dset = set(vflib.canon(t) for t in deferred)
        others = [t for t in hbt if vflib.canon(t) not in dset]
        others = [t for i, t in enumerate(sorted(others, key=lambda t: hashlib.sha1(("%d|%s" % (ctx.seed, vflib.canon(t))).encode()).hexdigest())) if i < 120]
        hbt = [v[1] for _, v in sorted(best.items(), key=lambda kv: str(kv[0]))] + others
    ctx.extra["deferred_validation_sequences"] = len(deferred)
    for t in hbt:
        if t["flags"][2]["must"]:
            ctx.nontrivial.add(vflib.digest(t))
    ctx.log("second-level sequences (high-bandwidth state / stored block validated later): %d" % len(hbt))
    hb_before = stats["hb"]
    replay(ctx, binary, hbt, "hb", stats)
    ctx.extra["differences_only_on_shared_node"] = stats["shared_only"][:10]
    if not ctx.violations:
        if stats["shared_only"]:
            # a difference that a fresh node does not repeat: state leaking between the tests that share a node; never a silent pass
            raise vflib.InfraError("differences seen only on a shared node (not repeated on a fresh one): %s" % stats["shared_only"][:5])
        if stats["hb"] == hb_before:
            raise vflib.InfraError("vacuity: no replayed peer ever became a high-bandwidth compact block peer")
        missing = [c for c, rx in EXPECT_DIAG.items() if not any(re.search(rx, d) for d in stats["diag"].get(c, ()))]
        if missing:
            raise vflib.InfraError("vacuity: content classes not realised as named (validation never said the expected thing): %s; seen: %s" % (
                missing, {c: sorted(stats["diag"].get(c, ())) for c in missing}))
    ctx.extra["silent_row_deviations"] = dict(stats["silent_deviations"])
    ctx.extra["validation_verdicts_seen"] = {c: sorted(v)[:4] for c, v in sorted(stats["diag"].items())}
    ctx.assumptions += ["content classes are representatives: one realisation per class (e.g. one kind of non-standard transaction); other members of a class are assumed to take the same path",
                        "'invalid' = permanently invalid under the consensus rules; time-too-new and cached-invalid-from-inbound are not punished by the code and the table says so",
                        "timeouts (block download, ping, chain sync, addrfetch) are outside the table: mock time advances one second per message"]
    return ctx.finish(level="model_checking", exhaustive=not quick,
                      rule="table rows = every (peer kind, mode, message class) transition TLC enumerates (quick: one row per class x connection type x noban x mode "
                           "stratum, seeded); sequences = TLC -simulate behaviours of three messages plus all two-message sequences through the high-bandwidth "
                           "compact block state; non-trivial = rows one of the three sentences constrains (must-punish or never-punish) and all sequences")
