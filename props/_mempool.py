"""Shared driver for the Mempool specification (C22, C26, C27, C28, C29, C55).

  1. TLC prints the scenario's transaction universe (module MU_<uni>); the adapter builds and signs it on a real regtest node and
     reports each transaction's real fee / virtual size / weight, which the specification reads back through IOEnv (MP_MEASURE).
  2. TLC model-checks the bounded scenario (invariants + action properties) and, in the same run, prints every transition.
  3. A path cover of that graph is replayed on real nodes (ProcessTransaction, PrioritiseTransaction, real blocks, InvalidateBlock,
     two-block reorgs, mock time); every call result and the projected mempool are compared with the prediction.
  4. Verdict rule (DESIGN 8): a difference from the deterministic prediction is a *deviation*; whether it violates the property
     that is being checked is decided by TLC on the observed transition (module MempoolObs) with that property's invariants
     (C22: INV, C26: SAFE) or, for C28, by asking the node itself for both verdicts from the same state (test-accept twin).
     An assertion inside a replayed step (CTxMemPool::check runs after every step) is a violation.
"""
import collections, hashlib, json, os, re
import vflib

SPEC = "Mempool"
OBS_INVARIANTS = {
    "C22": ["ObsChain", "ObsKnown", "ObsConsistent", "ObsNextBlockValid", "ObsLinks", "ObsTotals"],
    "C26": ["ObsReplacement", "ObsRejectNoEvict", "ObsPkgReplacement"],
    "C28": ["ObsTestPure", "ObsPolicyImpliesConsensus"],
    "C27": ["ObsKnown", "ObsUsage", "ObsClusterLimits", "ObsMinFeeAboveEvicted", "ObsTruc", "ObsDust"],
    "C29": ["ObsKnown", "ObsPkgShape", "ObsPkgGate", "ObsPkgNoDangling", "ObsPkgResults"],
    "C55": ["ObsKnown", "ObsDumpOk", "ObsDumpOrder", "ObsLoadTruncated", "ObsLoadRoundTrip", "ObsLoadSafe"],
}
FINDING_C28 = "testaccept-ignores-expiry-of-ancestor"


def norm_obs(o):
    return dict(pool=sorted(o["pool"]),
                entries=sorted([dict(t=e["t"], fee=e["fee"], mfee=e["mfee"], vsize=e["vsize"], parents=sorted(e["parents"]),
                                     children=sorted(e["children"])) for e in o["entries"]], key=lambda e: e["t"]),
                deltas=sorted(o["deltas"], key=lambda d: d["t"]), tsize=o["tsize"], tfee=o["tfee"], height=o["height"],
                utxo=sorted(o["utxo"], key=lambda c: (c["t"], c["i"])),
                minfee=o["minfee"], unb=sorted(o["unb"]), times=sorted(o["times"], key=lambda d: d["t"]))


def norm_res(r):
    out = dict(ok=r["ok"], why=r["why"], evict=sorted(r["evict"]), pure=r["pure"])
    if "txr" in r:
        out["txr"] = [dict(k=x["k"], why=x["why"]) for x in r["txr"]]
    return out


def prepare(ctx, binary, uni, mucfg):
    """Universe -> real transactions -> measured fee / vsize / weight. Cached per (universe, node options)."""
    cache = ctx.__dict__.setdefault("_mp_prepared", {})
    if (uni, mucfg) in cache:
        return cache[(uni, mucfg)]
    tag = "%s_%s" % (uni, mucfg[:-4])
    # the printed universe is a function of these files only: a JVM start is saved when none of them changed since the last run
    h = hashlib.sha1()
    for f in ("Uni_%s.tla" % uni, "UniCommon.tla", "MU_%s.tla" % uni, mucfg, os.path.join("..", "lib", "VF.tla")):
        h.update(open(os.path.join(vflib.SPECS, SPEC, f), "rb").read())
    cdir = os.path.join(vflib.BUILD, "cache", "mempool")
    os.makedirs(cdir, exist_ok=True)
    cpath = os.path.join(cdir, "universe_%s_%s.json" % (tag, h.hexdigest()[:16]))
    if os.path.exists(cpath):
        universe = json.load(open(cpath))
    else:
        r = ctx.tlc(SPEC, "MU_" + uni, mucfg, name="MU_" + tag, workers=1)
        rows = [x for x in vflib.load_emitted(r.emit_path) if "universe" in x]
        if not rows:
            raise vflib.InfraError("module MU_%s did not print its universe" % uni)
        universe = rows[0]
        json.dump(universe, open(cpath + ".tmp%d" % os.getpid(), "w"))
        os.replace(cpath + ".tmp%d" % os.getpid(), cpath)
    upath = os.path.join(ctx.work, "universe_%s.json" % tag)
    json.dump(universe, open(upath, "w"))
    mpath = ctx.run_driver(binary, "measure", args=["-", upath], out_name=os.path.join(ctx.work, "measure_%s.ndjson" % tag))
    meas = [json.loads(l) for l in open(mpath) if l.startswith("{")]
    if len(meas) != len(universe["universe"]):
        raise vflib.InfraError("measure step returned %d transactions for a universe of %d" % (len(meas), len(universe["universe"])))
    # glue sanity: the dust thresholds the specification assumes per script class (Mempool!DustLimit) are the node's
    spec_dust = dict(key=576, wtrue=330, wdrop=330, wbig=330, anchor=240, opret=0, true=474, nopx=477, fail=480, cltv=489)
    for t, T in enumerate(universe["universe"], 1):
        if T.get("twin"):
            continue
        for i, o in enumerate(T["outs"]):
            if o["cls"] in spec_dust and meas[t - 1]["dustlimit"][i] != spec_dust[o["cls"]]:
                raise vflib.InfraError("universe %s tx %d output %d (%s): node's dust threshold %s, specification's %s" % (
                    uni, t, i + 1, o["cls"], meas[t - 1]["dustlimit"][i], spec_dust[o["cls"]]))
    # glue sanity: the fee the node computes from the real transactions is inputs - outputs of the universe definition
    val = {(0, i + 1): c["v"] for i, c in enumerate(universe["base"])}
    for t, T in enumerate(universe["universe"], 1):
        for i, o in enumerate(T["outs"], 1):
            val[(t, i)] = o["v"]
    for t, T in enumerate(universe["universe"], 1):
        ins = [tuple(i["op"]) for i in T["ins"]]
        if all(k in val for k in ins) and not T.get("twin"):
            fee = sum(val[k] for k in ins) - sum(o["v"] for o in T["outs"])
            if fee != meas[t - 1]["fee"]:
                raise vflib.InfraError("universe %s tx %d: measured fee %s differs from the definition's %s" % (uni, t, meas[t - 1]["fee"], fee))
    ctx.extra.setdefault("measured_universe", {})[tag] = [[m["fee"], m["vsize"], m["weight"]] for m in meas]
    cache[(uni, mucfg)] = (upath, mpath, universe, meas)
    return cache[(uni, mucfg)]


def obs_cfg(ctx, cfg, invariants):
    """Derive the configuration of the observation module from the scenario's: same constants, states = observed lines."""
    src = open(os.path.join(vflib.SPECS, SPEC, cfg)).read()
    consts = src[:src.index("INIT ")]
    path = os.path.join(ctx.work, "Obs_" + cfg)
    with open(path, "w") as f:
        f.write(consts + "INIT InitObs\nNEXT Stutter\nINVARIANTS %s\nCHECK_DEADLOCK FALSE\n" % " ".join(invariants))
    return path


def check_deviations(ctx, prop, res, uni, cfg, mpath, args):
    devs = res["deviations"]
    ctx.extra["deviations_from_prediction"] = ctx.extra.get("deviations_from_prediction", 0) + int(res["summary"].get("deviations", 0))
    if not devs:
        return
    lines = {}
    twins = {}
    for d in devs:
        case = json.loads(res["lines"][d["index"]])
        k = d["step"]
        pre = case["steps"][k - 1]["m"] if k > 0 else case["init_m"]
        st = d["state"]
        line = dict(pre=pre, act=d["action"], res=st.get("@result"), exp=case["steps"][k]["m"], post=st["obs"])
        lines.setdefault(vflib.canon(line), (line, d, case))
        if prop == "C28" and d["action"][0] in ("submit", "test"):
            tw = dict(init=case["init"], steps=[dict(a=s["a"], r=None, exp=s["exp"]) for s in case["steps"][:k]] +
                      [dict(a=["twin", d["action"][1]], r=dict(agree=True, pure=True), exp=None)])
            twins.setdefault(vflib.canon([pre, d["action"][1]]), tw)
    by_class = ctx.extra.setdefault("deviation_classes", {})
    ctx.log("%d deviations from the prediction (%d distinct observed transitions); classifying for %s" % (len(devs), len(lines), prop))
    for line, d, case in lines.values():
        exp_r = case["steps"][d["step"]]["r"]
        got = line["res"] or {}
        cls = "%s: predicted %s/%s, node %s/%s" % (d["action"][0], exp_r.get("ok"), exp_r.get("why"), got.get("ok"), got.get("why"))
        by_class[cls] = by_class.get(cls, 0) + 1
        if d["action"][0] == "submit" and exp_r.get("ok") and not got.get("ok"):
            ctx.extra["diverged_conservative"] = ctx.extra.get("diverged_conservative", 0) + 1
    # ---- TLC evaluates the property's invariants on the observed transitions
    keys = list(lines)
    cfgp = obs_cfg(ctx, cfg, OBS_INVARIANTS[prop])
    path = os.path.join(ctx.work, "observed.ndjson")
    bad = 0
    remaining = keys
    for _ in range(8):
        if not remaining:
            break
        with open(path, "w") as f:
            for k in remaining:
                f.write(json.dumps(lines[k][0]) + "\n")
        r = ctx.tlc(SPEC, "MCO_" + uni, cfgp, name="observed", env={"OBS": path, "MP_MEASURE": mpath}, expect_violation=True, workers=1)
        if r.error:
            raise vflib.InfraError("evaluation of observed states failed: %s (log %s)" % (r.error, r.log_path))
        if not r.violated:
            break
        m = re.search(r'lastAct = <<"observed", (\d+)>>', open(r.log_path).read())
        i = int(m.group(1)) - 1 if m else 0
        line, d, case = lines[remaining[i]]
        ctx.violation("obs:%s:%s" % (r.violated, vflib.digest([d["action"], line["post"]["pool"], line["res"]])),
                      "node after %s breaks %s: result %s, pool %s (pool before %s; prediction differed: %s)" % (
                          vflib.canon(d["action"]), r.violated, vflib.canon(line["res"]), line["post"]["pool"], line["pre"]["pool"], d["why"]),
                      dict(adapter="mempool", mode="replay", args=args, case=strip_case(case), mismatch=d, invariant=r.violated))
        bad += 1
        remaining = remaining[:i] + remaining[i + 1:]
    ctx.extra["benign_deviation_states"] = ctx.extra.get("benign_deviation_states", 0) + len(keys) - bad
    # ---- C28: verdict equality is a relation between two calls of the node: ask the node (test-accept, then submit)
    if twins:
        tests = list(twins.values())
        binary = res["binary"]
        r2 = ctx.run_harness(binary, "strict", tests, args=args, name="twin")
        ctx.extra["twin_checks"] = ctx.extra.get("twin_checks", 0) + len(tests)
        vflib.report_mismatches(ctx, binary, "strict", r2, args=args, adapter="mempool", what_prefix="test-accept twin: ", key_fn=twin_key)


def twin_key(m, case):
    """Stable key of the one known disagreement: test-accept says ok, the submission answers "mempool full" although the pool is far
    from its limit (the adapter's twin step agrees by itself when the pool is full)."""
    if "test-accept: ok / submit: mempool full" in (m.get("why") or ""):
        return FINDING_C28
    return "twin:%s" % vflib.digest([m.get("action"), m.get("why")])


def confirm_expiry_finding(ctx, binary, stats, limit=4):
    """C28 as stated is contradicted where LimitMempoolSize expires an in-pool ancestor of the new transaction: the model predicts
    submit -> "mempool full" from states where its test-accept verdict is ok and nothing was trimmed. Those transitions are looked up
    in the replayed paths and the node is asked for both verdicts from that state; a confirmed disagreement is reported under one key."""
    tests, seen = [], set()
    for p in stats["paths"]:
        for k, s in enumerate(p["steps"]):
            if s["a"][0] == "submit" and s["r"]["why"] == "mempool full":
                key = vflib.canon([p["steps"][k - 1]["m"] if k else p["init_m"], s["a"][1]])
                if key in seen:
                    continue
                seen.add(key)
                tests.append(dict(init=p["init"], steps=[dict(a=x["a"], r=None, exp=x["exp"]) for x in p["steps"][:k]] +
                                  [dict(a=["twin", s["a"][1]], r=dict(agree=True, pure=True), exp=None)]))
    ctx.extra["submit_mempool_full_without_trim_in_model"] = ctx.extra.get("submit_mempool_full_without_trim_in_model", 0) + len(tests)
    if not tests:
        return 0
    tests = tests[:limit]
    r = ctx.run_harness(binary, "strict", tests, args=stats["args"], name="expiry_twin")
    ctx.extra["twin_checks"] = ctx.extra.get("twin_checks", 0) + len(tests)
    vflib.report_mismatches(ctx, binary, "strict", r, args=stats["args"], adapter="mempool", what_prefix="test-accept twin: ", key_fn=twin_key)
    return len(r["mismatches"])


def path_cover(g, max_len=300):
    """Paths from the initial state that together traverse every edge of the graph. Unlike vflib.Graph.path_cover a path that
    runs out of untraversed edges walks on (over traversed ones) to the nearest state that still has some, instead of ending:
    a fresh node per path is the expensive part here."""
    remaining = {k: list(v) for k, v in g.out.items() if k in g.parent}
    todo = sum(len(v) for v in remaining.values())
    order = [k for k in g.parent if remaining.get(k)]
    oi = 0

    def nearest(src):
        # BFS over all edges to a state with untraversed out-edges; returns the list of edges leading there
        seen = {src: None}
        dq = collections.deque([src])
        while dq:
            k = dq.popleft()
            if k != src and remaining.get(k):
                p = []
                while seen[k] is not None:
                    pk, a, r = seen[k]; p.append((a, r, k)); k = pk
                return list(reversed(p))
            for a, r, kt in g.out.get(k, ()):
                if kt not in seen:
                    seen[kt] = (k, a, r); dq.append(kt)
        return None

    while todo > 0:
        while oi < len(order) and not remaining.get(order[oi]):
            oi += 1
        if oi >= len(order):
            break
        start = order[oi]
        root, p = g.tree_path(start)
        steps = [dict(a=a, r=r, exp=g.nodes[k]) for a, r, k in p]
        cur = start
        while len(steps) < max_len:
            if remaining.get(cur):
                a, r, kt = remaining[cur].pop(); todo -= 1
                steps.append(dict(a=a, r=r, exp=g.nodes[kt])); cur = kt
                continue
            hop = nearest(cur)
            if not hop:
                break
            for a, r, k in hop:
                steps.append(dict(a=a, r=r, exp=g.nodes[k]))
            cur = hop[-1][2]
        yield dict(init=g.nodes[root], steps=steps)


def strip_case(case):
    return dict(init=case["init"], steps=[dict(a=s["a"], r=s["r"], exp=s["exp"]) for s in case["steps"]])


def judge_usage(ctx, res):
    """C27: the node's DynamicMemoryUsage after every replayed step against its max_size_bytes: the adapter reports the maximum per
    test; TLC evaluates the clause (module UsageObs) on the distinct pairs."""
    pend = ctx.__dict__.setdefault("_mp_usage_pairs", set())
    if res is not None:
        pend |= {(i["max_usage"], i["limit"]) for i in res["infos"] if "max_usage" in i}
        return                                # judged once, at the end of the check (judge_usage(ctx, None))
    pairs = sorted(pend)
    ctx.extra["max_observed_usage_by_limit"] = {str(l): max(u for u, l2 in pairs if l2 == l) for l in sorted({p[1] for p in pairs})}
    if not pairs:
        return
    lines = [dict(usage=u, limit=l) for u, l in pairs]
    for i, inv in vflib.judge(ctx, SPEC, "UsageObs", "UsageObs.cfg", lines, name="usage"):
        ctx.violation("usage:%s" % vflib.digest(lines[i]), "mempool usage %s bytes exceeds the limit of %s bytes after a replayed step" % (lines[i]["usage"], lines[i]["limit"]),
                      dict(adapter="mempool", observation=lines[i], invariant=inv))


def run_scenario(ctx, binary, prop, uni, cfg, mucfg="MU_std.cfg", nontrivial=None, timeout=3000, always_judge=False):
    """Model-check scenario <cfg> of universe <uni>, replay every transition on the node, classify deviations for <prop>.
    Returns statistics: per (action, why) counts and the set of Rule 4 margins seen on replacement attempts."""
    upath, mpath, universe, meas = prepare(ctx, binary, uni, mucfg)
    r = ctx.tlc(SPEC, "MC_" + uni, cfg, name=cfg[:-4], env={"MP_MEASURE": mpath}, timeout=timeout)
    recs = vflib.load_emitted(r.emit_path)
    if not recs:
        raise vflib.InfraError("no transitions emitted by %s" % cfg)
    # every transition carries the full target state; the source is looked up by key (only initial states print it)
    full = {}
    for e in recs:
        full[vflib.canon(e["tk"])] = e["t"]
        if e.get("l") == 1:
            full.setdefault(vflib.canon(e["fk"]), e["f"])
    stats = dict(per=collections.Counter(), m4=set(), m3=set(), nclusters=set(), replaced=collections.Counter(), txr=collections.Counter(),
                 trims=0, tight=0, paths=[], upath=upath, mpath=mpath)
    for e in recs:
        if e.get("l") == 1 and "opts" in e["f"]:
            o = e["f"].pop("opts")
            if any(universe["opts"].get(k) != v for k, v in o.items()):
                raise vflib.InfraError("%s assumes node options %s but the universe was prepared with %s (%s)" % (cfg, o, universe["opts"], mucfg))
    for e in recs:
        e["f"] = full[vflib.canon(e["fk"])]
        dbg = e["r"].pop("dbg")
        stats["trims"] += len(e["r"].get("trims", ())); stats["tight"] += bool(e["r"].get("tight"))
        e["r"] = norm_res(e["r"])
        for x in e["r"].get("txr", ()):
            stats["txr"][(x["k"], x["why"])] += 1
        e["r"]["rbf"] = bool(e["a"][0] in ("submit", "test") and dbg["nc"] > 0)      # a replacement attempt (bookkeeping for the evidence only)
        stats["per"][(e["a"][0], e["r"]["why"])] += 1
        if e["a"][0] == "submit" and dbg["nc"] > 0:
            stats["m4"].add(dbg["m4"]); stats["m3"].add(dbg["m3"]); stats["nclusters"].add(dbg["nc"])
            if e["r"]["ok"]:
                stats["replaced"][len(e["r"]["evict"])] += 1
    g = vflib.Graph(recs)
    paths = []
    for p in path_cover(g):
        q = dict(init=dict(obs=norm_obs(p["init"]["obs"])), init_m=p["init"]["model"],
                 steps=[dict(a=s["a"], r={k: v for k, v in s["r"].items() if k != "rbf"}, exp=dict(obs=norm_obs(s["exp"]["obs"])),
                             m=s["exp"]["model"], rbf=s["r"]["rbf"]) for s in p["steps"]])
        paths.append(q)
        if nontrivial is None or nontrivial(q):
            ctx.nontrivial.add(vflib.digest([s["a"] for s in q["steps"]]))
    ctx.extra["model_transitions_covered"] = ctx.extra.get("model_transitions_covered", 0) + g.nedges
    ctx.log("%s: %d states, %d transitions -> %d paths, %d steps" % (cfg, len(g.nodes), g.nedges, len(paths), sum(len(p["steps"]) for p in paths)))
    if paths:
        mid = max(paths, key=lambda p: len({s["a"][0] for s in p["steps"]}))
        ctx.sample(dict(scenario=cfg, actions=[s["a"] for s in mid["steps"]][:40], expected_results=[s["r"]["why"] for s in mid["steps"]][:40],
                        expected_final_pool=mid["steps"][-1]["exp"]["obs"]["pool"]))
    args = [upath]      # no fork per test: a forked child has no scheduler thread and blocks in LimitValidationInterfaceQueue
    res = ctx.run_harness(binary, "replay", paths, args=args, name="E1_" + cfg[:-4])
    res["binary"] = binary
    ctx.evaluations += int(res["summary"]["tests"]); ctx.traces += int(res["summary"]["tests"])
    ctx.extra["replayed_steps"] = ctx.extra.get("replayed_steps", 0) + int(res["summary"]["steps"])
    vflib.report_mismatches(ctx, binary, "replay", res, args=args, adapter="mempool", what_prefix="Mempool %s: " % cfg)
    check_deviations(ctx, prop, res, uni, cfg, mpath, args)
    if always_judge:
        judge_usage(ctx, res)
    ctx.extra.setdefault("transitions_per_action_and_result", {})[cfg] = {"%s/%s" % k: v for k, v in sorted(stats["per"].items())}
    if stats["tight"]:
        raise vflib.InfraError("%s: %d trim decisions of the model are closer to the size limit than the margin: re-shape the universe" % (cfg, stats["tight"]))
    stats["paths"] = paths
    stats["args"] = args
    stats["meas"] = meas
    return stats


def need(stats, pairs, name):
    missing = [p for p in pairs if not stats["per"].get(tuple(p))]
    if missing:
        raise vflib.InfraError("vacuity (%s): (action, predicted result) never occurs in the bounded model: %s" % (name, missing))


def replay(ctx, path):
    """./check <ID> --replay <file>: re-execute one stored failing case against the current tree (the universe is re-materialised
    and re-measured first, the work directory of the original run is gone)."""
    o = json.load(open(path))
    if o.get("case") is None or not o.get("args"):
        print("replay file has no replayable payload")
        return 2
    m = re.match(r"universe_(\w+?)_(MU_\w+)\.json$", os.path.basename(o["args"][0]))
    if not m:
        print("replay file does not name its universe")
        return 2
    binary = ctx.build_adapter("mempool")
    upath, mpath, universe, meas = prepare(ctx, binary, m.group(1), m.group(2) + ".cfg")
    r = ctx.run_harness(binary, o.get("mode", "replay"), [json.dumps(o["case"])], args=[upath], nproc=1, name="replay")
    bad = r["mismatches"] + r["aborts"] + r["deviations"]
    for x in bad:
        print("REPLAY %s:" % x.get("kind"), json.dumps(x)[:2000])
    print("REPLAY result: %s" % ("still differs from the prediction" if bad else "passes"))
    return 1 if bad else 0
