"""C25 — the transaction graph answers like a naive graph with a consistent linearization (specs/TxGraph, engines E2 + E3)."""
import collections, concurrent.futures, json, os
import vflib

META = dict(
    engine="E2",
    level="model_checking",
    text="specs/TxGraph/TxGraph.tla is the naive graph: main and staging as (transactions, transitively closed ancestor relation), fee/size per Ref, "
         "one action per public call of TxGraph (AddTransaction, RemoveTransaction in ancestor-/descendant-closed batches, AddDependency, "
         "SetTransactionFee, StartStaging/CommitStaging/AbortStaging, Trim, DoWork, ~Ref in batches closed in both levels, a BlockBuilder with "
         "Include/Skip, and every inspector for main and top) with the interface's documented preconditions as enabling conditions. TLC checks the "
         "model exhaustively on small constants (well-formedness, naive answers mutually consistent, staging start/commit/abort and 'mutators leave "
         "main alone', a BlockBuilder freezes main, Trim's postcondition, every non-oversized cluster has a topological order with connected chunks) "
         "and generates seeded operation sequences (a sixth of them opening with a scripted 'dependency applied by a non-ordering inspector, then a removal' shape) over 6 transaction slots with limits 3 transactions / 5 size units per cluster, so oversize, Trim "
         "and staging are dense. The harness replays them on a real TxGraph (SanityCheck after every call): structural answers (Exists, ancestors, "
         "descendants, clusters, unions, counts, distinct clusters, oversize status, individual feerates) must equal the specification's prediction; "
         "all ordering answers obtained between two calls that may change a linearization (GetCluster order, chunk feerates, CompareMainOrder, "
         "BlockBuilder chunk sequences with skips, worst chunk, main/staging diagrams) are logged and TxGraphObs.tla (TLC) decides whether there is, per "
         "cluster, one topological linearization with connected chunks, and one merge of the clusters' chunks by non-increasing feerate, from which they "
         "all derive. What Trim removed is checked against its postcondition (limits respected, removed set closed under descendants, no effect "
         "unless oversized) and the answers right after it against the naive graph without the removed set.",
    note="Sampled (TLC -simulate, seeded): up to 6 simultaneous transactions, 60 calls per behaviour. Structure is compared exactly, ordering by relation "
         "(tie-breaks, optimality and the DoWork flag are not judged). IsOversized(MAIN) while staging exists is the value at StartStaging (documented: "
         "Ref destruction does not clear it). A behaviour ends at a Trim whose removed set differs from the one the specification drew among those "
         "its postcondition allows.",
    technique="TLA+ spec TxGraph + TLC (exhaustive small model; -simulate generator) replayed on the real TxGraph; ordering answers and Trim results "
              "judged by TLC (TxGraphObs) per observation",
)

MUTATORS = ("add", "remove", "dep", "setfee", "start", "commit", "abort", "trim", "dowork", "destroy", "bbstart", "bbstep", "bbend")
QUERIES = ("exists", "count", "oversized", "havestaging", "ifr", "anc", "desc", "cluster", "ancu", "descu", "ndistinct", "chunkfr", "cmp", "worst",
           "diagrams", "sweep")


def judge_parts(ctx, obs, cfg):
    """TLC judges every observation; the lines are split over a few single-worker TLC processes. Returns [(line index, invariant)]."""
    if not obs:
        return []
    jobs = max(1, min(vflib.free_cpus(), 6, (len(obs) + 799) // 800))
    parts = [list(range(k, len(obs), jobs)) for k in range(jobs)]

    def work(k):
        bad = vflib.judge(ctx, "TxGraph", "TxGraphObs", cfg, [obs[i] for i in parts[k]], env_var="OBS", name="observed-%d" % k)
        return [(parts[k][i], inv) for i, inv in bad]
    out = []
    with concurrent.futures.ThreadPoolExecutor(max_workers=jobs) as ex:
        for r in ex.map(work, range(jobs)):
            out += r
    return out


def replay_and_judge(ctx, binary, tests, name, obs_cfg, confirm_mode=False):
    res = ctx.run_harness(binary, "replay", tests, name=name)
    nproc = res["nproc"]
    obs, origin = [], []
    for s in range(nproc):
        p = os.path.join(ctx.work, "%s.in.%d.obs" % (name, s))
        if os.path.exists(p):
            for ln in open(p):
                o = json.loads(ln)
                obs.append(o); origin.append(o["test"] * nproc + s)
            os.remove(p)
    bad = judge_parts(ctx, obs, obs_cfg)
    return res, obs, origin, bad


def run(ctx):
    binary = ctx.build_adapter("txgraph")
    quick = ctx.tier == "quick"
    # 1. the model itself, exhaustively on small constants
    # (VERIF_C25_ONLY=replay skips it: the model does not change when /repo is mutated in the binding self-tests)
    only = os.environ.get("VERIF_C25_ONLY", "")
    mc_cfgs = [] if only == "replay" else ["MC_quick_a.cfg", "MC_quick_b.cfg"] if quick else ["MC_quick_a.cfg", "MC_quick_b.cfg", "MC_mid.cfg", "MC_small.cfg"]
    # 2. generator: seeded random behaviours of the specification (runs side by side with the exhaustive runs)
    sim_cfg, obs_cfg, num = ("Sim_quick.cfg", "Obs_quick.cfg", 160) if quick else ("Sim_thorough.cfg", "Obs_thorough.cfg", 800)
    depth = 60
    with concurrent.futures.ThreadPoolExecutor(max_workers=3) as ex:
        sim = ex.submit(lambda: ctx.tlc("TxGraph", "TxGraph", sim_cfg, simulate=(num, depth)))
        mcs = [ex.submit(lambda c=c: ctx.tlc("TxGraph", "TxGraph", c, emit=False, workers=2 if quick else None)) for c in mc_cfgs]
        for f in mcs:
            f.result()
        r = sim.result()
    tests = vflib.sim_behaviours(r.emit_path)
    per_action = collections.Counter(s["a"][0] for t in tests for s in t["steps"])
    missing = [a for a in MUTATORS + QUERIES if not per_action[a]]
    if missing:
        raise vflib.InfraError("vacuity: actions never taken by the generator: %s" % missing)
    # the scripted openings (TxGraph.tla, Scripts): a dependency applied by an inspector that needs no linearization, then a removal
    pat = ["add", "add", "dep", "sweep", "add", "dep", None, "remove", "sweep"]
    scripted = 0
    for t in tests:
        acts = [x["a"] for x in t["steps"]]
        for off in (0, 1, 2):
            w = acts[off:off + 9]
            if len(w) == 9 and all(p is None or p == a[0] for p, a in zip(pat, w)) and w[7][2] == "desc" and w[7][4] == [w[7][1]]:
                scripted += 1
                break
    if scripted < 5:
        raise vflib.InfraError("vacuity: only %d behaviours start with a scripted lazy-merge-then-split opening" % scripted)
    ctx.extra["scripted_lazy_merge_split_behaviours"] = scripted
    oversized_states = sum(1 for t in tests for s in t["steps"] if s["a"][0] == "oversized" and s["r"] is True)
    if not oversized_states:
        raise vflib.InfraError("vacuity: the generator never reached an oversized graph")
    # 3. replay on the real TxGraph (structure: exact) and judge the logged ordering answers / Trim results with TLC
    res, obs, origin, bad = replay_and_judge(ctx, binary, tests, "replay", obs_cfg)
    s = res["summary"]
    ctx.evaluations += int(s["steps"]); ctx.traces += int(s["tests"])
    for t in tests:
        acts = [x["a"] for x in t["steps"]]
        if any(a[0] in ("trim", "commit", "destroy") for a in acts):
            ctx.nontrivial.add(vflib.digest(acts))
    mid = tests[len(tests) // 2]
    ctx.sample(dict(actions=[x["a"] for x in mid["steps"][:25]], predicted=[x["r"] for x in mid["steps"][:25]]))
    if obs:
        ctx.sample(dict(observation=obs[len(obs) // 2]))
    vflib.report_mismatches(ctx, binary, "replay", res, adapter="txgraph", what_prefix="TxGraph replay (structural answers must equal the naive graph; an abort is an assertion of the code under test, e.g. SanityCheck): ")
    seen = set()
    for i, inv in bad:
        o = obs[i]
        if inv == "PreconditionsHeld":
            raise vflib.InfraError("an ordering inspector was called outside its precondition (model/harness defect): %s" % json.dumps(o)[:600])
        key = "%s:%s" % (inv, vflib.digest([o["state"]["main"], o["state"]["staging"], o.get("R")]))
        if inv in seen:           # one report (and one confirming re-run) per violated clause
            continue
        seen.add(inv)
        case = tests[origin[i]]
        what = ("ordering answers admit no single linearization per cluster (with connected chunks) in state main=%s staging=%s fee=%s size=%s: %s" % (
                    json.dumps(o["state"]["main"]), json.dumps(o["state"]["staging"]), o["state"]["fee"], o["state"]["size"], json.dumps(o["ans"])[:400])
                if inv == "OrderingConsistent" else
                "Trim removed %s from top graph %s (limits %s, sizes %s): %s" % (
                    o.get("R"), json.dumps(o["state"]["staging"] if o["state"]["hs"] else o["state"]["main"]), json.dumps(o["state"]["cfg"]), o["state"]["size"],
                    "postcondition violated (a cluster still exceeds a limit, the set is not closed under descendants, or the graph was not oversized)"
                    if inv == "TrimPostcondition" else "the answers right after it differ from the naive graph without that set: %s" % json.dumps(o.get("after"))[:300]))

        def confirm(case=case, inv=inv):
            r2, obs2, _, bad2 = replay_and_judge(ctx, binary, [json.dumps(case)], "confirm", obs_cfg)
            return bool(r2["aborts"] or r2["mismatches"] or any(v == inv for _, v in bad2))
        ctx.violation(key, what, dict(adapter="txgraph", mode="replay", args=[], case=case, observation=o, invariant=inv, obs_cfg=obs_cfg), confirm=confirm)
    ctx.extra["generated_steps_per_action"] = dict(per_action)
    ctx.extra["harness_counters"] = {k: int(v) for k, v in s.items() if k not in ("tests", "steps", "mismatches", "deviations") and not k.startswith("op_")}
    ctx.extra["observations_judged"] = len(obs)
    ctx.extra["generator_queries_in_oversized_state"] = oversized_states
    for k in ("epochs", "sweeps", "builder_walks"):
        if not s.get(k) and not ctx.violations:
            raise vflib.InfraError("vacuity: harness counter %s = 0" % k)
    if not (s.get("trim_same_choice") or s.get("trim_other_choice")) and not ctx.violations:
        raise vflib.InfraError("vacuity: Trim never removed anything")
    ctx.assumptions += ["sampled behaviours (TLC -simulate, seed = VERIF_SEED): at most 6 simultaneous transactions, clusters limited to 3 transactions / 5 size units",
                        "callers respect the interface's preconditions (they are the enabling conditions of the specification's actions)",
                        "transactions are removed only in ancestor-closed or descendant-closed batches, as the interface asks for",
                        "tie-breaks between equal-feerate chunks of different clusters, optimality of linearizations and DoWork's return value are not judged"]
    return ctx.finish(level="model_checking", exhaustive=False,
                      rule="TLC -simulate behaviours of specs/TxGraph (60 calls each) replayed on a real TxGraph; non-trivial = distinct behaviours that contain a "
                           "Trim, a CommitStaging or a Ref destruction")


def replay(ctx, path):
    o = json.load(open(path))
    binary = ctx.build_adapter("txgraph")
    res, obs, _, bad = replay_and_judge(ctx, binary, [json.dumps(o["case"])], "replay1", o.get("obs_cfg", "Obs_quick.cfg"))
    fails = res["mismatches"] + res["aborts"]
    for m in fails:
        print("REPLAY %s:" % m.get("kind"), json.dumps(m)[:1500])
    for i, inv in bad:
        print("REPLAY observation violates %s: %s" % (inv, json.dumps(obs[i])[:1500]))
    print("REPLAY result: %s" % ("still fails" if (fails or bad) else "passes"))
    return 1 if (fails or bad) else 0
