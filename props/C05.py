"""C05 — timelocks and coinbase maturity are enforced exactly (specs/UtxoChain with the "locks" universe, engine E1 on a real node)."""
import os, sys
sys.path.insert(0, os.path.dirname(os.path.abspath(__file__)))
import vflib, _utxochain

META = dict(
    engine="E1",
    level="model_checking",
    text="The 'locks' universe places one transaction on each side of every boundary: coinbase with 99 / 100 confirmations, nLockTime = height and "
         "height-1, nLockTime = median-time-past and MTP-1 (BIP113), all-final sequences overriding nLockTime, BIP68 height and 512-second time locks "
         "satisfied exactly at / one block after, BIP68 ignored for version 1. UtxoChain transcribes IsFinalTx, CalculateSequenceLocks / "
         "EvaluateSequenceLocks and the maturity rule; TLC proves the active chain always satisfies the declarative rules; every transition (blocks at "
         "two time steps on any parent) is replayed on a real node whose base chain has 512-second spacing, and the tip the node activates must be "
         "exactly the predicted one (both directions at each boundary).",
    note="Bounded: <= 2 (quick) / 3 (thorough) new blocks. Exactness is required for the activated tip (accept vs reject); reject reason strings are not compared.",
    technique="TLA+ spec UtxoChain (lock rules transcribed) + TLC exhaustive; path cover replayed on a real node; tip exactness evaluated by TLC on deviations",
)
RELEVANT = {"ObsChainValid", "ObsUtxoIsReplay", "ObsTipExact"}


def run(ctx):
    binary = ctx.build_adapter("utxochain")
    nontrivial = lambda p: any(s["a"][0] == "mine" and len(s["a"][2]) > 0 for s in p["steps"])
    name = "c05q" if ctx.tier == "quick" else "locks3"
    pa, pr = _utxochain.run_scenario(ctx, binary, "MC_locks", "MCO_locks", name, RELEVANT, nontrivial)
    _utxochain.need(pr, ["connected", "bad-txns-nonfinal", "bad-txns-premature-spend-of-coinbase"], "C05")
    ctx.assumptions += ["bounded scenario: base chain of 101 blocks spaced 512 s, 4 base coinbases of heights 1..4, new blocks 1 s or 600 s after their parent"]
    return ctx.finish(level="model_checking", exhaustive=True,
                      rule="path cover of every transition of the bounded UtxoChain graph with the locks universe; non-trivial = distinct paths mining a block with a transaction")
