"""Shared driver of the wallet properties C41, C56 (specs/WalletSpend) and C44 (specs/WalletBalance).

Fixture (harness/adapters/walletnode.cpp): a real descriptor CWallet attached through interfaces::Chain to an in-process regtest node.

  C41 / C56 (engine E3, code -> spec):
    1. TLC -simulate of the small wallet model WalletSpendGen generates behaviours: wallet settings, a coin table (output types, immature /
       locked / unconfirmed coins), then calls (lock, mine, create with recipient lists / feerates / coin control, bump, respend).
    2. The adapter executes each behaviour on a fresh node + wallet and logs every call: arguments, facts about the wallet's outputs taken
       from the node (utxo set, mempool), the wallet's coin list, the result and the node's test-accept verdict.
    3. TLC evaluates the relation of WalletSpend on every logged call (module WalletSpendObs, one initial state per call).
"""
import collections, concurrent.futures, json, os
import vflib

SPEND = "WalletSpend"
C41_INVS = ["ObsInputsOK", "ObsAvailSound", "ObsRecipientsPaid", "ObsReductionIsFee", "ObsChangeToWallet", "ObsFeeBounds", "ObsAccepted",
            "ObsNoInternalBug"]
C56_INVS = ["ObsBumpRefused", "ObsBumpInputs", "ObsBumpOutputs", "ObsBumpFee", "ObsBumpReplaces", "ObsBumpNoInternalBug"]
LIGHT_JVM = {"JAVA_TOOL_OPTIONS": "-XX:TieredStopAtLevel=1 -XX:ParallelGCThreads=2"}


def seed_hex(ctx):
    return "%064x" % (0x5eed0000 + ctx.seed)


def gen_behaviours(ctx, cfg, num, depth, name, aril=0):
    """Simulated behaviours of the generator model -> adapter scripts {init: {wallet, coins}, steps: [{a}]}."""
    r = ctx.tlc(SPEND, "WalletSpendGen", cfg, simulate=(num, depth), name=name, extra_args=["-aril", str(aril)], env=LIGHT_JVM)
    out = []
    for b in vflib.sim_behaviours(r.emit_path):
        init = dict(coins=[], wallet={})
        steps = []
        for s in b["steps"]:
            a = s["a"]
            if a[0] == "wallet":
                init["wallet"] = a[1]
            elif a[0] == "coin":
                init["coins"].append(a[1])
            elif a[0] == "start":
                pass
            else:
                steps.append(dict(a=a))
        if steps and init["coins"]:
            out.append(dict(init=init, steps=steps))
    return out, r


def run_scripts(ctx, binary, tests, name):
    """Executes the behaviours; returns (lines, result): every logged call as a dict with test (index into tests) and step."""
    res = ctx.run_harness(binary, "script", tests, args=[ctx.seed], name=name, env={"RANDOM_CTX_SEED": seed_hex(ctx)})
    if res["aborts"]:
        return [], res
    lines = sorted(res["traces"], key=lambda o: (o["index"], o["step"]))
    errs = [o for o in res["infos"] if o.get("kind") == "error"]
    if errs:
        raise vflib.InfraError("adapter could not execute a behaviour: %s" % json.dumps(errs[0])[:800])
    return lines, res


def judge(ctx, lines, invariants, name):
    """TLC evaluates `invariants` of WalletSpendObs on every logged call; returns [(line, invariant)]."""
    if not lines:
        return []
    bad = vflib.judge(ctx, SPEND, "WalletSpendObs", "Obs.cfg", lines, invariants=invariants, name=name)
    return [(lines[i], inv) for i, inv in bad]


def short_call(o):
    a = o.get("args", {})
    if o["e"] == "create":
        return "create via=%s recips=%s cc=%s -> %s" % (a.get("via"), [(r["kind"], r["v"], r["sffo"]) for r in a.get("recips", [])],
                                                      {k: v for k, v in a.get("cc", {}).items() if v not in ("", [], -1, False)},
                                                      {k: o["res"].get(k) for k in ("ok", "err", "tx", "fee", "vsize", "changepos", "ins", "accept") if k in o["res"]})
    if o["e"] == "bump":
        return "bump %s args=%s -> %s" % (o.get("orig", {}).get("tx"), a, {k: v for k, v in o["res"].items() if k != "new"})
    return json.dumps(o)[:300]


def report(ctx, prop, tests, bad, mode="script"):
    n = 0
    for line, inv in bad:
        key = "%s:%s" % (inv, vflib.digest([line["e"], line.get("args"), line.get("res", {}).get("err")]))
        case = tests[line["index"]]
        what = "%s is false on call %d of behaviour %d: %s" % (inv, line["step"], line["index"], short_call(line))
        if ctx.violation(key, what, dict(adapter="walletnode", mode=mode, args=[ctx.seed], case=case, invariant=inv, observed=line)):
            n += 1
    return n


def replay(ctx, path, invariants):
    """./check <ID> --replay <file>: re-execute the stored behaviour on the current tree and judge it again."""
    o = json.load(open(path))
    if not o.get("case"):
        print("replay file has no replayable payload")
        return 2
    binary = ctx.build_adapter("walletnode")
    lines, res = run_scripts(ctx, binary, [o["case"]], "replay")
    for a in res["aborts"]:
        print("REPLAY abort:", json.dumps(a)[:1000])
    bad = judge(ctx, lines, invariants, "replay")
    for line, inv in bad:
        print("REPLAY %s false on step %d: %s" % (inv, line["step"], short_call(line)))
    print("REPLAY result: %s" % ("still fails" if bad or res["aborts"] else "passes"))
    return 1 if bad or res["aborts"] else 0


def create_stats(lines, ev, nontrivial):
    """What the driven calls exercised (vacuity guard and evidence only - never a verdict)."""
    for o in lines:
        ev["calls:" + o["e"]] += 1
        if o["e"] != "create":
            continue
        a, r = o["args"], o["res"]
        facts = o["facts"]
        if not r["ok"]:
            ev["create_refused"] += 1
            ev["refused:" + r["err"].split("(")[0].strip()[:60]] += 1
            continue
        ev["create_ok"] += 1
        ev["create_ok_via_" + a["via"]] += 1
        sffo = [x for x in a["recips"] if x["sffo"]]
        change = r["changepos"] >= 0
        interesting = False
        if sffo:
            ev["ok_sffo_%s" % ("change" if change else "nochange")] += 1
            interesting = True
            if len(sffo) >= 2:
                ev["ok_sffo_multi"] += 1
                red = [x["v"] - r["outs"][k + (1 if change and r["changepos"] <= k else 0)]["v"] for k, x in enumerate(a["recips"]) if x["sffo"]]
                if len(set(red)) > 1:
                    ev["ok_sffo_remainder"] += 1
                if sum(red) < 0:
                    ev["ok_sffo_negative_reduction"] += 1
            elif not change:
                red = sum(x["v"] - r["outs"][k]["v"] for k, x in enumerate(a["recips"]) if x["sffo"])
                if red < r["fee"]:
                    ev["ok_sffo_leftover_to_recipient"] += 1
                if red < 0:
                    ev["ok_sffo_negative_reduction"] += 1
        else:
            ev["ok_plain_%s" % ("change" if change else "nochange")] += 1
        txs = facts["txs"]
        coins = {c["id"]: c for c in facts["coins"]}
        for i in r["ins"]:
            c = coins.get(i)
            if c is None:
                ev["input_external"] += 1
                interesting = True
                continue
            t = txs[c["tx"]]
            if t["cb"]:
                ev["input_coinbase_depth_%s" % ("100" if t["depth"] == 100 else "101+" if t["depth"] > 100 else "lt100")] += 1
            if t["depth"] == 0:
                ev["input_unconfirmed_%s" % ("self" if all(x["mine"] for x in t["ins"]) else "others")] += 1
                interesting = True
            if c["locked"]:
                ev["input_locked_preset"] += 1
        if a["cc"]["preset"]:
            ev["ok_with_preset"] += 1
        if not r["accept"]["ok"]:
            ev["ok_but_not_accepted:" + r["accept"]["why"]] += 1
        else:
            ev["ok_and_accepted"] += 1
        if r.get("committed"):
            ev["committed"] += 1
        if any(not x["std"] for x in a["recips"]):
            ev["ok_nonstandard_recipient"] += 1
        if interesting or len(a["recips"]) > 1:
            nontrivial.add(vflib.digest([o["index"], o["step"]]))
    # coins the wallet refused to list although the table has them: what the exclusions were exercised on
    for o in lines:
        if o["e"] != "create":
            continue
        txs = o["facts"]["txs"]
        avail = set(o["avail"])
        for c in o["facts"]["coins"]:
            if c["id"] in avail or not c["exists"] or c["poolspent"]:
                continue
            t = txs[c["tx"]]
            if t["cb"] and t["depth"] < 101:
                ev["excluded_immature"] += 1
            elif c["locked"]:
                ev["excluded_locked"] += 1
            elif t["depth"] == 0:
                ev["excluded_unconfirmed"] += 1
