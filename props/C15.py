"""C15 — layered coin caches behave like a single map (specs/CoinsCache, engines E1 + E3)."""
import collections, json, os
import vflib

META = dict(
    engine="E1",
    level="model_checking",
    text="TLC exhaustively checks the CoinsCache specification (map equivalence, FRESH/DIRTY sanity, flush/sync postcondition) on the bounded model; "
         "every transition of that state graph is then replayed on real CCoinsViewCache stacks over a CCoinsViewDB with lookups, database content and "
         "flags compared after each step and SanityCheck() recomputing the accounting. Exhaustive within the bound, which is where FRESH/DIRTY corner cases live.",
    note="Bounded: 2-3 outpoints, 2 coin values, 2-3 layers. Callers are assumed to respect the AddCoin(possible_overwrite=false) contract. "
         "A flag-only difference is a violation only if TLC finds one of the specification's invariants false on the implementation's state.",
    technique="TLA+ spec CoinsCache + TLC exhaustive state graph; one implementation test per transition (graph replay)",
)


def check_deviations(ctx, res, cfg):
    """The implementation's FRESH/DIRTY bookkeeping differs from the model's although every lookup agreed. That is a
    violation of C15 only if the observed state breaks an invariant the map behaviour depends on (a FRESH entry whose
    parent still has the coin, a clean entry that differs from its parent, spent-but-clean ...): TLC evaluates the
    specification's invariants on the implementation's own states."""
    devs = res["deviations"]
    ctx.extra["flag_deviations"] = ctx.extra.get("flag_deviations", 0) + int(res["summary"].get("deviations", 0))
    if not devs:
        return
    states = {}
    for d in devs:
        case = json.loads(res["lines"][d["index"]])
        exp = case["steps"][d["step"]]["exp"]
        st = d["state"]
        model = [exp["view"][i] if "unusable" not in exp["view"][i].values() else st["db"] for i in range(len(exp["view"]))]
        line = dict(db=st["db"], cache=st["cache"], model=model)
        states.setdefault(vflib.canon(line), (line, d, case))
    path = os.path.join(ctx.work, "deviation_states.ndjson")
    keys = list(states)
    with open(path, "w") as f:
        for k in keys:
            f.write(json.dumps(states[k][0]) + "\n")
    bad = 0
    # TLC stops at the first violated invariant: bisect by removing the reported state until clean (bounded)
    remaining = keys
    for _ in range(6):
        if not remaining:
            break
        with open(path, "w") as f:
            for k in remaining:
                f.write(json.dumps(states[k][0]) + "\n")
        r = ctx.tlc("CoinsCache", "CoinsCacheState", cfg, name="devstate", env={"STATES": path}, expect_violation=True, workers=1)
        if not r.violated:
            break
        txt = open(r.log_path).read()
        import re
        m = re.search(r'lastAct = <<"observed", (\d+)>>', txt)
        i = int(m.group(1)) - 1 if m else 0
        line, d, case = states[remaining[i]]
        ctx.violation("deviation:%s:%s" % (r.violated, vflib.digest(d["action"])),
                      "implementation state after %s breaks invariant %s of CoinsCache (flags differ from the model: %s)" % (
                          vflib.canon(d["action"]), r.violated, d["why"]),
                      dict(adapter="coins", mode="replay", args=[], case=case, mismatch=d, invariant=r.violated))
        bad += 1
        remaining = remaining[:i] + remaining[i + 1:]
    ctx.extra["benign_flag_deviation_states"] = len(keys) - bad


def run(ctx):
    binary = ctx.build_adapter("coins")
    configs = [("MC_2x2.cfg", "E1_2x2.cfg")] if ctx.tier == "quick" else [("MC_2x2.cfg", "E1_2x2.cfg"), ("MC_2x3.cfg", "E1_2x3.cfg"), ("MC_3x2.cfg", None)]
    per_action = collections.Counter()
    exhaustive = True
    for mc, e1 in configs:
        ctx.tlc("CoinsCache", "CoinsCache", mc)            # invariants + action property on the bounded model
        if not e1:
            continue
        r = ctx.tlc("CoinsCache", "CoinsCache", e1, name=e1[:-4])
        g = vflib.Graph(vflib.load_emitted(r.emit_path))
        # one implementation test per transition while that fits in memory; for the multi-million-edge graphs of the thorough tier
        # a path cover (every transition traversed once, on long paths) streamed to a file
        big = g.nedges > 500000
        tests_path = os.path.join(ctx.work, e1[:-4] + ".tests.ndjson")
        ntests, nlayers, mid = 0, None, None
        with open(tests_path, "w") as f:
            for t in (g.path_cover(max_len=400) if big else g.edge_tests()):
                if nlayers is None:
                    nlayers = len(t["init"]["cache"])
                for s in (t["steps"] if big else t["steps"][-1:]):
                    per_action[s["a"][0]] += 1
                a = t["steps"][-1]["a"]
                if big or (a[0] in ("add", "spend", "flush", "sync", "reset") and len(t["steps"]) > 1):
                    ctx.nontrivial.add(vflib.digest([t["init"], [s["a"] for s in t["steps"]]]))
                if mid is None or ntests == 1000:
                    mid = dict(init=t["init"], actions=[s["a"] for s in t["steps"]][:30], expected_final=t["steps"][-1]["exp"])
                f.write(json.dumps(t) + "\n"); ntests += 1
        ctx.sample(mid)
        ctx.log("E1 %s: %d states, %d transitions -> %d implementation tests%s" % (e1, len(g.nodes), g.nedges, ntests, " (path cover)" if big else ""))
        del g
        res = ctx.run_harness(binary, "replay", tests_path, name=e1[:-4])
        ctx.evaluations += int(res["summary"]["tests"]); ctx.traces += int(res["summary"]["tests"])
        ctx.extra.setdefault("replayed_steps", 0); ctx.extra["replayed_steps"] += int(res["summary"]["steps"])
        vflib.report_mismatches(ctx, binary, "replay", res, adapter="coins", what_prefix="CoinsCache %s: " % e1)
        check_deviations(ctx, res, "State_%d.cfg" % nlayers)
    missing = [a for a in ("access", "have", "peek", "haveincache", "add", "spend", "uncache", "flush", "sync", "reset") if not per_action[a]]
    if missing:
        raise vflib.InfraError("vacuity: actions never taken in the bounded model: %s" % missing)
    ctx.extra["transitions_per_action"] = dict(per_action)
    ctx.assumptions += ["bounded model: 2 outpoints x 2 coin values x 2 layers (quick); 3 layers and 3 outpoints in thorough",
                        "callers respect the AddCoin(possible_overwrite=false) contract; a lower layer is used directly only while the layers above are empty",
                        "memory accounting is checked through CCoinsViewCache::SanityCheck (recomputation), not predicted in bytes"]
    return ctx.finish(level="model_checking", exhaustive=exhaustive,
                      rule="one implementation test per transition of the bounded CoinsCache state graph (BFS-tree path to the source state + the edge; graphs above 500k transitions: a path cover traversing every transition once); "
                           "non-trivial = distinct tests whose last action mutates (add/spend/flush/sync/reset) after at least one earlier step")
