"""C60 — addresses, subnets and bans are matched exactly (specs/NetAddr: NetAddr.tla engine E4, BanMan.tla engine E1)."""
import collections, concurrent.futures, json
import vflib

META = dict(
    engine="E4",
    level="model_checking",
    text="NetAddr.tla: an address is a network tag and a byte sequence. The property is stated declaratively (MatchSpec: subnet valid, address valid, "
         "same network, first p bits equal - equality for single-host Tor / I2P / CJDNS subnets) next to a transcription of the byte-wise code "
         "(MatchCode), with CSubNet(addr, prefix), CSubNet(addr, mask) incl. non-contiguous masks, CSubNet(addr), CNetAddr::IsValid, the 16-byte V1 "
         "encoding (SetLegacyIPv6 classification of embedded IPv4 / Tor v2 / internal forms) and the BIP155 V2 decoder (network id x payload size -> "
         "address / stream failure / skipped). TLC proves on every row of a boundary domain that both forms agree, that prefix and mask construction "
         "denote the same subnet, that flipping the last prefix bit / the first host bits behaves as named, that IPv4 and IPv6 round-trip through V1 "
         "and V2, every gossipable network through V2, and that V1 turns Tor / I2P / CJDNS into all-zeros; the rows (IPv4: every prefix length 0..32 "
         "x 3 bases x 6 variants x 2 constructions; IPv6: byte/word boundary lengths (thorough: 0..128); every sample subnet x every sample address "
         "across networks incl. NAT64, 6to4, documentation, loopback, all-zero, CJDNS-looking IPv6; wire inputs for ids 0-7/255 x 9 sizes; embedded "
         "forms and their one-byte neighbours) are replayed on the real CSubNet / CNetAddr / CService / CAddress and on ToString -> LookupHost / "
         "LookupSubNet (decision rows incl. CJDNS reachable or not). BanMan.tla: one action per public call as coded (a ban only extends; expired "
         "entries linger until a sweep; IsBanned tests now < until, the sweep now > until; only successful mutations dump), a ghost logical ban list, "
         "invariants SweepTransparent / AnswersExact (every IsBanned(addr), IsBanned(subnet), GetBanned and IsDiscouraged answer equals 'an unexpired "
         "logical ban covers it' / 'discouraged since construction'); every transition of the bounded state graph (2 subnets x 3 addresses x "
         "expiries over a mock clock 0..3, relative / default / absolute bans incl. already-expired ones, restart from banlist.json) is replayed "
         "on a real BanMan with all non-mutating queries compared after each step.",
    note="Text codecs (base32, IPv6 text, checksums) are not modelled: the model only says which value must come back from print -> parse. "
         "Match is false for addresses CNetAddr::IsValid rejects (0.0.0.0, 255.255.255.255, ::, 2001:db8::/32, internal) even inside the prefix - modelled as coded. "
         "A CJDNS address prints as IPv6 text and parses back to CJDNS only through LookupSubNet while CJDNS is reachable - modelled as coded. "
         "GetBanned still lists an entry during the one second where now = until although IsBanned already answers false (sweep uses >, IsBanned <) - "
         "modelled as coded and reported as an observation. Discouragement is a rolling bloom filter; the model stays far below its capacity and "
         "ignores its 1e-6 false-positive rate.",
    technique="TLA+ operators (declarative = coded) with TLC-enumerated oracle table replayed on CSubNet/CNetAddr/CService/CAddress/LookupSubNet; "
              "TLA+ state machine of BanMan checked by TLC and replayed transition by transition on the real BanMan",
)

BAN_ACTIONS = ("ban_subnet ban_addr unban_subnet unban_addr isbanned_addr isbanned_subnet getbanned clear discourage isdiscouraged tick restart").split()


def run(ctx):
    binary = ctx.build_adapter("netaddr")
    quick = ctx.tier == "quick"

    # ---- 1. subnet matching, serialization and text decisions: oracle table (E4)
    cfg = "MC_ban_quick.cfg" if quick else "MC_ban_thorough.cfg"
    w = max(1, vflib.free_cpus() // 2)
    with concurrent.futures.ThreadPoolExecutor(max_workers=2) as ex:       # the two models are independent: two JVMs side by side
        f1 = ex.submit(lambda: ctx.tlc("NetAddr", "NetAddr", "MC_addr_quick.cfg", workers=w) if quick
                       else ctx.tlc("NetAddr", "MC_addr_thorough", "MC_addr_thorough.cfg", workers=w))
        f2 = ex.submit(lambda: ctx.tlc("NetAddr", "MC_BanMan", cfg, timeout=2400, workers=w))
        r, rb = f1.result(), f2.result()
    rows = [json.loads(l) for l in open(r.emit_path)]
    if len(rows) != r.distinct:
        raise vflib.InfraError("emitted %d rows for %d distinct states" % (len(rows), r.distinct))
    kinds = collections.Counter(x["in"]["kind"] for x in rows)
    outcomes = collections.Counter()
    for x in rows:
        if x["in"]["kind"] == "match":
            outcomes["match_%s_%s" % ("valid" if x["out"]["valid"] else "invalid", "yes" if x["out"]["match"] else "no")] += 1
            if x["out"]["valid"] and x["in"]["x"]["b"] != x["in"]["a"]["b"]:
                ctx.nontrivial.add(vflib.digest(x["in"]))
        elif x["in"]["kind"] == "wire2":
            outcomes["wire2_" + x["out"]["res"]] += 1
    for need in ("match_valid_yes", "match_valid_no", "match_invalid_no", "wire2_addr", "wire2_throw"):
        if not outcomes[need]:
            raise vflib.InfraError("vacuity: no table row with outcome " + need)
    for k in ("match", "ser", "wire1", "wire2", "str"):
        if not kinds[k]:
            raise vflib.InfraError("vacuity: no table row of kind " + k)
    res = ctx.run_harness(binary, "table", rows, name="table")
    ctx.evaluations += int(res["summary"]["tests"]); ctx.traces += int(res["summary"]["tests"])
    ctx.extra["table_rows_per_kind"] = dict(kinds)
    ctx.extra["table_outcomes"] = dict(outcomes)
    for i in (0, len(rows) // 2):
        ctx.sample(rows[i])
    vflib.report_mismatches(ctx, binary, "table", res, adapter="netaddr", what_prefix="NetAddr: ",
                            key_fn=lambda m, case: "row:" + vflib.digest(m.get("why")))

    # ---- 2. the ban list: invariants on the bounded model + every transition replayed on the real BanMan (E1)
    g = vflib.Graph(vflib.load_emitted(rb.emit_path))
    tests = list(g.path_cover(max_len=80))      # every transition is traversed by at least one path
    per_action = collections.Counter()
    for outs in g.out.values():
        for a, r, kt in outs:
            per_action[a[0]] += 1
    for t in tests:
        for i, s in enumerate(t["steps"]):
            # a query / unban / restart / tick while a ban is in force before or after the step
            before = t["steps"][i - 1]["exp"] if i else t["init"]
            if s["a"][0] in ("isbanned_addr", "isbanned_subnet", "getbanned", "unban_subnet", "unban_addr", "restart", "tick") and (
                    any(s["exp"]["banned_subnet"].values()) or any(before["banned_subnet"].values())):
                ctx.nontrivial.add(vflib.digest([before, s["a"], s["exp"]]))
    missing = [a for a in BAN_ACTIONS if not per_action[a]]
    if missing:
        raise vflib.InfraError("vacuity: BanMan actions never taken in the bounded model: %s" % missing)
    ctx.log("BanMan %s: %d states, %d transitions -> %d implementation tests" % (cfg, len(g.nodes), g.nedges, len(tests)))
    ctx.sample(dict(actions=[s["a"] for s in tests[len(tests) // 2]["steps"]], expected_final=tests[len(tests) // 2]["steps"][-1]["exp"]))
    res2 = ctx.run_harness(binary, "replay", tests, name="banman")
    ctx.evaluations += int(res2["summary"]["tests"]); ctx.traces += int(res2["summary"]["tests"])
    ctx.extra["banman_replayed_steps"] = int(res2["summary"]["steps"])
    ctx.extra["banman_transitions_per_action"] = dict(per_action)
    vflib.report_mismatches(ctx, binary, "replay", res2, adapter="netaddr", what_prefix="BanMan %s: " % cfg)

    ctx.assumptions += ["finite boundary-valued address domain; values between the boundaries behave like their neighbours",
                        "text codecs are exercised but not modelled (the model predicts the value that comes back)",
                        "BanMan: bounded model (2-3 subnets, 3-4 addresses, clock 0..3); discouragement filter far below capacity, false positives ignored"]
    ctx.extra["observations"] = ["GetBanned lists an entry whose nBanUntil equals the current time although IsBanned already reports it as not banned "
                                 "(SweepBanned removes on now > until, IsBanned tests now < until): a one-second window, modelled as coded",
                                 "CSubNet::Match is false for addresses rejected by CNetAddr::IsValid even if they share the prefix (e.g. 0.0.0.0 in 0.0.0.0/0)"]
    return ctx.finish(level="model_checking", exhaustive=True,
                      rule="every row of the boundary-valued table (non-trivial = match rows on a valid subnet with an address different from the base) and a set of "
                           "paths (<= 80 steps) traversing every transition of the bounded BanMan state graph (non-trivial = queries / unbans / restarts / ticks with a ban in force before or after)")
