"""C54 — block index navigation and chainwork are correct (specs/ChainIndex, engines E3 + E4)."""
import collections, json, os, subprocess
import vflib

META = dict(
    engine="E3",
    level="model_checking",
    text="ChainIndex.tla states the definitions naively over a parent array (ancestor by parent walk, last common ancestor = deepest common "
         "ancestor, FindFork as worded in the code, locator heights with the step doubling, block proof by the relation "
         "w*(t+1) <= 2^256 < (w+1)*(t+1) over exact base-256 digit arithmetic, chain work = sum over the ancestry) next to incrementally "
         "maintained ancestry tables; TLC proves on every tree of the bounded model that both agree and that the definitions have the stated "
         "properties. Tables (E4): compact targets over exponents x mantissa boundaries x sign (SetCompact's overflow/negative flags equal the "
         "numeric reading; proof 0 exactly for zero/negative/overflowing targets), locator heights for all tip heights up to 700 and around powers "
         "of two up to 5000, skip heights, and a tall-chain table (tip heights 2^k+8..2^k+11 for k = 1..22 and beyond, where the locator gains an "
         "entry: locator heights ending at genesis, GetAncestor at every locator height, skip pointer) replayed on one linear chain of 4.2-4.5 million "
         "real CBlockIndex entries. The harness builds seeded random trees of real CBlockIndex objects linked as AddToBlockIndex does "
         "(pprev, nHeight, BuildSkip, nChainWork += GetBlockProof) and logs every answer of GetAncestor (complete walks and random heights incl. "
         "out of range), LastCommonAncestor, CChain::SetTip/FindFork/Contains/Next/operator[]/Height/Tip/Genesis, LocatorEntries/GetLocator, "
         "GetBlockProof and nChainWork; the trace specification re-evaluates every line: trees up to 400 blocks with the full ancestry in the "
         "state, trees of 5000 blocks through heights, GetBitsProof of every table row through the relation.",
    note="Exact mode for returned blocks and work. Skip pointers are internals: required to be proper ancestors with one skip height per height; "
         "a different GetSkipHeight formula is reported as a deviation count, not a violation. GetBlockProofEquivalentTime is not covered.",
    technique="TLA+ definitions model-checked on all small trees; TLC trace validation of logged queries on seeded random block trees; oracle tables",
)


def drive(ctx, binary):
    """Records the trace. An assertion failure / crash of the code under test while it is driven is a verdict (the adapter flushes the
    trace and appends an Abort line), anything else that goes wrong is an infrastructure error."""
    out = os.path.join(ctx.work, "drive.trace.ndjson")
    env = dict(os.environ); env["TMPDIR"] = ctx.tmp
    with open(out, "w") as f, open(out + ".err", "w") as err:
        p = subprocess.run(["timeout", "1200", binary, "drive", str(ctx.seed), ctx.tier], stdout=f, stderr=err, env=env, cwd=ctx.tmp)
    if p.returncode == 0:
        return out
    last = subprocess.run(["tail", "-n", "1", out], stdout=subprocess.PIPE, text=True).stdout.strip()
    if p.returncode == 3 and last.startswith('{"e":"Abort"'):
        o = json.loads(last)
        n = sum(1 for _ in open(out))
        ctx.violation("abort:" + vflib.digest(o["call"].split(" ")[0]),
                      "the code under test aborted (signal %s) in %s after %d logged calls: %s" % (o["sig"], o["call"], n - 1, open(out + ".err").read()[-300:].strip()),
                      dict(adapter="chainindex", mode="drive", args=[ctx.seed, ctx.tier], abort=o))
        return None
    raise vflib.InfraError("driver chainindex drive failed (exit %s): %s" % (p.returncode, open(out + ".err").read()[-2000:]))


def run(ctx):
    binary = ctx.build_adapter("chainindex")
    quick = ctx.tier == "quick"
    # 1. the definitions on every tree of the bounded model
    r = ctx.tlc("ChainIndex", "ChainIndex", "MC_quick.cfg" if quick else "MC_thorough.cfg", timeout=2400)
    ctx.extra["bounded_model_states"] = r.distinct

    # 2. E4 tables
    t = ctx.tlc("ChainIndex", "ChainTables", "Tables.cfg" if quick else "Tables_thorough.cfg", name="tables", timeout=1200)
    rows = [json.loads(l) for l in open(t.emit_path)]
    kinds = collections.Counter(x["kind"] for x in rows)
    if len(rows) != t.distinct or not all(kinds[k] for k in ("bits", "loc", "skip", "tall")):
        raise vflib.InfraError("tables: %d rows for %d states (%s)" % (len(rows), t.distinct, dict(kinds)))
    nzero = sum(1 for x in rows if x["kind"] == "bits" and x["zero"])
    if not nzero or nzero == kinds["bits"]:
        raise vflib.InfraError("vacuity: the compact-target table has %d zero-class rows of %d" % (nzero, kinds["bits"]))
    tall = [x for x in rows if x["kind"] == "tall"]
    rows = [x for x in rows if x["kind"] != "tall"]
    if len(tall) < 80 or max(x["h"] for x in tall) < 2 ** 22 + 11 or max(len(x["hs"]) for x in tall) < 34:
        raise vflib.InfraError("vacuity: the tall-chain table has %d rows" % len(tall))
    # one process, one chain of millions of blocks (not sharded: every shard would build its own)
    tres = ctx.run_harness(binary, "tall", tall, args=[max(x["h"] for x in tall)], nproc=1, name="tall")
    ctx.evaluations += int(tres["summary"]["tests"])
    ctx.extra["tall_chain"] = dict(blocks=max(x["h"] for x in tall) + 1, tip_heights=len(tall), longest_locator=max(len(x["hs"]) for x in tall),
                                   ancestor_queries=int(tres["summary"].get("tall_ancestor_queries", 0)),
                                   skip_height_formula_deviations=int(tres["summary"].get("deviations", 0)))
    vflib.report_mismatches(ctx, binary, "tall", tres, args=[max(x["h"] for x in tall)], adapter="chainindex", what_prefix="ChainIndex tall chain: ",
                            key_fn=lambda m, case: "tall:" + vflib.digest(__import__("re").sub(r"\d+", "N", m.get("why") or "")))
    res = ctx.run_harness(binary, "table", rows, name="tables")
    ctx.evaluations += int(res["summary"]["tests"])
    ctx.extra["table_rows"] = dict(kinds)
    ctx.extra["skip_height_formula_deviations"] = int(res["summary"].get("deviations", 0))
    vflib.report_mismatches(ctx, binary, "table", res, adapter="chainindex", what_prefix="ChainIndex tables: ",
                            key_fn=lambda m, case: "table:" + vflib.digest(m.get("why")))
    proof_lines = [dict(e="Proof", bits=o["bits"], w=o["w"]) for o in res["traces"]]
    if not res["aborts"] and len(proof_lines) + len(res["mismatches"]) < kinds["bits"]:
        raise vflib.InfraError("harness returned %d proof lines for %d compact-target rows" % (len(proof_lines), kinds["bits"]))

    # 3. E3: logged queries on seeded random trees + the proofs of the table rows, judged line by line
    trace = drive(ctx, binary)
    if trace is None:
        return ctx.finish(level="model_checking", exhaustive=False, rule="the driven code aborted while the trace was recorded")
    with open(trace, "a") as f:
        for o in proof_lines:
            f.write(json.dumps(o) + "\n")
    lines = [json.loads(l) for l in open(trace)]
    ev = collections.Counter(l["e"] for l in lines)
    for e in ("Reset", "Add", "AddH", "Anc", "Walk", "LCA", "SetTip", "Fork", "Contains", "Next", "At", "Loc", "Proof"):
        if not ev[e]:
            raise vflib.InfraError("vacuity: no %s line in the trace" % e)
    trees = [0]
    for l in lines:
        if l["e"] == "Reset":
            trees.append(0)
        elif l["e"] in ("Add", "AddH"):
            trees[-1] += 1
    trees = [n for n in trees if n]
    null_answers = sum(1 for l in lines if l["e"] in ("Anc", "Fork", "Next", "At") and l["r"] == 0)
    forks = sum(1 for l in lines if l["e"] == "LCA" and l["r"] not in (l["a"], l["b"]))
    if not null_answers or not forks or max(trees) < 4000 or not any(100 <= n <= 400 for n in trees):
        raise vflib.InfraError("vacuity: trees %s, %d nullptr answers, %d proper forks" % (sorted(trees)[-5:], null_answers, forks))
    acc, matched, tr = ctx.validate_trace("ChainIndex", "TraceChainIndex", "Trace.cfg", trace, timeout=2400)
    ctx.traces += len(trees)
    ctx.evaluations += len(lines)
    ctx.extra["trace_lines"] = dict(ev)
    ctx.extra["trees"] = dict(count=len(trees), largest=max(trees), with_full_ancestry_max=max(n for n in trees if n <= 400))
    ctx.log("E3: %d trees, %d lines, trace %s" % (len(trees), len(lines), "accepted" if acc else "REJECTED at line %d" % (matched + 1)))
    for i, l in enumerate(lines):
        if (l["e"] == "LCA" and l["r"] not in (l["a"], l["b"])) or (l["e"] == "Loc" and len(l["r"]) > 12) or \
           (l["e"] in ("Anc", "Walk") and l["r"] not in (0, l["b"])) or (l["e"] == "Fork" and l["r"] not in (0, l["b"])):
            ctx.nontrivial.add(vflib.digest([ctx.seed, i]))
    ctx.sample(lines[min(len(lines) - 1, 50)])
    ctx.sample(next(l for l in lines if l["e"] == "Loc" and len(l["r"]) > 12))
    if not acc:
        bad = lines[matched] if matched < len(lines) else None
        what = "trace line %d is not an answer the ChainIndex specification allows: %s" % (matched + 1, json.dumps(bad)[:400])
        if tr.violated and tr.violated != "NotAccepted":
            what = "invariant %s of ChainIndex is false after trace line %d: %s" % (tr.violated, matched, json.dumps(bad)[:300])
        keep = os.path.join(vflib.EVID, "replay", "%s-%d-trace.ndjson" % (ctx.prop, ctx.seed))
        os.makedirs(os.path.dirname(keep), exist_ok=True)
        # keep the tree of the failing line only: from its Reset to the line
        start = max((i for i in range(min(matched, len(lines) - 1) + 1) if lines[i]["e"] == "Reset"), default=0)
        with open(keep, "w") as f:
            for l in lines[start:matched + 1]:
                f.write(json.dumps(l) + "\n")
        ctx.violation("trace:%s" % (bad or {}).get("e"), what,
                      dict(module_dir="ChainIndex", module="TraceChainIndex", cfg="Trace.cfg", trace=keep, line=bad, seed=ctx.seed))
    ctx.assumptions += ["trees of more than 400 blocks are checked through heights only (plus complete parent walks of sampled blocks)",
                        "compact targets between the enumerated exponent / mantissa boundaries behave like their neighbours"]
    return ctx.finish(level="model_checking", exhaustive=False,
                      rule="seeded random block trees (tiny, hundreds, thousands of blocks; bushy, chain-like, reorg-like) with logged queries; "
                           "non-trivial = answers that are neither nullptr nor the queried block itself, proper forks, locators past the doubling point")
