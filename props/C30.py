"""C30 — feerate arithmetic is exact (specs/FeeFrac, engine E4)."""
import collections, json
import vflib

META = dict(
    engine="E4",
    level="model_checking",
    text="The arithmetic the code promises is written in TLA+ over arbitrary-precision integers (sign + base-10^4 limbs, limb multiplication and "
         "long division defined in the module): comparison by the sign of fee_a*size_b - fee_b*size_a with the size tie-break of ByRatioNegSize, "
         "floor/ceil of fee*at_size/size, exact products and quotients for Mul/Div and their fallbacks, the feerate-diagram definition of "
         "CompareChunks, and CFeeRate::GetFee rounding up. TLC enumerates the exhaustive small grid (fee -20..20, size 1..12, plus the empty FeeFrac) "
         "and a boundary grid whose products need up to 96 bits (fees +-1, +-(2^31-1), +-2^32, +-(2^63-1), -2^63, 2^33-1, 2^33, 2^34-1; sizes 1, 2, 2^31-1), "
         "decides the algebraic laws on the model (antisymmetry, transitivity on triples, strict total order, floor <= exact <= ceil with "
         "ceil-floor in {0,1}, negation symmetry, least-fee property of GetFee, antisymmetry of the diagram comparison and its agreement with the "
         "every-integer-size definition, agreement of the limb arithmetic with TLC's integers on the small grid) and emits one oracle row per "
         "case; every row is evaluated on the real ByRatio / ByRatioNegSize / CFeeRate comparison operators, Mul, MulFallback, Div, DivFallback, "
         "EvaluateFeeDown/Up, CompareChunks and CFeeRate::GetFee.",
    note="Finite domain: the stated small grid and boundary values; diagrams of up to 3 chunks over small alphabets plus 2-chunk diagrams with "
         "2^60-sized fees. Comparison of an empty FeeFrac by feerate (ByRatio) is left unspecified (0/0); only its documented position in the "
         "tie-broken order is checked. GetFee is only specified for non-negative rates. In the quick tier small-grid comparison rows pair every "
         "operand with a partner sub-grid (both positions); the thorough tier pairs the whole grid.",
    technique="TLA+ operators over limb arithmetic + TLC invariants; TLC-enumerated oracle table replayed on the real FeeFrac/CFeeRate operators",
)

KINDS = ("cmp", "eval", "div", "getfee", "chunks")


def wide(v):
    return isinstance(v, dict)


def negative(v):
    return v["neg"] if isinstance(v, dict) else v < 0


def run(ctx):
    binary = ctx.build_adapter("feefrac")
    cfg = "MC_quick.cfg" if ctx.tier == "quick" else "MC_thorough.cfg"
    r = ctx.tlc("FeeFrac", "FeeFrac", cfg, timeout=3000 if ctx.tier == "thorough" else 900)
    if "StackOverflowError" in open(r.log_path, errors="replace").read():
        raise vflib.InfraError("TLC ran out of stack while evaluating the specification (log %s)" % r.log_path)
    rows, seeds = [], 0
    with open(r.emit_path) as f:
        for l in f:
            x = json.loads(l)
            if x["kind"] == "seed":
                seeds += 1
            else:
                rows.append(x)
    if len(rows) + seeds != r.distinct:
        raise vflib.InfraError("emitted %d rows + %d seeds for %d distinct states" % (len(rows), seeds, r.distinct))
    by_kind = collections.Counter(x["kind"] for x in rows)
    # vacuity guards: every kind present, every predicted outcome present, wide values really present
    for k in KINDS:
        if not by_kind[k]:
            raise vflib.InfraError("vacuity: no row of kind " + k)
    cmp_rows = [x for x in rows if x["kind"] == "cmp"]
    for ratio in (-1, 0, 1):
        for total in (-1, 0, 1):
            if (ratio == 0 or ratio == total) and not any(x["ratio"] == ratio and x["total"] == total for x in cmp_rows):
                raise vflib.InfraError("vacuity: no comparison row with ratio %d / total %d" % (ratio, total))
    if not any(wide(x["ca"]) and len(x["ca"]["m"]) >= 7 for x in cmp_rows):
        raise vflib.InfraError("vacuity: no comparison row whose cross product exceeds 64 bits")
    outcomes = collections.Counter(x["cmp"] for x in rows if x["kind"] == "chunks")
    for o in ("less", "greater", "equivalent", "unordered"):
        if not outcomes[o]:
            raise vflib.InfraError("vacuity: no diagram row with outcome " + o)
    if sum(1 for x in rows if x.get("family") == "overflow") != 5:
        raise vflib.InfraError("vacuity: expected the 5 rows of the CompareChunks overflow family (4 reproducers + control)")
    ev = [x for x in rows if x["kind"] == "eval"]
    if not any(x["down"] != x["up"] and negative(x["prod"]) for x in ev):
        raise vflib.InfraError("vacuity: no inexact evaluation row with a negative fee")
    if not any(wide(x["prod"]) and len(x["prod"]["m"]) >= 7 for x in ev):
        raise vflib.InfraError("vacuity: no evaluation row whose product exceeds 64 bits")

    res = ctx.run_harness(binary, "table", rows)
    ctx.evaluations = int(res["summary"]["tests"]); ctx.traces = ctx.evaluations
    for k in KINDS:
        if int(res["summary"].get("rows_" + k, 0)) != by_kind[k]:
            raise vflib.InfraError("harness evaluated %s rows of kind %s, table has %d" % (res["summary"].get("rows_" + k), k, by_kind[k]))

    def nontrivial(x):
        k = x["kind"]
        if k == "cmp":
            return x["nonempty"] and not x["same"] and (x["ratio"] == 0 or wide(x["ca"]) or wide(x["cb"]) or negative(x["a"]["fee"]) or negative(x["b"]["fee"]))
        if k in ("eval", "div"):
            return x["down"] != x["up"]
        if k == "getfee":
            return x["vbytes"] > 0 and x["fee"] != 0 and (wide(x["fee"]) or x["fee"] * x["f"]["size"] != (0 if wide(x["f"]["fee"]) else x["f"]["fee"]) * x["vbytes"])
        return len(x["c0"]) + len(x["c1"]) >= 2
    ctx.nontrivial = set(vflib.digest(x) for x in rows if nontrivial(x))
    ctx.extra["rows_per_kind"] = dict(by_kind)
    ctx.extra["diagram_outcomes"] = dict(outcomes)
    ctx.extra["rows_with_wide_values"] = sum(1 for x in rows if any(wide(v) for v in x.values()) or
                                             any(wide(x.get(k, {}).get("fee")) for k in ("a", "b", "f") if isinstance(x.get(k), dict)))
    for k in KINDS:
        mine = [x for x in rows if x["kind"] == k]
        ctx.sample(mine[len(mine) // 2], limit=len(KINDS))
    # Rows of the "overflow" family reproduce a known finding (known_findings.jsonl): they get a stable key so that
    # ctx.violation prints KNOWN-FINDING instead of VIOLATION; once CompareChunks is fixed they simply pass.
    def family(m):
        idx = m.get("index")
        return json.loads(res["lines"][idx]).get("family") if idx is not None and idx < len(res["lines"]) else None
    known_family = [m for m in res["mismatches"] + res["aborts"] if family(m) == "overflow"]
    for m in known_family:
        case = json.loads(res["lines"][m["index"]])
        key = "chunks-overflow:" + vflib.digest([case["c0"], case["c1"]])

        def confirm(case=case):
            r2 = ctx.run_harness(binary, "table", [json.dumps(case)], nproc=1, name="confirm")
            return bool(r2["mismatches"] or r2["aborts"])
        ctx.violation(key, "FeeFrac: %s on row %s: %s" % (m.get("kind"), vflib.canon(case), m.get("why")),
                      dict(adapter="feefrac", mode="table", args=[], case=case, mismatch=m), confirm=confirm)
    rest = dict(res, mismatches=[m for m in res["mismatches"] if family(m) != "overflow"],
                aborts=[m for m in res["aborts"] if family(m) != "overflow"])
    ctx.extra["overflow_family_rows"] = sum(1 for x in rows if x.get("family") == "overflow")
    ctx.extra["overflow_family_mismatches"] = len(known_family)
    vflib.report_mismatches(ctx, binary, "table", rest, adapter="feefrac", what_prefix="FeeFrac: ",
                            key_fn=lambda m, case: "row:" + vflib.digest(case))
    ctx.assumptions += ["sizes are 1..2^31-1 (0 only in the empty FeeFrac); EvaluateFee/Div rows are restricted to results that fit int64 (the documented precondition)",
                        "CompareChunks grid inputs keep cumulative fee differences between the two diagrams inside int64; the five rows of the 'overflow' family "
                        "(fee sums inside int64, cross-diagram differences not) document the known finding chunks-overflow:*",
                        "values between the enumerated boundaries behave like their neighbours"]
    return ctx.finish(level="model_checking", exhaustive=True,
                      rule="one row per operand combination of the small grid and the boundary grid (TLC-enumerated, results computed by the specification's limb "
                           "arithmetic); non-trivial = distinct rows with unequal non-empty operands that tie, are negative or need more than 26 bits (cmp), "
                           "inexact quotients (eval/div), non-zero charged fees (getfee), diagrams with at least two chunks in total (chunks)")
