"""C13 — validation caches never change a verdict (specs/ValidationCache, engines E1 + E2 on a real regtest node)."""
import collections, json, os
import vflib

META = dict(
    engine="E1",
    level="model_checking",
    text="ValidationCache models a node over a fixed transaction universe: mempool acceptance and test-accept (PolicyScriptChecks under the STANDARD flags, "
         "ConsensusScriptChecks under the tip's flags, which store), block connection (consults the caches, stores nothing; an 'erased' cuckoo-cache entry stays visible), TestBlockValidity "
         "(the only block path that stores), and tip invalidation with mempool resurrection; the script-execution cache keyed by (wtxid, flags) and the "
         "signature cache keyed by (signature bytes, public key bytes as pushed, digest) exactly as CheckInputScripts / CachingTransactionSignatureChecker use them. Block flags "
         "depend on the height (regtest -testactivationheight), so the same spend is valid before and invalid after an activation; witness twins share a "
         "txid; signatures are reused under another digest, hash type or public key; where the spender supplies the key (P2WSH / P2SH OP_CHECKSIG, bare multisig) the same key appears in every encoding (compressed, uncompressed, hybrid, hybrid with the wrong parity header, off-curve Y) and the signature with low and high S, as witness twins (one txid) and scriptSig twins (one digest). Every action computes its verdict through the caches and cache-free; TLC proves "
         "they agree in every reachable state, and finds the disagreement for six deliberately broken cache keys (negative controls). Every transition is "
         "replayed on a real node with normal cache sizes (real signed transactions, real blocks): verdict, tip and mempool content must equal the cache-free "
         "prediction; the real caches are also probed and compared with the model's (reported, not judged).",
    note="EXACT on verdict classes (ok / script / noinputs / dup / conflict / bip30), tip height and mempool content. Bounded: every behaviour of 4-5 calls (quick) / 5-6 calls (thorough) per scenario family "
         "(flag change, witness twins, signature reuse; plus two activations and a mixed family in thorough); random walks over the whole 27-transaction universe in thorough. The spent outputs "
         "of a given outpoint cannot change (a txid commits to its outputs), so 'different inputs' is exercised as inputs that are missing after a reorg.",
    technique="TLA+ spec ValidationCache + TLC exhaustive (cached verdict = cache-free verdict; broken-key negative controls); path cover replayed on a real node",
)

SCENARIOS_QUICK = ["flags", "wit", "sig", "encw", "encs"]
SCENARIOS_THOROUGH = ["flags_t", "wit_t", "sig_t", "encw", "encs", "encw_t", "encs_t", "flags2", "mix"]
NEGATIVE = [("NEG_noflags", "execution cache keyed without the flags"), ("NEG_blockstd", "block path stores under the STANDARD flags"),
            ("NEG_txid", "execution cache keyed by txid"), ("NEG_sig_nodigest", "signature cache ignores the digest"),
            ("NEG_sig_nopk", "signature cache ignores the public key"),
            ("NEG_sig_noenc", "signature cache normalises the public key encoding (P2WSH spender-supplied key)"),
            ("NEG_sig_noenc_p2sh", "signature cache normalises the public key encoding (P2SH / bare multisig)")]
ACTIONS = ("submit", "test", "mine", "testblock", "invalidate")


def prepare(paths):
    for p in paths:
        p["init"] = None
        for s in p["steps"]:
            e = s["exp"]
            s["exp"] = dict(tip=e["tip"], pool=sorted(e["pool"]), ec=e["ec"], sc=e["sc"])
    return paths


def replay(ctx, binary, name, paths, upath, variant=()):
    args = [upath] + list(variant)
    res = ctx.run_harness(binary, "replay", paths, args=args, name="replay_%s%s" % (name, "_" + "_".join(variant) if variant else ""))
    s = res["summary"]
    ctx.evaluations += int(s["steps"]); ctx.traces += int(s["tests"])
    ctx.extra["replayed_steps"] = ctx.extra.get("replayed_steps", 0) + int(s["steps"])
    cmp_, dif = int(s.get("cache_states_compared", 0)), int(s.get("cache_state_differs", 0))
    ctx.extra["cache_states_compared"] = ctx.extra.get("cache_states_compared", 0) + cmp_
    ctx.extra["cache_states_differing_from_model"] = ctx.extra.get("cache_states_differing_from_model", 0) + dif
    if dif:
        first = [i for i in res["infos"] if i.get("kind") == "cachediff"]
        ctx.log("%s: real cache content differs from the model's in %d of %d states (verdicts are judged, caches are not); first: %s" % (
            name, dif, cmp_, json.dumps(first[0])[:600] if first else "?"))
    vflib.report_mismatches(ctx, binary, "replay", res, args=args, adapter="valcache",
                            what_prefix="ValidationCache %s%s: node verdict differs from the cache-free verdict; " % (name, " " + "+".join(variant) if variant else ""))
    return res


def scenario(ctx, binary, name, per_action, per_verdict, simulate=None):
    r = ctx.tlc("ValidationCache", "MC_c13", ("Sim_%s.cfg" if simulate else "E1_%s.cfg") % name, name=("Sim_" if simulate else "E1_") + name, simulate=simulate)
    recs = vflib.load_emitted(r.emit_path)
    uni = [x for x in recs if "universe" in x]
    edges = [x for x in recs if "universe" not in x]
    if not uni:
        raise vflib.InfraError("specification did not print its universe")
    upath = os.path.join(ctx.work, "universe_%s.json" % name)
    json.dump(uni[0], open(upath, "w"))
    for e in edges:
        per_action[e["a"][0]] += 1
        per_verdict[e["a"][0] + ":" + e["r"][0]] += 1
    if simulate:
        tmp = os.path.join(ctx.work, "sim_%s.ndjson" % name)
        with open(tmp, "w") as f:
            for e in edges:
                f.write(json.dumps(e) + "\n")
        paths = list(vflib.sim_behaviours(tmp))
    else:
        g = vflib.Graph(edges)
        paths = list(g.path_cover())
        ctx.extra["model_transitions_covered"] = ctx.extra.get("model_transitions_covered", 0) + g.nedges
        ctx.log("%s: %d states, %d transitions -> %d paths, %d steps" % (name, len(g.nodes), g.nedges, len(paths), sum(len(p["steps"]) for p in paths)))
    paths = prepare(paths)
    for p in paths:
        acts = [s["a"] for s in p["steps"]]
        # non-trivial: a validation that follows an insertion into a cache (some entry exists when it starts)
        if any((s["exp"]["ec"] or s["exp"]["sc"]) for s in p["steps"][:-1]):
            ctx.nontrivial.add(vflib.digest(acts))
    if paths:
        mid = paths[len(paths) // 2]
        ctx.sample(dict(scenario=name, actions=[s["a"] for s in mid["steps"]], expected_verdicts=[s["r"][0] for s in mid["steps"]]))
    replay(ctx, binary, name, paths, upath)
    return paths, upath


def run(ctx):
    binary = ctx.build_adapter("valcache")
    per_action, per_verdict = collections.Counter(), collections.Counter()
    # the model's own negative controls: with a broken cache key TLC must reach a wrong verdict
    for cfg, what in NEGATIVE:
        r = ctx.tlc("ValidationCache", "MC_c13", cfg + ".cfg", name=cfg, expect_violation=True, emit=False)
        if r.error:
            raise vflib.InfraError("negative control %s: %s" % (cfg, r.error))
        if r.violated not in ("Agree", "ChainValid", "PoolValid"):
            raise vflib.InfraError("negative control %s (%s): TLC found no wrong verdict (violated=%s); the model cannot see this class of defect" % (cfg, what, r.violated))
        ctx.extra.setdefault("negative_controls", {})[cfg] = r.violated
    kept = {}
    for name in (SCENARIOS_QUICK if ctx.tier == "quick" else SCENARIOS_THOROUGH):
        kept[name] = scenario(ctx, binary, name, per_action, per_verdict)
    if ctx.tier != "quick":
        # random walks over the whole universe (two activation heights)
        kept["all"] = scenario(ctx, binary, "all", per_action, per_verdict, simulate=(20, 8))
        # cross-checks: the same behaviours on a node with minimal caches, and on a node with script-check worker threads
        for name in ("flags_t", "sig_t", "encw", "encs", "all"):
            paths, upath = kept[name]
            replay(ctx, binary, name, paths, upath, variant=("nocache",))
            replay(ctx, binary, name, paths, upath, variant=("threads",))
    missing = [a for a in ACTIONS if not per_action[a]]
    need = ["submit:ok", "submit:script", "submit:dup", "submit:noinputs", "submit:conflict", "test:ok", "mine:ok", "mine:script", "mine:noinputs", "mine:bip30", "testblock:ok", "testblock:script"]
    missing += [v for v in need if not per_verdict[v]]
    if missing:
        raise vflib.InfraError("vacuity: never occurs in the bounded model: %s" % missing)
    ctx.extra["transitions_per_action"] = dict(per_action)
    ctx.extra["transitions_per_predicted_verdict"] = dict(per_verdict)
    ctx.assumptions += ["bounded behaviours over a 27-transaction universe funded by one base-chain transaction; base tip at height 104, CLTV activates at 106 (CSV at 107 in the two-flag scenarios)",
                        "script classes stand for concrete scripts (OP_TRUE, CLTV/CSV-violating spends, OP_NOP4, P2WSH, P2WPKH, 2-of-2 multisig, P2PK); the harness builds them, the model only knows their verdict per flag set",
                        "no worker threads in the main runs (TestBlockValidity then inserts into the execution cache); cache eviction by capacity is not exercised"]
    return ctx.finish(level="model_checking", exhaustive=True,
                      rule="path cover of every transition of the bounded ValidationCache graphs (plus random walks in thorough); one evaluation = one replayed call "
                           "whose verdict, tip and mempool content are compared; non-trivial = distinct paths with a validation after some cache insertion")
