"""C08 — the active chain is always a most-work chain free of invalid blocks (specs/BlockTree, engine E1 on a real node)."""
import os, sys
sys.path.insert(0, os.path.dirname(os.path.abspath(__file__)))
import vflib, _blocktree, _utxochain

META = dict(
    engine="E1",
    level="model_checking",
    text="BlockTree models header/block arrival, failure marking and the candidate-set bookkeeping of validation.cpp action by action; TLC checks "
         "exhaustively over all tree shapes, validity assignments and delivery orders (3 blocks + invalidate/reconsider in quick; 4-5 blocks in thorough) "
         "that the tip is a most-work eligible block, no failed/bad block is in the chain, invalidate moves the tip off the block and reconsider restores "
         "the most-work choice. Every transition of the 3-block graph is then replayed on a real in-process regtest ChainstateManager with really mined "
         "blocks (check_block_index on); where the node's state differs from the prediction, TLC evaluates the C08 invariants on the observed state.",
    note="Equal difficulty (work = height); invalid blocks are of two kinds (bad BIP34 height, missing-input spend). A deviation that keeps the "
         "invariants (e.g. a different tie-break between equal-work tips) is counted as benign, not reported. PreciousBlock and pruned data are not modelled here.",
    technique="TLA+ spec BlockTree + TLC exhaustive; path cover of the state graph replayed on a real node; invariants evaluated by TLC on observed states",
)
RELEVANT = {"ObsTipIsMostWork", "ObsTipIsMostWorkTrue", "ObsNoFailedInChain", "ObsChainHasData", "ObsNoBadInChain", "ObsInvalidateOK", "ObsReconsiderOK"}


def run(ctx):
    binary = ctx.build_adapter("blocktree")
    only = os.environ.get("VERIF_C08_ONLY")       # development knob: run one scenario (long | tx | base)
    if only == "long":
        ctx.tlc("BlockTree", "BlockTree", "MC_c08_long.cfg")
        _blocktree.replay_graph(ctx, binary, "E1_c08_long.cfg", "Obs_long.cfg", 0, RELEVANT, {"block"})
        return ctx.finish(level="model_checking", exhaustive=True, rule="development run: long-reorg scenario only")
    ctx.tlc("BlockTree", "BlockTree", "MC_c08_3.cfg")
    if ctx.tier == "thorough":
        ctx.tlc("BlockTree", "BlockTree", "MC_c08_3i2.cfg")
        ctx.tlc("BlockTree", "BlockTree", "MC_c08_4.cfg", xmx="20g")
    per_action = _blocktree.replay_graph(ctx, binary, "E1_c08_3q.cfg" if ctx.tier == "quick" else "E1_c08_3.cfg", "Obs_3_mw0.cfg", 0, RELEVANT,
                                         {"invalidate", "reconsider", "block"})
    # reorganisations that connect more than 32 blocks (ActivateBestChainStep works in batches of 32) with an invalid block in a later batch
    ctx.tlc("BlockTree", "BlockTree", "MC_c08_long.cfg")
    _blocktree.replay_graph(ctx, binary, "E1_c08_long.cfg", "Obs_long.cfg", 0, RELEVANT, {"block"})
    # the same property on histories whose blocks carry transactions (conflicting spends, in-block chains): reorgs must really
    # disconnect and reconnect transactions; the tip must be a most-work chain that is valid by UtxoChain's rules
    ubin = ctx.build_adapter("utxochain")
    _utxochain.run_scenario(ctx, ubin, "MC_spend", "MCO_spend", "c09q" if ctx.tier == "quick" else "spend3",
                            {"ObsTipMostWork", "ObsChainValid", "ObsNoFailedInChain"},
                            lambda p: any(s["a"][0] in ("invalidate", "reconsider") for s in p["steps"]))
    missing = [a for a in ("mine", "header", "block", "invalidate", "reconsider") if not per_action[a]]
    if missing:
        raise vflib.InfraError("vacuity: actions never taken: %s" % missing)
    ctx.extra["transitions_per_action"] = dict(per_action)
    ctx.assumptions += ["bounded: 3 blocks (+1 invalidate/reconsider) replayed, up to 4 blocks model-checked in thorough; equal difficulty"]
    return ctx.finish(level="model_checking", exhaustive=True,
                      rule="path cover of every transition of the bounded BlockTree graph; non-trivial = distinct paths containing a block delivery, invalidate or reconsider")
