"""C04 — block transactions are bound to the header; mutations are detected, not blamed
(specs/Merkle: Merkle + MerkleBlock = engine E4 tables; MutatedBlocks = engine E1 on a real node)."""
import collections, json, os, re, sys
sys.path.insert(0, os.path.dirname(os.path.abspath(__file__)))
import vflib

META = dict(
    engine="E4+E1",
    level="model_checking",
    text="(a) Merkle models hashes as an injective pair constructor; TLC proves on the enumerated domain (all lists over a small alphabet incl. "
         "repeated leaves, lists without repetition up to 17 leaves in quick / 300 in thorough, and every list that materialises some of the "
         "odd-level duplications of another one) that all of them have one root, that every such duplication is flagged while repetition-free lists "
         "are not, that of all lists sharing a root at most one is unflagged, and that every merkle path folds to the root. Each (list, variant) row is "
         "replayed on ComputeMerkleRoot / BlockMerkleRoot / TransactionMerklePath / BlockWitnessMerkleRoot with real transactions; the specification's "
         "terms are evaluated with plain double-SHA256 as the independent reference. MerkleBlock does the same for IsBlockMutated / CheckBlock: a genuine "
         "block fixes header root and witness commitment, the body is changed in every single way (duplication, dropped / swapped transaction, one witness "
         "stripped / altered / added, reserved value of wrong size, the 64-byte transaction), TLC proves 'reported <=> not the genuine body'. "
         "(b) MutatedBlocks models ProcessNewBlock for genuine blocks and same-header variants; TLC checks that no valid block is ever marked failed, a "
         "variant stores and marks nothing, is refused by compact-block reconstruction, and a genuine block is accepted and connected whatever came before; every transition of the graph (including "
         "'variant k came last' histories) is replayed on a real regtest ChainstateManager with really mined blocks and real witness spends; where the node "
         "differs from the prediction TLC evaluates the property on the observed step.",
    note="Injective constructor = 'no double-SHA256 collisions'. Node scenarios: 2 blocks (chain, fork, with an invalid control block) in quick, 3 in "
         "thorough; witness programs are P2WSH(OP_TRUE). The 64-byte ambiguity is covered through IsBlockMutated's no-coinbase branch only (table row built "
         "from the mined triple of validation_tests.cpp). Compact-block reconstruction (blockencodings.cpp) is driven with an empty mempool only: the delivered body is announced "
         "as a compact block and filled from that body.",
    technique="TLA+ theorems over injective merkle terms + TLC-enumerated oracle tables evaluated with real SHA256d; TLC state graph of block/variant "
              "deliveries replayed on a real node, deviations judged by TLC on the observed step",
)
RELEVANT = {"ObsNeverBlamed", "ObsMutatedStepOK", "ObsGenuineStepOK", "ObsHeaderStepOK", "ObsTipOK"}


# ---------------------------------------------------------------------------------------------------------------- part (a)
def table(ctx, binary, module, cfg, mode, name, timeout=3000):
    r = ctx.tlc("Merkle", module, cfg, name=name, timeout=timeout)
    rows = [json.loads(l) for l in open(r.emit_path)]
    if not rows:
        raise vflib.InfraError("no rows emitted by %s/%s" % (module, cfg))
    res = ctx.run_harness(binary, mode, rows, name=name)
    n = int(res["summary"]["tests"])
    if n != len(rows) and not res["aborts"]:
        raise vflib.InfraError("%s: %d rows emitted, %d evaluated" % (name, len(rows), n))
    ctx.evaluations += n; ctx.traces += n
    vflib.report_mismatches(ctx, binary, mode, res, adapter="merkle", what_prefix="%s %s: " % (module, cfg),
                            key_fn=lambda m, case: "%s:%s" % (mode, vflib.digest(m.get("why"))))
    return rows, res


def part_a(ctx, binary):
    cfgs = ["MC_quick.cfg", "MC_unique.cfg"] if ctx.tier == "quick" else ["MC_thorough.cfg", "MC_unique_t.cfg", "MC_long.cfg"]
    nrows = 0; npaths = 0; longest = 0; dup_rows = 0
    for cfg in cfgs:
        rows, res = table(ctx, binary, "Merkle", cfg, "table", cfg[:-4])
        nrows += len(rows); npaths += int(res["summary"].get("paths", 0))
        for x in rows:
            longest = max(longest, len(x["v"]))
            if x["v"] != x["l"]:
                dup_rows += 1
            if len(x["v"]) > 2:
                ctx.nontrivial.add(vflib.digest(x["v"]))
        small = [x for x in rows if 4 <= len(x["v"]) <= 8 and x["v"] != x["l"]]
        if small:
            x = small[len(small) // 2]
            ctx.sample(dict(list=x["l"], variant=x["v"], root=x["root"], mutated=x["mutated"]))
        # vacuity: flagged and unflagged lists, real duplications, inner-level duplicates
        if not any(x["mutated"] for x in rows) or not any(not x["mutated"] for x in rows) or not any(len(x["v"]) > len(x["l"]) for x in rows):
            raise vflib.InfraError("vacuity: %s lacks flagged / unflagged / duplicated rows" % cfg)
    ctx.extra["merkle_rows"] = nrows; ctx.extra["merkle_paths_compared"] = npaths
    ctx.extra["merkle_duplication_rows"] = dup_rows; ctx.extra["longest_list"] = longest
    rows, res = table(ctx, binary, "MerkleBlock", "MCB_quick.cfg" if ctx.tier == "quick" else "MCB_thorough.cfg", "blocktable", "blocktable")
    kinds = collections.Counter(x["kind"] for x in rows)
    missing = [k for k in ("none", "dup", "drop", "swap", "strip", "alter", "add", "n31", "n0", "n2", "n31c", "nonceadd", "amb") if not kinds[k]]
    if missing:
        raise vflib.InfraError("vacuity: no IsBlockMutated row of kind %s" % missing)
    for x in rows:
        ctx.nontrivial.add(vflib.digest(x))
    ctx.extra["isblockmutated_rows_per_kind"] = dict(kinds)
    ctx.sample([x for x in rows if x["kind"] == "strip"][0])


# ---------------------------------------------------------------------------------------------------------------- part (b)
def check_deviations(ctx, res, scenario):
    devs = res["deviations"]
    ctx.extra["deviations_from_prediction"] = ctx.extra.get("deviations_from_prediction", 0) + int(res["summary"].get("deviations", 0))
    if not devs:
        return
    lines = {}
    for d in devs:
        case = json.loads(res["lines"][d["index"]])
        k = d["step"]
        pre = case["steps"][k - 1]["exp"]["obs"] if k > 0 else case["init"]["obs"]
        line = dict(pre=pre, act=d["action"], res=d["state"]["@result"], post=d["state"]["obs"])
        lines.setdefault(vflib.canon(line), (line, d, case))
    path = os.path.join(ctx.work, "observed.ndjson")
    remaining = list(lines)
    bad = 0
    for _ in range(8):
        if not remaining:
            break
        with open(path, "w") as f:
            for k in remaining:
                f.write(json.dumps(lines[k][0]) + "\n")
        r = ctx.tlc("Merkle", "MutatedBlocksObs", "Obs_%s.cfg" % scenario, name="observed", env={"OBS": path}, expect_violation=True, workers=1)
        if not r.violated:
            break
        m = re.search(r'lastAct = <<"observed", (\d+)>>', open(r.log_path).read())
        i = int(m.group(1)) - 1 if m else 0
        line, d, case = lines[remaining[i]]
        if r.violated in RELEVANT:
            ctx.violation("obs:%s:%s" % (r.violated, vflib.digest([scenario, d["action"], line["res"], line["post"]])),
                          "scenario %s: after %s the node reports %s and is in state %s, which breaks %s (prediction differed: %s)" % (
                              scenario, vflib.canon(d["action"]), vflib.canon(line["res"]), vflib.canon(line["post"]), r.violated, d["why"]),
                          dict(adapter="merkleblocks", mode="replay", args=[], case=case, mismatch=d, invariant=r.violated))
            bad += 1
        remaining = remaining[:i] + remaining[i + 1:]
    ctx.extra["benign_deviation_states"] = ctx.extra.get("benign_deviation_states", 0) + len(lines) - bad


def part_b(ctx, binary):
    # quick: one 2-block scenario with the "which variant came last" history, one (fork, invalid control block) on node states only
    scenarios = [("chain_wp", "E1_"), ("fork_iw", "E1q_")] if ctx.tier == "quick" else [(s, "E1_") for s in (
        "chain_wp", "fork_pw", "fork_iw", "chain_pw", "tree3", "chain3", "tree3i")]
    per_action = collections.Counter(); per_kind = collections.Counter()
    for sc, pre in scenarios:
        r = ctx.tlc("Merkle", "MutatedBlocks", "%s%s.cfg" % (pre, sc), name="E1_" + sc)
        g = vflib.Graph(vflib.load_emitted(r.emit_path))
        for kf, outs in g.out.items():
            for a, _, _ in outs:
                per_action[a[0]] += 1
                if a[0] == "mutated":
                    per_kind[a[2]] += 1
        paths = []
        for p in g.path_cover(max_len=400):
            for s in p["steps"]:
                s["exp"] = {"obs": s["exp"]["obs"]}
            paths.append(p)
            acts = [s["a"] for s in p["steps"]]
            # non-trivial: a variant is delivered and the genuine block of the same hash afterwards
            seen = set()
            for a in acts:
                if a[0] == "mutated":
                    seen.add(a[1])
                elif a[0] == "genuine" and a[1] in seen:
                    ctx.nontrivial.add(vflib.digest([sc, acts])); break
        nsteps = sum(len(p["steps"]) for p in paths)
        ctx.log("E1 %s: %d states, %d transitions -> %d paths, %d steps" % (sc, len(g.nodes), g.nedges, len(paths), nsteps))
        mid = paths[len(paths) // 2]
        ctx.sample(dict(scenario=sc, actions=[s["a"] for s in mid["steps"]][:12], expected_final=mid["steps"][-1]["exp"]["obs"]))
        res = ctx.run_harness(binary, "replay", paths, name="replay_" + sc)
        ctx.evaluations += int(res["summary"]["steps"]); ctx.traces += int(res["summary"]["tests"])
        ctx.extra["replayed_steps"] = ctx.extra.get("replayed_steps", 0) + int(res["summary"]["steps"])
        ctx.extra["model_transitions_covered"] = ctx.extra.get("model_transitions_covered", 0) + g.nedges
        vflib.report_mismatches(ctx, binary, "replay", res, adapter="merkleblocks", what_prefix="MutatedBlocks %s: " % sc)
        check_deviations(ctx, res, sc)
    missing = [a for a in ("header", "genuine", "mutated") if not per_action[a]]
    missing += [k for k in ("dup", "txdrop", "txswap", "witstrip", "witalter", "stuffed", "nonce31", "witadd") if not per_kind[k]]
    if missing:
        raise vflib.InfraError("vacuity: actions / variant kinds never taken: %s" % missing)
    ctx.extra["transitions_per_action"] = dict(per_action); ctx.extra["mutated_transitions_per_kind"] = dict(per_kind)


def run(ctx):
    ma = ctx.build_adapter("merkle")
    mb = ctx.build_adapter("merkleblocks")
    part_a(ctx, ma)
    part_b(ctx, mb)
    ctx.assumptions += ["double-SHA256 is collision free (hashes are modelled as an injective constructor)",
                        "bounded: enumerated leaf alphabets and list lengths as configured; node scenarios of 2 (quick) / 3 (thorough) blocks",
                        "every delivery is a freshly deserialised block object (CBlock caches check results per object)"]
    return ctx.finish(level="model_checking", exhaustive=True,
                      rule="(a) one row per (list, variant) of the enumerated domain and per (genuine block, single change of the body); non-trivial = distinct "
                           "lists of more than 2 leaves and distinct block rows; (b) path cover of every transition of the MutatedBlocks graph; non-trivial = "
                           "distinct paths in which a variant of a block is delivered before the genuine block")
