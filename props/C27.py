"""C27 — mempool resource and topology limits always hold (specs/Mempool, engine E1 on a real node)."""
import os, sys
sys.path.insert(0, os.path.dirname(os.path.abspath(__file__)))
import vflib, _mempool

META = dict(
    engine="E1",
    level="model_checking",
    text="Mempool (see C22) with the cluster count / size limits (-limitclustercount, -limitclustersize), the mempool size limit "
         "(-maxmempool=1 with TrimToSize: worst chunk first, rolling minimum feerate = evicted feerate + incremental relay feerate, GetMinFee, "
         "'mempool min fee not met'), the TRUC rules of SingleTRUCChecks / PackageTRUCChecks (version 3: one unconfirmed parent, one child, "
         "both TRUC, 10 000 / 1 000 vB caps, sibling eviction through the replacement rules) and ephemeral dust (PreCheckEphemeralTx, "
         "CheckEphemeralSpends, at most one dust output) under -acceptnonstdtxn=0 with P2WSH / pay-to-anchor scripts, for single submissions "
         "and child-with-parents packages (ProcessNewPackage). TLC proves on the bounded models: every cluster within both limits, modelled "
         "usage <= limit after every step, after every trim GetMinFee strictly above the feerate of every evicted chunk, TRUC topology in "
         "histories without disconnection, dust only with zero (modified) fee and a single dust output, every pool child of a dust parent "
         "spends the dust. Every transition is replayed on a real node started with those options; where the node deviates from the "
         "prediction TLC evaluates the same clauses on the observed state with the node's own numbers (DynamicMemoryUsage, max_size_bytes, "
         "GetMinFee); CTxMemPool::check runs after every step.",
    note="INV mode: a stricter mempool is not a violation. Bytes of memory are observed, not predicted: the model adds up the per-entry usage "
         "measured from the real transactions and refuses (infrastructure error) a universe in which a trim decision comes closer than 20 kB "
         "to the limit, so that its prediction of which submission triggers a trim is robust; the clause usage <= max is evaluated on the "
         "node's own DynamicMemoryUsage after every replayed step. The time decay of the rolling minimum feerate is not modelled (no clock "
         "advance after a trim). Bounded universes: 21 (truc), 12 (dust), 14 (cluster), 15 (fill) transactions.",
    technique="TLA+ spec Mempool + TLC exhaustive; path cover replayed on a real node; limit clauses evaluated by TLC on observed states",
)


def replay(ctx, path):
    return _mempool.replay(ctx, path)


PLAN = {
    "quick": [("truc", "MC_truc_q.cfg", "MU_stdpol.cfg"), ("dust", "MC_dust_q.cfg", "MU_stdpol.cfg"),
              ("clu", "MC_clu_q.cfg", "MU_clu.cfg"), ("fill", "MC_fill_q.cfg", "MU_fill.cfg")],
    "thorough": [("truc", "MC_truc_t.cfg", "MU_stdpol.cfg"), ("dust", "MC_dust_t.cfg", "MU_stdpol.cfg"), ("dust", "MC_dust0_t.cfg", "MU_stdpol0.cfg"),
                 ("clu", "MC_clu_t.cfg", "MU_clu.cfg"), ("fill", "MC_fill_t.cfg", "MU_fill.cfg")],
}


def run(ctx):
    binary = ctx.build_adapter("mempool")
    only = os.environ.get("VERIF_C27_ONLY")
    per, trims = {}, 0
    for uni, cfg, mu in PLAN[ctx.tier]:
        if only and uni not in only.split(","):
            continue
        nontrivial = lambda p: any(s["a"][0] in ("submit", "pkg") and s["r"]["why"] in (
            "TRUC-violation", "too-large-cluster", "mempool full", "mempool min fee not met", "dust", "missing-ephemeral-spends", "unspent-dust",
            "insufficient fee") for s in p["steps"])
        st = _mempool.run_scenario(ctx, binary, "C27", uni, cfg, mu, nontrivial=nontrivial, always_judge=True)
        for k, v in st["per"].items():
            per[(uni,) + k] = per.get((uni,) + k, 0) + v
        trims += st["trims"]
        # vacuity guards on the measured sizes: the TRUC caps sit at +0 / +1 virtual byte
        meas = st["meas"]
        if uni == "truc":
            want = {9: 1001, 10: 1000, 11: 10001, 12: 10000, 20: 1001}
            bad = {t: meas[t - 1]["vsize"] for t, v in want.items() if meas[t - 1]["vsize"] != v}
            if bad:
                raise vflib.InfraError("universe truc no longer sits on the TRUC size caps (measured %s, wanted %s): re-pad Uni_truc.tla" % (bad, want))
    _mempool.judge_usage(ctx, None)
    if not only:
        need = [("truc", "submit", "TRUC-violation"), ("truc", "submit", "insufficient fee"), ("truc", "submit", "ok"), ("truc", "pkg", "TRUC-violation"),
                ("truc", "pkg", "ok"), ("truc", "mine", "none"),
                ("dust", "submit", "dust"), ("dust", "submit", "missing-ephemeral-spends"), ("dust", "pkg", "unspent-dust"), ("dust", "pkg", "ok"),
                ("dust", "prio", "none"),
                ("clu", "submit", "too-large-cluster"), ("clu", "submit", "ok"),
                ("fill", "submit", "mempool full"), ("fill", "submit", "mempool min fee not met"), ("fill", "submit", "ok")]
        missing = [n for n in need if not per.get(n)]
        if missing or not trims:
            raise vflib.InfraError("vacuity: never predicted in the bounded models: %s (trims %d)" % (missing, trims))
    ctx.extra["chunks_trimmed_in_model"] = trims
    ctx.assumptions += ["bounded scenarios on a 110-block regtest base chain; histories without block disconnection",
                        "fees, virtual sizes, weights and per-entry memory usage of the universes are measured from the real transactions at run time",
                        "memory usage is additive within the 20 kB margin the fill universe keeps from the limit at every trim decision",
                        "no clock advance after a trim (the decay of the rolling minimum feerate is not modelled)"]
    return ctx.finish(level="model_checking", exhaustive=True,
                      rule="path cover of every transition of the bounded Mempool graphs (submit / package / prioritise / mine from every reachable "
                           "pool); non-trivial = distinct paths on which a limit, TRUC or dust rule rejects or evicts something")
