"""C65 — waiting for a new block template returns only what it promises (specs/WaitNext PlusCal, TLC safety + liveness, outcome membership)."""
import collections, json, os, random, re
import vflib

SPEC = "WaitNext"
META = dict(
    engine="E3",
    level="model_checking",
    text="WaitNext.tla (PlusCal) models node::WaitAndCreateNewBlock with one label per critical section (the wait on the kernel notifications' tip-block "
         "condition variable with its predicate and the consumption of the interrupt flag; the section under cs_main with the 20-minute min-difficulty rule, "
         "CreateNewBlock and the fee comparison; the deadline test) against a driver thread whose operations are block connection (chain tip first, then "
         "the blockTip notification, both under cs_main), a fee-paying mempool addition, interruptWait and mock-clock advances; optionally the caller calls "
         "again on the same template object. TLC checks on every interleaving and for every timeout / fee threshold / tip age of the configuration: a "
         "returned template is built on the tip that is current when it is built and never on a tip older than the one whose notification ended the wait; a "
         "template on the previous template's parent has fees >= previous fees + threshold or the tip is over 20 minutes old; nothing is returned only after "
         "the timeout passed or after an interrupt; and, under weak fairness of both threads, a tip change leads to a return. The model is permissive where "
         "the property is silent (when the fee / 20-minute check runs and with which clock reading, whether a pending interrupt or a pending tip change wins); "
         "the strict variant (exactly the code's choices) refines it. The same TLC run prints, for every terminal state, the harness-visible log (call start, "
         "completion of each driver operation, return with parent and fees): the set of (schedule, outcome) pairs the promise admits. The real "
         "interfaces::BlockTemplate::waitNext is then called on a regtest node from a waiter thread while a driver thread performs seeded schedules (real "
         "blocks through ProcessNewBlock, real transactions through ProcessTransaction, interruptWait, SetMockTime) under seeded random delays, with a "
         "global order on call start / return / operation completions; every logged (schedule, outcome) must be in TLC's set.",
    note="Real thread interleavings are sampled (seeded delays), the model's are exhaustive. A rejection is reported only if it repeats when the same "
         "schedule and seeds are re-run. Mock clock advances are followed by a notify_all on the condition variable (a spurious wake-up) so that the waiter "
         "looks at the mock clock at once. A call that returns later than it should is not observable in an asynchronous setting: the liveness clause is decided "
         "on the model only. Invalidating the tip while a call is in flight is outside the property's quantifier and outside the schedules "
         "(MC_invalidate.cfg records what the design then admits). Node shutdown (chainman.m_interrupt) is not modelled.",
    technique="PlusCal/TLA+ spec of waitNext against tip changes, mempool additions, interrupts and clock ticks; TLC safety + liveness; TLC-enumerated outcome set vs "
              "outcomes of the real waitNext under seeded schedules",
)


def cfg_sets(cfg):
    txt = open(os.path.join(vflib.SPECS, SPEC, cfg)).read()

    def ints(name):
        return [int(x) for x in re.findall(r"-?\d+", re.search(r"%s = \{([^}]*)\}" % name, txt).group(1))]
    return dict(maxops=int(re.search(r"MaxOps = (\d+)", txt).group(1)), ticks=ints("TickAmounts"), timeouts=ints("Timeouts"), thresholds=ints("Thresholds"),
                ages=ints("Ages"), addfee=int(re.search(r"AddFee = (\d+)", txt).group(1)),
                kinds=re.findall(r'"(\w+)"', re.search(r"OpKinds = \{([^}]*)\}", txt).group(1)), calls=int(re.search(r"Calls = (\d+)", txt).group(1)))


WB = 10 ** 9


def wv(w):
    """wide value {q, r} -> integer"""
    return w["q"] * WB + w["r"]


def key_of(to, th, age, pf, h, p):
    return vflib.canon(dict(to=to, th=th, age=age, pf=wv(pf), h=[dict(e=x["e"], a=x["a"], b=x["b"], c=wv(x["c"])) for x in h], p=p))


def make_runs(rng, P, n):
    """Seeded schedules over the configuration's alphabet (interrupts are rarer than the rest: they end a call at once), the waiter
    mostly starts before the first operation."""
    ops = []
    for k in P["kinds"]:
        if k == "tick":
            ops += [dict(k="tick", d=d) for d in P["ticks"]] * 2
        elif k == "add":
            ops += [dict(k="add", d=P["addfee"])] * 3
        elif k == "tip":
            ops += [dict(k="tip", d=0)] * 3
        else:
            ops.append(dict(k=k, d=0))
    runs = []
    for i in range(n):
        sched = [rng.choice(ops) for _ in range(P["maxops"])] + [dict(k="int", d=0)] * P["calls"]
        startk = 0 if rng.random() < 0.7 else rng.randrange(P["maxops"] + 2)
        runs.append(dict(to=rng.choice(P["timeouts"]), th=rng.choice(P["thresholds"]), age=rng.choice(P["ages"]), pf=rng.choice(P["pfs"]), sched=sched, startk=startk,
                         calls=P["calls"], dseed=rng.randrange(256)))
    return runs


def directed_runs(rng, P):
    """For every fee class x finite threshold: the waiter starts first (or after the addition, for timeout 0) and the schedule lets the
    fees stay / rise by one addition before a tick makes the call look at them. (What the call then returns is still the model's say.)"""
    runs = []
    add, tick, fin = dict(k="add", d=P["addfee"]), dict(k="tick", d=min(P["ticks"])), [dict(k="int", d=0)] * P["calls"]
    shapes = [(max(x for x in P["timeouts"] if x != 1000000), 0, [add, tick]), (max(x for x in P["timeouts"] if x != 1000000), 0, [tick, tick]),
              (min(P["timeouts"]), 1, [add, tick]), (min(P["timeouts"]), 0, [tick, add])]
    for pf in P["pfs"]:
        for th in P["thresholds"]:
            if th == 999999999:
                continue
            for to, startk, ops in shapes:
                sched = (ops + [tick] * P["maxops"])[:P["maxops"]] + fin
                runs.append(dict(to=to, th=th, age=min(P["ages"]), pf=pf, sched=sched, startk=startk, calls=P["calls"], dseed=rng.randrange(256)))
    return runs


def classify(t, allowed):
    """Returns (truncated log, accepted?). The operation after the last completed one may already have taken effect when the call
    returned (its completion is logged later): both possibilities are looked up."""
    h = t["h"]
    ri = [i for i, e in enumerate(h) if e["e"] == "R"]
    if len(ri) < t.get("calls", 1) or t.get("hung"):
        return h, False
    trunc = h[:ri[t.get("calls", 1) - 1] + 1]
    k = sum(1 for e in trunc if e["e"] not in ("S", "R"))
    cands = ["none"] + ([t["sched"][k]["k"]] if k < len(t["sched"]) else [])
    return trunc, any(key_of(t["to"], t["th"], t["age"], t["pf"], trunc, p) in allowed for p in cands)


KINDS = ("template on a new tip", "template on the same tip", "nothing")


def kind_of(rr):
    return KINDS[0] if rr["a"] == 1 and rr["b"] > 0 else KINDS[1] if rr["a"] == 1 else KINDS[2]


def load_allowed(ctx, cfg, name):
    r = ctx.tlc(SPEC, SPEC, cfg, name=name, xmx="12g", timeout=5000)
    allowed = set()
    with open(r.emit_path) as f:
        for l in f:
            o = json.loads(l)
            allowed.add(key_of(o["to"], o["th"], o["age"], o["pf"], o["h"], o["p"]))
    if not allowed:
        raise vflib.InfraError("no outcome emitted by " + cfg)
    return allowed


def run_config(ctx, binary, cfg, nruns, rng, obs_kinds, fee_cases):
    P = cfg_sets(cfg)
    # ---- safety on every interleaving + the set of admitted outcomes
    allowed = load_allowed(ctx, cfg, "outcomes_" + cfg[:-4])
    # the fee classes of the previous template are those the configuration's rows carry
    pfs = sorted({json.loads(k)["pf"] for k in allowed})
    P["pfs"] = [dict(q=v // WB, r=v % WB) for v in pfs]
    kinds = collections.Counter(kind_of(json.loads(k)["h"][-1]) for k in allowed)
    ctx.extra.setdefault("outcomes_admitted_by_spec", {})[cfg] = dict(total=len(allowed), by_kind_of_last_return=dict(kinds))
    if len(kinds) < 3:
        raise vflib.InfraError("vacuity: the model (%s) never returns %s" % (cfg, set(KINDS) - set(kinds)))
    strict = None
    if ctx.tier != "quick" and os.path.exists(os.path.join(vflib.SPECS, SPEC, cfg[:-4] + "_strict.cfg")):
        # the strict model (exactly the code's choices) refines the permissive one; it only serves to count how often the code's
        # observable behaviour differs from the modelled design (information, never a verdict)
        strict = load_allowed(ctx, cfg[:-4] + "_strict.cfg", "strict_" + cfg[:-4])
        if not strict <= allowed:
            raise vflib.InfraError("%s: the strict model admits %d outcomes the permissive one does not" % (cfg, len(strict - allowed)))
    # ---- the real waitNext under seeded schedules
    nshards = 4
    # a node has about 45 mature 50 BTC coinbases: runs with large previous fees are spread over more nodes
    per_node = 20 if max(pfs) >= 10 ** 6 else nruns
    allruns = make_runs(rng, P, nruns * nshards)
    if max(pfs) >= 10 ** 6:
        allruns = directed_runs(rng, P) + directed_runs(rng, P) + directed_runs(rng, P) + allruns
    ncases = max(nshards, (len(allruns) + per_node - 1) // per_node)
    cases = [dict(addfee=P["addfee"], runs=allruns[i::ncases]) for i in range(ncases)]
    res = ctx.run_harness(binary, "run", cases, nproc=min(nshards, vflib.free_cpus()), name="waitnext_" + cfg[:-4], timeout=3000)
    for m in res["mismatches"]:
        raise vflib.InfraError("harness exception: %s" % m.get("why"))
    vflib.report_mismatches(ctx, binary, "run", dict(res, mismatches=[]), adapter="waitnext", what_prefix="waitNext: ")
    seen = collections.Counter(); rejected = {}
    for t in res["traces"]:
        ctx.evaluations += 1
        trunc, ok = classify(t, allowed)
        key = key_of(t["to"], t["th"], t["age"], t["pf"], trunc, "-")
        seen[key] += 1
        for e in trunc:
            if e["e"] == "R":
                obs_kinds[kind_of(e)] += 1
        if len(trunc) > 2:
            ctx.nontrivial.add(vflib.digest(key))
        # same-tip waits with a finite threshold, by size class of the previous template's fees and by what the fees did
        pfv = wv(t["pf"])
        rs = [e for e in trunc if e["e"] == "R"]
        if rs and t["th"] != 999999999 and not any(e["e"] == "tip" for e in trunc[:trunc.index(rs[0])]):
            cls = "below 2^31" if pfv < 2 ** 31 else "in [2^31, 2^32)" if pfv < 2 ** 32 else "from 2^32"
            r0 = rs[0]
            adds = sum(1 for e in trunc[:trunc.index(r0)] if e["e"] == "add")
            if r0["a"] == 1 and r0["b"] == 0:
                rise = wv(r0["c"]) - pfv
                what = "returned: fees rose by exactly the threshold" if rise == t["th"] else "returned: fees rose by more than the threshold" if rise > t["th"] else "returned: fees rose by less than the threshold (the tip is over 20 minutes old)"
            elif r0["a"] == 0:
                what = "nothing: fees unchanged" if adds == 0 else "nothing: fees rose by less than the threshold" if adds * P["addfee"] < t["th"] else "nothing: although fees rose by the threshold"
            else:
                what = None
            if what:
                fee_cases["%s / %s" % (cls, what)] += 1
        if not ok:
            rejected.setdefault(key, (t, trunc))
        elif strict is not None and not classify(t, strict)[1]:
            ctx.extra["outcomes_outside_the_strict_design_model"] = ctx.extra.get("outcomes_outside_the_strict_design_model", 0) + 1
    ctx.traces += len(res["traces"])
    ctx.extra.setdefault("observed", {})[cfg] = dict(runs=len(res["traces"]), distinct_schedule_outcome_pairs=len(seen), rejected=len(rejected))
    for key, (t, trunc) in list(rejected.items())[:4]:
        spec = dict(to=t["to"], th=t["th"], age=t["age"], pf=t["pf"], sched=t["sched"], startk=t["startk"], calls=t.get("calls", 1), dseed=t["dseed"])
        case = dict(addfee=P["addfee"], runs=[spec] * (15 if wv(t["pf"]) >= 10 ** 6 else 40))

        def confirm(case=case):
            r2 = ctx.run_harness(binary, "run", [case], nproc=1, name="confirm")
            return any(not classify(x, allowed)[1] for x in r2["traces"]) or bool(r2["aborts"])
        what = ("waitNext(timeout %s, fee threshold %s) on a template with %d sat of fees, the tip %s s old, schedule %s: observed log %s is not an outcome of any interleaving of the "
                "WaitNext specification" % (
                    "none" if t["to"] == 1000000 else "%d s" % t["to"], "MAX_MONEY" if t["th"] == 999999999 else t["th"], wv(t["pf"]), t["age"],
                    [(o["k"], o["d"]) if o["d"] else o["k"] for o in t["sched"]], [(e["e"], e["a"], e["b"], wv(e["c"])) if e["e"] == "R" else e["e"] for e in trunc]))
        ctx.violation("waitnext:%s" % vflib.digest(key), what, dict(adapter="waitnext", mode="run", args=[], case=case, cfg=cfg, observed=trunc), confirm=confirm)
    if res["traces"]:
        t = max(res["traces"][:50], key=lambda t: len([e for e in t["h"] if e["e"] == "R" and e["a"] == 1]) * 10 + len(t["h"]))
        ctx.sample(dict(config=cfg, timeout=t["to"], threshold=t["th"], age=t["age"], previous_fees=wv(t["pf"]), schedule=[o["k"] for o in t["sched"]],
                        log=[e["e"] if e["e"] != "R" else ["R", e["a"], e["b"], wv(e["c"])] for e in t["h"]]))
    return P


def run(ctx):
    binary = ctx.build_adapter("waitnext")
    quick = ctx.tier == "quick"
    rng = random.Random(ctx.seed * 7919 + 65)
    obs_kinds = collections.Counter(); fee_cases = collections.Counter()
    plan = [("MC_q.cfg", 150), ("MC_q2.cfg", 60), ("MC_qw.cfg", 60)] if quick else [("MC_t.cfg", 2000), ("MC_t2.cfg", 1000), ("MC_tw.cfg", 600)]
    maxops = 0
    for cfg, nruns in plan:
        P = run_config(ctx, binary, cfg, nruns, rng, obs_kinds, fee_cases)
        maxops = max(maxops, P["maxops"])
    ctx.extra["observed_returns_by_kind"] = dict(obs_kinds)
    ctx.extra["same_tip_waits_with_finite_threshold_by_fee_class_and_fee_movement"] = dict(sorted(fee_cases.items()))
    if not ctx.violations:
        for cls in ("below 2^31", "in [2^31, 2^32)", "from 2^32"):
            for what in ("nothing: fees unchanged", "nothing: fees rose by less than the threshold", "returned: fees rose by exactly the threshold", "returned: fees rose by more than the threshold"):
                if not fee_cases["%s / %s" % (cls, what)]:
                    raise vflib.InfraError("vacuity: no real same-tip wait with previous fees %s where %s" % (cls, what))
    if len(obs_kinds) < 3 and not ctx.violations:
        raise vflib.InfraError("vacuity: the real runs never produced %s" % (set(KINDS) - set(obs_kinds)))
    # ---- liveness under weak fairness (no final interrupt: the return must come from the tip change)
    ctx.tlc(SPEC, SPEC, "Live_q.cfg" if quick else "Live_t.cfg", name="liveness", xmx="12g", timeout=5000, emit=False)
    if not quick:
        # what the design admits when the tip is invalidated while a call is in flight (outside C65's quantifier): recorded, not judged
        r = ctx.tlc(SPEC, SPEC, "MC_invalidate.cfg", name="invalidate", expect_violation=True, emit=False)
        ctx.extra["with_tip_invalidation_the_model_violates"] = r.violated
    ctx.assumptions += ["regtest (min-difficulty blocks allowed: the 20-minute rule applies); mock time; blocks are empty and carry the mock clock as block time",
                        "real thread schedules are sampled with seeded random delays; the model's interleavings are exhaustive for schedules of <= %d operations + a final interrupt" % maxops,
                        "a second call (configurations *2) is made on the same template object with the same options"]
    return ctx.finish(level="model_checking", exhaustive=False,
                      rule="(a) every interleaving of the WaitNext model for every (timeout, threshold, tip age) of the configuration and every schedule of the bounded length; "
                           "(b) seeded schedules on the real node, distinct = distinct (parameters, log up to the last return) with at least one operation before the return")


def replay(ctx, path):
    o = json.load(open(path))
    binary = ctx.build_adapter("waitnext")
    allowed = load_allowed(ctx, o.get("cfg", "MC_q.cfg"), "outcomes")
    r2 = ctx.run_harness(binary, "run", [o["case"]], nproc=1, name="replay")
    bad = [t for t in r2["traces"] if not classify(t, allowed)[1]]
    for t in bad[:5]:
        print("REPLAY rejected log:", json.dumps(classify(t, allowed)[0]))
    print("REPLAY result: %s (%d of %d runs rejected)" % ("still fails" if bad or r2["aborts"] else "passes", len(bad), len(r2["traces"])))
    return 1 if bad or r2["aborts"] else 0
