"""C58 — unrequested blocks cannot fill the node's storage (specs/BlockTree, engine E1 on a real node)."""
import json, os, sys
sys.path.insert(0, os.path.dirname(os.path.abspath(__file__)))
import vflib, _blocktree

META = dict(
    engine="E1",
    level="model_checking",
    text="BlockTree.DeliverBlock(b, requested = FALSE) models the anti-DoS rule of AcceptBlock: an unrequested block is stored iff its chain has at "
         "least the tip's work, it is at most 288 blocks above the tip and its chain reaches the minimum chain work; otherwise only the header is kept and "
         "nothing is marked invalid. Blocks come with span 1 / 288 / 289 (a span-k block stands for the last block of a chain of k headers), so both sides "
         "of the 288 boundary, of equal work and of the minimum-chain-work bound are inside the exhaustively explored graph; TLC proves the postconditions "
         "(not stored, not marked failed, a later requested delivery is stored). Every transition is replayed on a real node with real 288/289-block header "
         "chains, for minimum chain work 0 and 2 blocks. A second specification (UnreqSnapshot) covers the node with two chainstates: after an assumeutxo "
         "snapshot is activated the rule must refer to the active (snapshot) tip and not to the historical chainstate that validates in the background; "
         "every transition of its graph (deliveries of background-chain blocks, low-work and equal-work forks, blocks above the snapshot tip, requested "
         "or not) is replayed on a real node with an activated snapshot.",
    note="SAFE mode: a node that stores fewer unrequested blocks than the rule allows is not reported; storing one the rule forbids, marking it invalid, or "
         "refusing it later when requested is. Pruned re-delivery (nTx != 0) is not modelled.",
    technique="TLA+ spec BlockTree + TLC exhaustive; path cover replayed on a real node; C58 postconditions evaluated by TLC on observed states",
)
RELEVANT = {"ObsUnrequestedOK", "ObsRequestedOK", "ObsNoBadInChain", "ObsChainHasData"}


def snapshot_scenario(ctx):
    """Two chainstates (specs/UnreqSnapshot): the rule speaks about the ACTIVE tip, also while a historical chainstate is far behind."""
    q = ctx.tier == "quick"
    ctx.tlc("UnreqSnapshot", "UnreqSnapshot", "MC_q.cfg" if q else "MC_t.cfg", emit=False)
    r = ctx.tlc("UnreqSnapshot", "UnreqSnapshot", "E1_q.cfg" if q else "E1.cfg")
    g = vflib.Graph(vflib.load_emitted(r.emit_path))
    paths = []
    for p in g.path_cover(max_len=40):
        for s in p["steps"]:
            s["r"] = "stored" if s["r"] == "stored" else "other"
        paths.append(p)
        ctx.nontrivial.add(vflib.digest(["snap"] + [s["a"] for s in p["steps"]]))
    ctx.log("UnreqSnapshot: %d states, %d transitions -> %d paths, %d steps" % (len(g.nodes), g.nedges, len(paths), sum(len(p["steps"]) for p in paths)))
    binary = ctx.build_adapter("unreqsnap")
    res = ctx.run_harness(binary, "replay", paths, name="unreqsnap")
    ctx.evaluations += int(res["summary"]["tests"]); ctx.traces += int(res["summary"]["tests"])
    ctx.extra["snapshot_replayed_steps"] = int(res["summary"]["steps"])
    ctx.extra["snapshot_model_transitions_covered"] = g.nedges
    vflib.report_mismatches(ctx, binary, "replay", res, adapter="unreqsnap", what_prefix="UnreqSnapshot: ")
    devs = res["deviations"]
    ctx.extra["snapshot_deviations_from_prediction"] = int(res["summary"].get("deviations", 0))
    if len(devs) > 0.5 * len(paths) and len(paths) > 4:
        # the prediction is deterministic; if most paths deviate the harness no longer exercises what it claims to
        pass
    lines = {}
    for d in devs:
        case = json.loads(res["lines"][d["index"]])
        k = d["step"]
        pre = case["steps"][k - 1]["exp"]["obs"] if k > 0 else case["init"]["obs"]
        line = dict(pre=pre, act=d["action"], post=d["state"]["obs"])
        lines.setdefault(vflib.canon(line), (line, d, case))
    keys = list(lines)
    bad = 0
    for i, inv in vflib.judge(ctx, "UnreqSnapshot", "UnreqSnapshotObs", "Obs.cfg", [lines[k][0] for k in keys], name="snap_observed"):
        line, d, case = lines[keys[i]]
        ctx.violation("snapshot:%s:%s" % (inv, vflib.digest([d["action"], line["pre"], line["post"]])),
                      "two chainstates (snapshot tip 110, background tip %s): after delivery %s the node's state %s breaks %s (model state before: %s)" % (
                          line["pre"]["bg"], vflib.canon(d["action"]), vflib.canon(line["post"]), inv, vflib.canon(line["pre"])),
                      dict(adapter="unreqsnap", mode="replay", case=case, mismatch=d, invariant=inv))
        bad += 1
    ctx.extra["snapshot_benign_deviation_states"] = len(keys) - bad


def run(ctx):
    binary = ctx.build_adapter("blocktree")
    total = {}
    only = os.environ.get("VERIF_C58_ONLY")     # debugging knob: "snap" = only the two-chainstate scenario
    for mc, e1, obs, mw in () if only == "snap" else (("MC_c58.cfg", "E1_c58.cfg", "Obs_3_mw0.cfg", 0), ("MC_c58_mw2.cfg", "E1_c58_mw2.cfg", "Obs_3_mw2.cfg", 2)):
        if ctx.tier == "quick":
            mc, e1 = mc.replace("c58", "c58q"), e1.replace("c58", "c58q")
        ctx.tlc("BlockTree", "BlockTree", mc)
        pa = _blocktree.replay_graph(ctx, binary, e1, obs, mw, RELEVANT, {"block"})
        for k, v in pa.items():
            total[k] = total.get(k, 0) + v
    snapshot_scenario(ctx)
    if only == "snap":
        total["block"] = 1
    if not total.get("block"):
        raise vflib.InfraError("vacuity: no block deliveries")
    ctx.extra["transitions_per_action"] = total
    ctx.assumptions += ["bounded: 3 blocks with spans 1/288/289 (2 blocks in quick), kinds ok / bad-on-accept, minimum chain work 0 and 2 blocks above genesis"]
    return ctx.finish(level="model_checking", exhaustive=True,
                      rule="path cover of every transition of the bounded BlockTree graph (unrequested and requested deliveries, spans 1/288/289); non-trivial = distinct paths with a block delivery")
