"""C58 — unrequested blocks cannot fill the node's storage (specs/BlockTree, engine E1 on a real node)."""
import os, sys
sys.path.insert(0, os.path.dirname(os.path.abspath(__file__)))
import vflib, _blocktree

META = dict(
    engine="E1",
    level="model_checking",
    text="BlockTree.DeliverBlock(b, requested = FALSE) models the anti-DoS rule of AcceptBlock: an unrequested block is stored iff its chain has at "
         "least the tip's work, it is at most 288 blocks above the tip and its chain reaches the minimum chain work; otherwise only the header is kept and "
         "nothing is marked invalid. Blocks come with span 1 / 288 / 289 (a span-k block stands for the last block of a chain of k headers), so both sides "
         "of the 288 boundary, of equal work and of the minimum-chain-work bound are inside the exhaustively explored graph; TLC proves the postconditions "
         "(not stored, not marked failed, a later requested delivery is stored). Every transition is replayed on a real node with real 288/289-block header "
         "chains, for minimum chain work 0 and 2 blocks.",
    note="SAFE mode: a node that stores fewer unrequested blocks than the rule allows is not reported; storing one the rule forbids, marking it invalid, or "
         "refusing it later when requested is. Pruned re-delivery (nTx != 0) is not modelled.",
    technique="TLA+ spec BlockTree + TLC exhaustive; path cover replayed on a real node; C58 postconditions evaluated by TLC on observed states",
)
RELEVANT = {"ObsUnrequestedOK", "ObsRequestedOK", "ObsNoBadInChain", "ObsChainHasData"}


def run(ctx):
    binary = ctx.build_adapter("blocktree")
    total = {}
    for mc, e1, obs, mw in (("MC_c58.cfg", "E1_c58.cfg", "Obs_3_mw0.cfg", 0), ("MC_c58_mw2.cfg", "E1_c58_mw2.cfg", "Obs_3_mw2.cfg", 2)):
        if ctx.tier == "quick":
            mc, e1 = mc.replace("c58", "c58q"), e1.replace("c58", "c58q")
        ctx.tlc("BlockTree", "BlockTree", mc)
        pa = _blocktree.replay_graph(ctx, binary, e1, obs, mw, RELEVANT, {"block"})
        for k, v in pa.items():
            total[k] = total.get(k, 0) + v
    if not total.get("block"):
        raise vflib.InfraError("vacuity: no block deliveries")
    ctx.extra["transitions_per_action"] = total
    ctx.assumptions += ["bounded: 3 blocks with spans 1/288/289 (2 blocks in quick), kinds ok / bad-on-accept, minimum chain work 0 and 2 blocks above genesis"]
    return ctx.finish(level="model_checking", exhaustive=True,
                      rule="path cover of every transition of the bounded BlockTree graph (unrequested and requested deliveries, spans 1/288/289); non-trivial = distinct paths with a block delivery")
