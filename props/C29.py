"""C29 — package acceptance is well-formed and leaves no dangling children (specs/Mempool, engines E4 + E1 on a real node)."""
import collections, json, os, sys
sys.path.insert(0, os.path.dirname(os.path.abspath(__file__)))
import vflib, _mempool

META = dict(
    engine="E4+E1",
    level="model_checking",
    text="(1) PkgShape: the context-free package predicates of policy/packages.cpp (IsWellFormedPackage with its reason, IsTopoSortedPackage, "
         "IsConsistentPackage, IsChildWithParents) are TLA+ operators; TLC enumerates every sequence of up to 3 (thorough: 4) transactions of a "
         "ten-transaction core (parent, child, grandchild, conflicting pairs, a same-txid twin, a child of two) plus packages of 25 / 26 "
         "transactions and of 404 000 / 404 004 weight units, proves that the gate of AcceptPackage is exactly the statement's wording "
         "(no duplicates, no internal conflicts, parents first, within count and weight, one child and only its parents) and every row is "
         "evaluated on the real functions with the real transactions. (2) Mempool.SubmitPackage models ProcessNewPackage / AcceptPackage: the "
         "gate, one AcceptSingleTransaction per transaction, the retry of fee-related and missing-input failures through "
         "AcceptMultipleTransactions (package feerate, PackageTRUCChecks, package RBF, cluster limits, ephemeral spends), LimitMempoolSize and the "
         "final per-transaction results. TLC proves on the bounded model: a package that fails the gate is not evaluated (no result, no change), "
         "no package transaction is in the pool while an in-package parent is in neither pool nor UTXO set, and every reported result "
         "(VALID / MEMPOOL_ENTRY / DIFFERENT_WITNESS / INVALID) matches the final membership (by txid for the different-witness case). Every "
         "transition (CPFP through the package feerate, child of two parents, package RBF with sufficient and insufficient fees, twins, confirmed "
         "parents, failing scripts, ill-formed packages, against every reachable pool) is replayed on a real node through ProcessNewPackage; "
         "package verdict, per-transaction result kinds and reasons, replaced set and resulting pool are compared.",
    note="SAFE mode: a package predicate or gate that is stricter than stated is tolerated (counted as diverged_conservative); where the node "
         "deviates from the prediction TLC evaluates the three post-conditions on the observed call. Bounded: 21-transaction universe, <= 2 "
         "packages per history (quick: 1), packages of <= 4 transactions on the node; eviction right after acceptance is exercised by an expired "
         "ancestor, by a 16-transaction universe under -maxmempool=1, and by a later package transaction that replaces a pool ancestor of an "
         "earlier one (package [P1, P2, C] with P1 submitted in the package or already in the pool).",
    technique="TLA+ operators tabulated by TLC and replayed on policy/packages.cpp; TLA+ spec Mempool + TLC exhaustive, path cover replayed on a real node",
)


def replay(ctx, path):
    o = json.load(open(path))
    if o.get("mode") == "pkgtable":
        binary = ctx.build_adapter("mempool")
        upath, mpath, universe, meas = _mempool.prepare(ctx, binary, "shape", "MU_std.cfg")
        r = ctx.run_harness(binary, "pkgtable", [json.dumps(o["case"])], args=[upath], nproc=1, name="replay")
        bad = r["mismatches"] + r["aborts"]
        print("REPLAY result: %s" % ("still differs from the specification" if bad else "passes"))
        return 1 if bad else 0
    return _mempool.replay(ctx, path)


def shape_table(ctx, binary):
    upath, mpath, universe, meas = _mempool.prepare(ctx, binary, "shape", "MU_std.cfg")
    w = {t: meas[t - 1]["weight"] for t in (37, 38, 39, 40)}
    if w[37] + w[38] != 404000 or w[37] + w[39] != 404004 or w[40] <= 404000:
        raise vflib.InfraError("universe shape no longer sits on the package weight cap (weights %s): re-pad Uni_shape.tla" % w)
    r = ctx.tlc("Mempool", "MC_shape", "MC_shape_q.cfg" if ctx.tier == "quick" else "MC_shape_t.cfg", env={"MP_MEASURE": mpath})
    rows = [json.loads(l) for l in open(r.emit_path)]
    if len(rows) != r.distinct:
        raise vflib.InfraError("emitted %d rows for %d distinct states" % (len(rows), r.distinct))
    by = collections.Counter(x["gate"] for x in rows)
    for reason in ("ok", "package-too-many-transactions", "package-too-large", "package-contains-duplicates", "package-not-sorted", "conflict-in-package",
                   "package-not-child-with-parents"):
        if not by[reason]:
            raise vflib.InfraError("vacuity: no row of the package table with gate result " + reason)
    res = ctx.run_harness(binary, "pkgtable", rows, args=[upath], name="pkgtable")
    ctx.evaluations += int(res["summary"]["tests"])
    ctx.extra["diverged_conservative"] = int(res["summary"].get("conservative_rows", 0))
    ctx.extra["package_table_rows_refused_for_another_reason"] = int(res["summary"].get("other_reason_rows", 0))
    ctx.extra["package_table_rows_per_gate_result"] = dict(by)
    for x in rows:
        if len(x["pkg"]) > 1 and x["gate"] != "package-contains-duplicates":
            ctx.nontrivial.add(vflib.digest(x["pkg"]))
    ctx.sample(rows[len(rows) // 2])
    vflib.report_mismatches(ctx, binary, "pkgtable", res, args=[upath], adapter="mempool", what_prefix="package table: ",
                            key_fn=lambda m, case: "row:" + vflib.digest((m.get("action") or {}).get("pkg")))


def run(ctx):
    binary = ctx.build_adapter("mempool")
    only = os.environ.get("VERIF_C29_ONLY")
    if not only or only == "table":
        shape_table(ctx, binary)
    if not only or only == "node":
        nontrivial = lambda p: any(s["a"][0] == "pkg" and len(s["a"][1]) > 1 for s in p["steps"])
        cfg = "MC_pkg_q.cfg" if ctx.tier == "quick" else "MC_pkg_t.cfg"
        st = _mempool.run_scenario(ctx, binary, "C29", "pkg", cfg, "MU_std.cfg", nontrivial=nontrivial)
        # a package that enters on its package feerate into a full pool (-maxmempool=1) and is trimmed away at once
        stf = _mempool.run_scenario(ctx, binary, "C29", "fill", "MC_fill_pkg.cfg", "MU_fill.cfg", nontrivial=nontrivial)
        if not stf["txr"].get(("invalid", "mempool full")) or not st["txr"].get(("invalid", "mempool full")):
            raise vflib.InfraError("vacuity: no package transaction is evicted (trimmed / expired) right after its acceptance in the bounded models")
        for k, v in stf["txr"].items():
            st["txr"][k] += v
        _mempool.need(st, [("pkg", w) for w in ("ok", "transaction failed", "package-not-sorted", "conflict-in-package", "package-contains-duplicates",
                                                 "package-not-child-with-parents", "package RBF failed: insufficient anti-DoS fees")], "C29")
        missing = [k for k in (("valid", "ok"), ("entry", "ok"), ("diffwit", "ok"), ("invalid", "min relay fee not met"), ("invalid", "bad-txns-inputs-missingorspent"),
                               ("invalid", "script-failed"), ("none", "none")) if not st["txr"].get(k)]
        if missing:
            raise vflib.InfraError("vacuity: per-transaction results never predicted: %s" % missing)
        # a package transaction with a recorded success (VALID on its own / MEMPOOL_ENTRY) is evicted by a later package transaction's replacement
        kicked = dict(valid=0, entry=0)
        for p in st["paths"]:
            for k, s in enumerate(p["steps"]):
                if s["a"][0] != "pkg":
                    continue
                pre = (p["steps"][k - 1]["m"] if k else p["init_m"])["pool"]
                for i, t in enumerate(s["a"][1]):
                    if t in s["r"]["evict"] and s["r"]["txr"][i] == dict(k="invalid", why="mempool full"):
                        kicked["entry" if t in pre else "valid"] += 1
        if not kicked["valid"] or not kicked["entry"]:
            raise vflib.InfraError("vacuity: no package transaction with a recorded success is evicted by a later package transaction's replacement (%s)" % kicked)
        ctx.extra["package_txs_evicted_by_a_later_package_tx"] = kicked
        ctx.extra["per_transaction_results_predicted"] = {"%s/%s" % k: v for k, v in sorted(st["txr"].items())}
    ctx.assumptions += ["bounded scenario on a 110-block regtest base chain, -acceptnonstdtxn=1, the mempool never reaches its size limit",
                        "fees, virtual sizes and weights of the universes are measured from the real signed transactions at run time"]
    return ctx.finish(level="model_checking", exhaustive=True,
                      rule="every sequence of the package-shape domain evaluated on the real predicates; path cover of every transition of the bounded "
                           "Mempool graph with package submissions; non-trivial = distinct multi-transaction packages / paths containing one")
