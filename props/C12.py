"""C12 — the script interpreter implements Bitcoin script semantics (specs/Script, engine E4 with TLC as the program generator)."""
import collections, os, sys
sys.path.insert(0, os.path.dirname(os.path.abspath(__file__)))
import vflib, _script

META = dict(
    engine="E4",
    level="model_checking",
    text="An independent reference interpreter for Bitcoin script is written in TLA+ (specs/Script/Script.tla: instruction decoding, CScriptNum in "
         "sign-magnitude limbs, main/alt/condition stacks, every opcode, all limits, CHECKSIG/CHECKMULTISIG against an abstract SigOK relation, "
         "hash opcodes as injective constructors, P2SH, witness v0, taproot/tapscript). TLC enumerates programs of bounded grammars with "
         "boundary-valued pushes under the relevant flag sets and script versions and evaluates the reference interpreter on each; every row "
         "is concretised (real hashes, real keys, real ECDSA/Schnorr signatures made so that SigOK holds exactly as the model chose) and "
         "replayed on the real EvalScript / VerifyScript, comparing success, ScriptError and, for EvalScript rows, the final stack.",
    note="Bounded grammars (programs of up to ~6 tokens per group plus repetition macros for the limits); the opcodes and rules that are in the "
         "model are listed in coverage.modelled of the evidence file. Signature hashing itself (SignatureHash) is used to make the signatures "
         "and is not part of the comparison. The final stack is compared on success only (the stack after a failure is not defined by the rules).",
    technique="TLA+ reference interpreter as oracle, TLC-enumerated program table replayed on EvalScript/VerifyScript",
)

GROUPS = ["push", "stack", "arith", "flow", "hash", "sig", "der", "msig", "lock", "limits", "verify", "tap"]
# every rule of the interpreter the grammars are meant to reach: a run that never predicts one of these is vacuous
NEED_ERRORS = ["", "EVAL_FALSE", "OP_RETURN", "SCRIPTNUM", "SCRIPT_SIZE", "PUSH_SIZE", "OP_COUNT", "STACK_SIZE", "SIG_COUNT", "PUBKEY_COUNT", "VERIFY",
               "EQUALVERIFY", "CHECKMULTISIGVERIFY", "CHECKSIGVERIFY", "NUMEQUALVERIFY", "BAD_OPCODE", "DISABLED_OPCODE", "INVALID_STACK_OPERATION",
               "INVALID_ALTSTACK_OPERATION", "UNBALANCED_CONDITIONAL", "NEGATIVE_LOCKTIME", "UNSATISFIED_LOCKTIME", "SIG_HASHTYPE", "SIG_DER", "MINIMALDATA",
               "SIG_PUSHONLY", "SIG_HIGH_S", "SIG_NULLDUMMY", "PUBKEYTYPE", "CLEANSTACK", "MINIMALIF", "SIG_NULLFAIL", "DISCOURAGE_UPGRADABLE_NOPS",
               "DISCOURAGE_UPGRADABLE_WITNESS_PROGRAM", "WITNESS_PROGRAM_WRONG_LENGTH", "WITNESS_PROGRAM_WITNESS_EMPTY", "WITNESS_PROGRAM_MISMATCH",
               "WITNESS_MALLEATED", "WITNESS_MALLEATED_P2SH", "WITNESS_UNEXPECTED", "WITNESS_PUBKEYTYPE", "TAPSCRIPT_CHECKMULTISIG", "TAPSCRIPT_MINIMALIF",
               "SIG_FINDANDDELETE", "OP_CODESEPARATOR", "SCHNORR_SIG_SIZE", "SCHNORR_SIG_HASHTYPE", "SCHNORR_SIG", "TAPROOT_WRONG_CONTROL_SIZE",
               "TAPSCRIPT_VALIDATION_WEIGHT", "TAPSCRIPT_EMPTY_PUBKEY", "DISCOURAGE_UPGRADABLE_TAPROOT_VERSION", "DISCOURAGE_OP_SUCCESS",
               "DISCOURAGE_UPGRADABLE_PUBKEYTYPE"]          # = every ScriptError except UNKNOWN_ERROR


def run(ctx):
    binary = ctx.build_adapter("script")
    only = os.environ.get("VERIF_C12_ONLY")          # restrict to some groups (self-tests of single mutations)
    groups = [g for g in GROUPS if os.path.exists(os.path.join(vflib.SPECS, "Script", "MC_%s.cfg" % g))]
    if only:
        groups = [g for g in groups if g in only.split(",")]
    by_group, by_err, nontrivial = collections.Counter(), collections.Counter(), set()
    summary = collections.Counter()
    # quick: one TLC process for all groups (JVM warm-up dominates short runs); thorough: the two big groups on their own, the rest together;
    # VERIF_C12_ONLY: one run per named group
    if only:
        runs = [("MC_%s.cfg" % g, g) for g in groups]
    elif ctx.tier == "quick":
        runs = [("MC_all.cfg", "all")]
    else:
        runs = [("MC_arith.cfg", "arith"), ("MC_flow.cfg", "flow"), ("MC_rest.cfg", "rest")]
    for cfg, name in runs:
        r = _script.run_rows(ctx, cfg, name=name)
        # distinct states = shards (Init) + rows (one EmitRow per successor state)
        if not (0 < r.emitted < r.distinct):
            raise vflib.InfraError("%s: %d rows emitted for %d distinct states" % (cfg, r.emitted, r.distinct))
        n = _script.scan_rows(r.emit_path, by_group, by_err, nontrivial)
        with open(r.emit_path) as f:
            for i, l in enumerate(f):
                if i in (7, n // 2):
                    ctx.sample(vflib.json.loads(l), limit=6)
        summary.update(_script.replay(ctx, binary, "table", r.emit_path, "table_" + name, "Script: "))
        if ctx.tier == "thorough":
            os.remove(r.emit_path)
    if not only and not ctx.violations:
        missing_g = [g for g in groups if not by_group[g]]
        missing_e = [e for e in NEED_ERRORS if not by_err[e]]
        if missing_g or missing_e:
            raise vflib.InfraError("vacuity: no row for groups %s / predicted results %s" % (missing_g, missing_e))
    ctx.evaluations = int(summary["tests"]); ctx.traces = ctx.evaluations
    ctx.nontrivial = nontrivial
    ctx.extra["rows_per_group"] = dict(by_group)
    ctx.extra["rows_per_predicted_result"] = {k or "OK": v for k, v in by_err.items()}
    ctx.extra["harness"] = {k: int(v) for k, v in summary.items()}
    ctx.extra["modelled"] = _script.MODELLED
    ctx.assumptions += ["programs outside the bounded grammars behave like their neighbours",
                        "SHA256/SHA1/RIPEMD160 are collision free on the enumerated inputs and real signatures verify under exactly one key (the model's SigOK)"]
    return ctx.finish(level="model_checking", exhaustive=True,
                      rule="every program of the bounded grammars (groups %s) x relevant flag sets x script versions; non-trivial = distinct rows whose "
                           "scripts hold at least two bytes" % ", ".join(groups))
