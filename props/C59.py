"""C59 — inbound eviction never picks a protected peer (specs/Eviction, engines E3 + E2/E4-style generation)."""
import collections, concurrent.futures, json, os
import vflib

META = dict(
    engine="E3",
    level="model_checking",
    text="Eviction.tla states the relation of C59 over the fields of NodeEvictionCandidate - Allowed(choice, S): the chosen peer is a candidate, "
         "inbound, without noban, and not StrictlyProtected, i.e. not among the 4 highest keyed netgroups / 8 lowest min-ping / 4 latest novel-tx / "
         "4 latest novel-block senders of ALL candidates under every ordering of ties (fewer than k others are at least as good) - and transcribes "
         "SelectNodeToEvict pass by pass (noban filter, outbound filter, netgroup, ping, tx, block-relay-only, block; std::sort's freedom between "
         "tied elements as nondeterminism; the ratio protection and final pick left open). TLC proves Safe (the algorithm never returns a peer the "
         "relation forbids) and one lemma per pass (a pass removes at least what its clause protects, whatever was removed before) exhaustively on "
         "every candidate multiset of up to 4-5 peers with scaled-down protection sizes, and with the code's sizes 4/8/4/4/8 on every case of a "
         "boundary-seeking generator: a target peer at rank k-1 / k / k+1 of exactly one criterion, with 0-2 peers tied with it, champions that are "
         "distinct, tied, noban or outbound, 0-57 (thorough: up to 125) fillers that are worse on that criterion and better on all others, noban / "
         "outbound decoys that are the most evictable peers of all; the target is otherwise the most evictable (prefer_evict, youngest, worst on "
         "the other criteria). Binding (code -> spec): every generated set (TLC BFS over a parameter grid plus a seeded TLC -simulate walk over the "
         "full grid) is handed to the real SelectNodeToEvict in 4 element orders, realised as CNodes of a ConnmanTestMsg and evicted through "
         "CConnman::EvictTxPeerIfFull and the accept path (CreateNodeFromAcceptedSocket), both via AttemptToEvictConnection, and complemented by "
         "seeded random sets with heavy ties (sizes 0-130, all networks, permissions and connection types). The model's rank values are abstract; how "
         "they become real field values is a parameter of the replay, and every set is decided under each value mapping: coarse (1 us / 1 s steps, "
         "netgroup keys spread over 64 bits), finest (pings 1 ns apart inside one microsecond and millisecond, connection times 1 ns apart - whole "
         "seconds for CNodes -, block / tx times 1 s apart, keys differing in the low bits only), sub_us (pings 100 ns apart, keys differing in the "
         "high bits only) and wide (1 ms / 1 h steps); the generator puts the target's nearest champion and its nearest, longest-connected competitor "
         "one rank value away, so comparisons coarser than the stored type turn a strict rank into a tie. The adapter only logs "
         "(candidate set read back from the real structures, chosen id or none) and TLC (EvictionJudge.tla) evaluates Allowed on every logged case.",
    note="SAFE mode: the property says whom NOT to evict; whether and whom the code evicts otherwise is not compared (a stricter protection or a "
         "different tie-break is not a violation; 'nobody evicted' is always allowed). Protection is counted over all candidates, as the statement "
         "says; the code counts over the successively reduced vector, which protects at least those. Attribute values are small integers mapped "
         "strictly monotonically onto the real field types under four value mappings (read back through the exact inverse). In the connman runs (network, is_local) are realised "
         "through real addresses, so combinations no connection can have (e.g. a local I2P peer) are logged as the CNode really reports them.",
    technique="TLA+ relation + pass-by-pass model of SelectNodeToEvict checked by TLC; TLC-generated boundary candidate sets run through the real "
              "SelectNodeToEvict / CConnman::AttemptToEvictConnection; recorded (set, choice) pairs judged by TLC",
)



def load_rows(path):
    out = []
    with open(path) as f:
        for ln in f:
            o = json.loads(ln)
            if "cands" in o:
                out.append(o)
    return out


def collect_logs(ctx, res, name, nproc):
    """The adapter writes its log next to each input shard (<shard>.log)."""
    lines = []
    for i in range(nproc):
        p = os.path.join(ctx.work, "%s.in.%d.log" % (name, i))
        if not os.path.exists(p):
            raise vflib.InfraError("adapter wrote no log for shard %s" % p)
        with open(p) as f:
            lines += f.readlines()
    return lines


def parallel(jobs, width):
    """Run independent TLC runs side by side (each is a separate JVM); results in job order, first exception re-raised."""
    with concurrent.futures.ThreadPoolExecutor(max_workers=max(1, width)) as ex:
        futs = [ex.submit(j) for j in jobs]
        return [f.result() for f in futs]


def judge(ctx, log_lines, name="judge", width=1):
    """TLC evaluates Allowed on every logged case; returns the verdict rows (one per log line). The log is cut into
    `width` consecutive pieces judged by separate TLC processes."""
    if width > 1 and len(log_lines) >= 8 * width:
        step = (len(log_lines) + width - 1) // width
        parts = [log_lines[i:i + step] for i in range(0, len(log_lines), step)]
        outs = parallel([(lambda i=i, part=part: judge(ctx, part, name="%s%d" % (name, i))) for i, part in enumerate(parts)], width)
        verdicts = []
        for v, _ in outs:
            verdicts += v
        return verdicts, None
    path = os.path.join(ctx.work, name + ".log.ndjson")
    with open(path, "w") as f:
        f.writelines(log_lines)
    if not log_lines:
        return [], path
    r = ctx.tlc("Eviction", "EvictionJudge", "Judge.cfg", name=name, workers=1, env={"LOG": path}, timeout=2400, expect_violation=True)
    if r.error or r.violated or r.postcondition_false:
        raise vflib.InfraError("the judge did not walk the whole log (%s); see %s" % (r.error or r.violated or "postcondition", r.log_path))
    verdicts = {}
    with open(r.emit_path) as f:
        for ln in f:
            v = json.loads(ln)
            verdicts[v["line"]] = v
    if sorted(verdicts) != list(range(1, len(log_lines) + 1)):
        raise vflib.InfraError("judge returned %d verdicts for %d logged cases" % (len(verdicts), len(log_lines)))
    return [verdicts[i + 1] for i in range(len(log_lines))], path


def report(ctx, log_lines, verdicts, rows_by_src):
    """Report the failing cases: at most 8, spread over the distinct (source, value mappings) signatures."""
    groups = collections.OrderedDict()
    seen = set()
    for ln, v in zip(log_lines, verdicts):
        if v["ok"]:
            continue
        case = json.loads(ln)
        key = "%s:%s" % (case["src"], vflib.digest([case["cands"], v["bad"]]))
        if key in seen:
            continue
        seen.add(key)
        how = sorted(set(l for c, l in zip(case["choices"], case.get("labels", [])) if c == v["bad"]))
        sig = (case["src"], tuple(sorted(set(h.split("/")[0] for h in how))))
        groups.setdefault(sig, []).append((key, case, v, how))
    picked = []
    while len(picked) < 8 and any(groups.values()):
        for sig in list(groups):
            if groups[sig] and len(picked) < 8:
                picked.append(groups[sig].pop(0))
    for key, case, v, how in picked:
        what = "eviction (%s, %d candidates, value mapping/order %s) chose peer %s: %s" % (
            case["src"], len(case["cands"]), ",".join(how[:6]) or "?", v["bad"], v["why"])
        ctx.violation(key, what, dict(adapter="eviction", mode="connman" if case["src"].startswith("connman") else "select",
                                      case=dict(cands=case["cands"]), logged=case, verdict=v))
    if seen:
        ctx.extra["failing_signatures"] = sorted("%s [%s]" % (s0, ",".join(s1)) for s0, s1 in groups)
    return len(seen)


def run(ctx):
    binary = ctx.build_adapter("eviction")
    quick = ctx.tier == "quick"

    # ---- 1. the property on the algorithm model: every small multiset, scaled-down protection sizes (exhaustive)
    width = min(4, vflib.free_cpus())
    w1 = max(1, vflib.free_cpus() // width)
    jobs = [(lambda cfg=cfg: ctx.tlc("Eviction", "Eviction", cfg, timeout=2400, emit=False, workers=w1))
            for cfg in (["MC_small_a.cfg", "MC_small_b.cfg"] if quick else ["MC_small_a.cfg", "MC_small_b.cfg", "MC_small_all.cfg", "MC_small_k2.cfg"])]

    # ---- 2. the boundary generator with the code's sizes: algorithm model explored on every case (BFS) + rows for the implementation
    #         and a seeded random walk over the full parameter grid (TLC -simulate)
    jobs.insert(0, lambda: ctx.tlc("Eviction", "Eviction", "MC_gen_quick.cfg" if quick else "MC_gen_thorough.cfg", timeout=2400, workers=w1))
    jobs.insert(1, lambda: ctx.tlc("Eviction", "Eviction", "Sim_gen.cfg" if quick else "Sim_gen_thorough.cfg", simulate=(1, 400 if quick else 3000), timeout=2400))
    done = parallel(jobs, width)
    r, rs = done[0], done[1]
    rows = load_rows(r.emit_path)
    n_grid = len(rows)
    seen = set(vflib.canon(x["par"]) for x in rows)
    for x in load_rows(rs.emit_path):
        k = vflib.canon(x["par"])
        if k not in seen:
            seen.add(k); rows.append(x)
    if n_grid == 0 or len(rows) == n_grid:
        raise vflib.InfraError("generator produced no cases (%d grid, %d simulated)" % (n_grid, len(rows) - n_grid))
    for i, x in enumerate(rows):
        x["row"] = i
    ctx.log("generator: %d grid cases + %d simulated cases, sizes %d..%d" % (
        n_grid, len(rows) - n_grid, min(len(x["cands"]) for x in rows), max(len(x["cands"]) for x in rows)))

    # ---- 3. the real code: SelectNodeToEvict in 4 orders, and the two CConnman paths; the adapter only logs
    log_lines = []
    res = ctx.run_harness(binary, "select", rows, args=[4], name="select")
    log_lines += collect_logs(ctx, res, "select", res["nproc"])
    summ = collections.Counter(res["summary"])
    res2 = ctx.run_harness(binary, "connman", rows if quick else [x for x in rows if len(x["cands"]) <= 70], name="connman")
    log_lines += collect_logs(ctx, res2, "connman", res2["nproc"])
    summ.update(res2["summary"])
    vflib.report_mismatches(ctx, binary, "connman", res2, adapter="eviction", what_prefix="Eviction connman: ")
    #         seeded random sets with heavy ties (code -> spec only)
    drive = ctx.run_driver(binary, "drive", args=[ctx.seed, 1200 if quick else 20000, 130])
    with open(drive) as f:
        rnd = [l for l in f if l.startswith("{")]
    log_lines += rnd

    # ---- 4. TLC judges every logged case with the relation of the property
    verdicts, log_path = judge(ctx, log_lines, width=width)
    n_bad = report(ctx, log_lines, verdicts, None)

    # ---- evidence, vacuity guards
    per = collections.Counter()
    by_row = {x["row"]: x for x in rows}
    for ln, v in zip(log_lines, verdicts):
        case = json.loads(ln)
        ch = case["choices"]
        evicted = [c for c in ch if c != -1]
        per["cases:" + case["src"]] += 1
        per["decisions"] += len(ch)
        per["decisions_evicting"] += len(evicted)
        if evicted:
            ctx.nontrivial.add(vflib.digest([case["cands"], ch]))
        if case["src"] == "select":
            g = by_row[case["row"]]
            crit = g["par"]["crit"]
            if g["protected"]:
                per["target_protected:" + crit] += 1
            else:
                per["target_unprotected:" + crit] += 1
                if g["target"] in ch:
                    per["target_evicted_when_unprotected:" + crit] += 1
    # scenarios of the shape "target on the last protected slot of a criterion, its nearest competitor one rank value worse and connected
    # longer, nothing else protecting the target", which the finest-resolution value mappings turn into sub-unit differences
    for x in rows:
        pr = x["par"]
        if pr["da"] == 1 and pr["tied"] == 0 and pr["nfill"] >= 20 and x["protected"]:
            t = next(c for c in x["cands"] if c["id"] == x["target"])
            key = dict(grp="grp", ping="ping", tx="tx", blk="blk")[pr["crit"]]
            worse = t[key] + 1 if key == "ping" else t[key] - 1
            if any(c[key] == worse and c["conn"] < t["conn"] and c["ctype"] == "inbound" and not c["noban"] for c in x["cands"]):
                per["last_slot_with_adjacent_older_competitor:" + pr["crit"]] += 1
    ctx.evaluations = per["decisions"]
    ctx.traces = len(log_lines)
    ctx.extra["counts"] = dict(per)
    ctx.extra["verdicts_not_ok"] = n_bad
    ctx.extra["harness_counters"] = {k: int(v) for k, v in summ.items() if k in ("tests", "steps", "evictions", "none")}
    ctx.extra["harness_counters"]["random_cases"] = len(rnd)
    mapping_counts = {k: int(v) for k, v in summ.items() if k.startswith("decisions_")}
    ctx.extra["decisions_per_value_mapping"] = mapping_counts
    for mname in ("decisions_coarse", "decisions_finest", "decisions_sub_us", "decisions_wide", "decisions_finest_s"):
        if not mapping_counts.get(mname):
            raise vflib.InfraError("vacuity: no decision taken under value mapping " + mname)
    for c in ("grp", "ping", "tx", "blk"):
        if not per["last_slot_with_adjacent_older_competitor:" + c]:
            raise vflib.InfraError("vacuity: no case with the target on the last protected %s slot and an adjacent, longer-connected competitor" % c)
    if not per["decisions_evicting"]:
        raise vflib.InfraError("vacuity: the implementation never evicted anybody")
    if not sum(v for k, v in per.items() if k.startswith("target_evicted_when_unprotected:")):
        raise vflib.InfraError("vacuity: the boundary target was never evicted when the relation allows it - the generator does not reach the boundary")
    if not all(per["target_protected:" + c] and per["target_unprotected:" + c] for c in ("grp", "ping", "tx", "blk")):
        raise vflib.InfraError("vacuity: a criterion has no protected / unprotected boundary case")
    for i in (0, len(log_lines) // 2, len(log_lines) - 1):
        c = json.loads(log_lines[i])
        ctx.sample(dict(src=c["src"], n=len(c["cands"]), first_candidate=c["cands"][0] if c["cands"] else None, choices=c["choices"],
                        verdict=verdicts[i]))
    ctx.assumptions += ["attribute values are small integers mapped strictly monotonically onto the real field types (four value mappings from 1 ns to 1 h steps)",
                        "algorithm model: exhaustive for <= 5 candidates with protection sizes scaled to 1-2; with the real sizes only on the generator's cases "
                        "whose tie classes at the netgroup / ping cut have at most 6 members"]
    return ctx.finish(level="model_checking", exhaustive=False,
                      rule="cases = (candidate set, decisions of the real code) from the TLC generator grid, a seeded TLC -simulate walk and a seeded random driver; "
                           "each set is decided under 4 value mappings x 4 element orders by SelectNodeToEvict and under 3 value mappings by each CConnman path; non-trivial = distinct cases in which somebody was "
                           "evicted (the relation then had to clear that peer on all four criteria)")


def replay(ctx, path):
    """./check C59 --replay <file>: run the stored candidate set through the real code again and let TLC judge the log."""
    o = json.load(open(path))
    binary = ctx.build_adapter("eviction")
    mode = o.get("mode", "select")
    res = ctx.run_harness(binary, mode, [o["case"]], args=[4] if mode == "select" else [], nproc=1, name="replay")
    lines = collect_logs(ctx, res, "replay", 1)
    verdicts, _ = judge(ctx, lines, name="replayjudge")
    bad = [v for v in verdicts if not v["ok"]]
    for v in bad:
        print("REPLAY verdict:", json.dumps(v))
    print("REPLAY result: %s" % ("still fails" if bad else "passes"))
    return 1 if bad else 0
