"""C06 — accepted blocks have the required structure and respect resource limits (specs/BlockRules, engine E4)."""
import collections, json, os
import vflib

META = dict(
    engine="E4",
    level="model_checking",
    text="The ordered rule list of CheckBlock, ContextualCheckBlock and the sigop-cost rule of ConnectBlock and the declarative statement of C06 are "
         "both written in TLA+ (specs/BlockRules); sigop counting (legacy with the 20-per-multisig rule, accurate with OP_n, P2SH redeem script = last "
         "push of a push-only scriptSig, witness v0 keyhash / scripthash also P2SH-wrapped, taproot and unknown versions 0, count stops at an unparseable "
         "push, bytes inside push data are data) is transcribed over token sequences. TLC enumerates feature vectors (coinbase position / multiplicity, "
         "BIP34 height encodings at heights around every encoding-length boundary and around the activation height, weight 3,999,999 / 4,000,000 / "
         "4,000,001 reached with witness or non-witness bytes, stripped size 999,999 / 1,000,000 / 1,000,001, sigop cost 79,996 / 79,999 / 80,000 / "
         "80,001 / 80,004 composed from mixtures of eleven counted and seven uncounted placements, both limits at once; the sigop and weight boundaries "
         "again in the configuration 'script verification skipped' (assumed-valid), with the TLC-checked theorem that the verdict does not depend on it), "
         "proves accept <=> statement "
         "(and the rules the statement is silent on) on that domain, and every row is built as a real block on an in-process regtest node and judged by "
         "TestBlockValidity and ProcessNewBlock (the 'scripts skipped' rows on a fresh node per row whose -assumevalid block sits 2020 headers above the "
         "block, each block carrying a failing-script spend that proves the skip). Every token sequence up to length 3 over a small alphabet is also replayed in every role directly on "
         "CScript::GetSigOpCount, GetLegacySigOpCount, GetP2SHSigOpCount, CountWitnessSigOps and GetTransactionSigOpCost.",
    note="Compared: accept / reject of both entry points and the block's total sigop cost; a different reject reason is only counted (rule order is not "
         "part of the statement). The transaction-count bound (count x 4 <= 4,000,000) and the stripped-size bound are implied by the weight bound for any "
         "serialisable block (a TLC-checked lemma on the domain) and cannot be violated on their own; the legacy-only pre-check of CheckBlock is likewise "
         "shadowed by the complete count in ConnectBlock. Heights up to 300 only at block level (the encodings of 32767 / 32768 / 8388607 / 8388608 are "
         "checked against CScript() << h at script level). Regtest script flags (P2SH, WITNESS, TAPROOT active from genesis); flag-less historical "
         "counting is not covered. Values between the enumerated boundaries are assumed to behave like their neighbours.",
    technique="TLA+ operator (ordered rules) = declarative predicate, TLC-enumerated oracle tables replayed on a real node (TestBlockValidity, "
              "ProcessNewBlock) and on the sigop counting functions",
)

REASONS = ("ok", "bad-blk-length", "bad-cb-missing", "bad-cb-multiple", "bad-txns-prevout-null", "bad-txns-inputs-duplicate", "bad-txns-vout-empty",
           "bad-cb-length", "bad-blk-sigops", "bad-txns-nonfinal", "bad-cb-height", "bad-witness-nonce-size", "bad-witness-merkle-match",
           "unexpected-witness", "bad-blk-weight", "script-failed")
JOBS = int(os.environ.get("VERIF_JOBS", "0") or 0) or None


def check_vacuity(rows):
    by_res = collections.Counter(r["res"] for r in rows)
    for reason in REASONS:
        if not by_res[reason]:
            raise vflib.InfraError("vacuity: no block row with expected result " + reason)
    # the boundary values themselves: each limit at, one below and the smallest amount above, with both verdicts
    need = {
        "weight 4,000,000 accepted": lambda r: r["weight"] == 4000000 and r["res"] == "ok",
        "weight 4,000,001 rejected": lambda r: r["weight"] == 4000001 and r["res"] == "bad-blk-weight",
        "weight 3,999,999 accepted": lambda r: r["weight"] == 3999999 and r["res"] == "ok",
        "stripped 1,000,000 accepted": lambda r: r["base"] == 1000000 and r["res"] == "ok",
        "stripped 1,000,001 rejected": lambda r: r["base"] == 1000001 and r["res"] == "bad-blk-length",
        "sigops 80,000 accepted": lambda r: r["cost"] == 80000 and r["res"] == "ok",
        "sigops 80,001 rejected": lambda r: r["cost"] == 80001 and r["res"] == "bad-blk-sigops",
        "sigops 80,004 rejected": lambda r: r["cost"] == 80004 and r["res"] == "bad-blk-sigops",
        "sigops 79,999 accepted": lambda r: r["cost"] == 79999 and r["res"] == "ok",
        "BIP34 inactive, wrong height accepted": lambda r: r["fam"] == "bip34off" and r["h"] < r["bip34"] and r["fv"]["enc"] != "ok" and r["res"] == "ok",
        "BIP34 first active height, wrong height rejected": lambda r: r["fam"] == "bip34off" and r["h"] == r["bip34"] and r["res"] == "bad-cb-height",
        # the same boundaries with script verification skipped (assumed-valid), the excess coming from P2SH / witness sigops only
        "scripts skipped: sigops 80,000 accepted": lambda r: r["skip"] and r["cost"] == 80000 and r["res"] == "ok",
        "scripts skipped: 80,001 via P2SH rejected": lambda r: r["skip"] and r["cost"] == 80001 and r["fv"]["mix"] == ["p2sh"] and r["res"] == "bad-blk-sigops",
        "scripts skipped: 80,001 via P2WSH rejected": lambda r: r["skip"] and r["cost"] == 80001 and r["fv"]["mix"] == ["p2wsh"] and r["res"] == "bad-blk-sigops",
        "scripts skipped: 80,004 via P2SH-P2WSH rejected": lambda r: r["skip"] and r["cost"] == 80004 and r["fv"]["mix"] == ["p2shwsh"] and r["res"] == "bad-blk-sigops",
        "scripts skipped: weight 4,000,000 accepted": lambda r: r["skip"] and r["weight"] == 4000000 and r["res"] == "ok",
        "scripts skipped: weight 4,000,001 rejected": lambda r: r["skip"] and r["weight"] == 4000001 and r["res"] == "bad-blk-weight",
    }
    for what, pred in need.items():
        if not any(pred(r) for r in rows):
            raise vflib.InfraError("vacuity: no row for '%s'" % what)
    return by_res


def run(ctx):
    binary = ctx.build_adapter("blockrules")
    thorough = ctx.tier != "quick"

    # ---- script level
    rs = ctx.tlc("BlockRules", "SigopRows", "MC_script_thorough.cfg" if thorough else "MC_script_quick.cfg", workers=JOBS, timeout=2400)
    srows = [json.loads(l) for l in open(rs.emit_path)]
    if len(srows) != rs.distinct:
        raise vflib.InfraError("script table: emitted %d rows for %d distinct states" % (len(srows), rs.distinct))
    roles = collections.Counter(r.get("role", "height") for r in srows)
    for k in ("out", "sig", "p2shsig", "redeem", "redeem_first", "redeem_nonpush", "wscript", "wscript_first", "wscript_wrapped", "wscript_v1", "spk",
              "special", "wrap", "height"):
        if not roles[k]:
            raise vflib.InfraError("vacuity: no script row with role " + k)
    res_s = ctx.run_harness(binary, "script", srows, nproc=JOBS, name="script")
    ctx.extra["script_rows_per_role"] = dict(roles)
    ctx.extra["script_rows_with_nonzero_cost"] = sum(1 for r in srows if r.get("cost"))
    vflib.report_mismatches(ctx, binary, "script", res_s, adapter="blockrules", what_prefix="sigop counting: ",
                            key_fn=lambda m, case: "script:" + vflib.digest(m.get("why")))

    # ---- block level
    rb = ctx.tlc("BlockRules", "BlockRules", "MC_block_thorough.cfg" if thorough else "MC_block_quick.cfg", workers=JOBS, timeout=2400)
    rows = [json.loads(l) for l in open(rb.emit_path)]
    if len(rows) != rb.distinct:
        raise vflib.InfraError("block table: emitted %d rows for %d distinct states" % (len(rows), rb.distinct))
    by_res = check_vacuity(rows)
    # expensive (padded) rows first so that the shards are balanced
    rows.sort(key=lambda r: (-(r["weight"] > 0), r["bip34"], r["h"]))
    res_b = ctx.run_harness(binary, "block", rows, nproc=JOBS, name="block", timeout=2400)
    herr = [i for i in res_b["infos"] if i.get("kind") == "harness_error"]
    if herr:
        raise vflib.InfraError("the harness could not realise %d rows, e.g. %s" % (len(herr), json.dumps(herr[0])[:600]))
    n_tests = int(res_b["summary"]["tests"])
    if n_tests != len(rows):
        raise vflib.InfraError("block table: %d rows replayed out of %d" % (n_tests, len(rows)))
    vflib.report_mismatches(ctx, binary, "block", res_b, adapter="blockrules", what_prefix="block rules: ",
                            key_fn=lambda m, case: "block:" + vflib.digest([(m.get("action") or {}).get("fam"), (m.get("action") or {}).get("fv")]))

    ctx.evaluations = int(res_s["summary"]["tests"]) + n_tests
    ctx.traces = n_tests
    ctx.nontrivial = set(vflib.digest(r) for r in rows if r["fam"] != "natural") | set(vflib.digest(r) for r in srows if r.get("cost"))
    ctx.extra["block_rows_per_expected_result"] = dict(by_res)
    ctx.extra["block_rows_per_family"] = dict(collections.Counter(r["fam"] for r in rows))
    ctx.extra["blocks_built_at_size_targets"] = int(res_b["summary"].get("blocks_padded", 0))
    n_skip = sum(1 for r in rows if r["skip"])
    ctx.extra["rows_judged_with_scripts_skipped"] = int(res_b["summary"].get("rows_on_assumed_valid_node", 0))
    ctx.extra["blocks_connected_with_scripts_skipped"] = int(res_b["summary"].get("blocks_connected_with_scripts_skipped", 0))
    if not ctx.violations and (ctx.extra["rows_judged_with_scripts_skipped"] != n_skip or not ctx.extra["blocks_connected_with_scripts_skipped"]):
        raise vflib.InfraError("vacuity: %d of %d rows ran on the assumed-valid node, %d blocks were connected with scripts skipped" % (
            ctx.extra["rows_judged_with_scripts_skipped"], n_skip, ctx.extra["blocks_connected_with_scripts_skipped"]))
    ctx.extra["reject_reason_differs_from_first_violated_rule"] = int(res_b["summary"].get("reason_differs", 0))
    ctx.extra["accepted_despite_rule_outside_C06"] = int(res_b["summary"].get("accepted_other_rule_violation", 0))
    dev = collections.Counter(d.get("why", "")[:160] for d in res_b["deviations"])
    ctx.extra["deviation_samples"] = [k for k, _ in dev.most_common(5)]
    for r in (rows[0], rows[len(rows) // 2]):
        ctx.sample(dict(fam=r["fam"], fv=r["fv"], h=r["h"], base=r["base"], weight=r["weight"], cost=r["cost"], res=r["res"]))
    ctx.sample({k: srows[len(srows) // 3][k] for k in ("role", "spk", "sig", "wit", "out", "legacy", "p2sh", "witc", "cost") if k in srows[len(srows) // 3]})
    ctx.assumptions += ["values between the enumerated boundaries behave like their neighbours",
                        "regtest consensus parameters (P2SH, segwit and taproot active from genesis; BIP34 from height 1 or the -testactivationheight value)"]
    return ctx.finish(level="model_checking", exhaustive=True,
                      rule="every feature vector of the boundary-valued domain (block level) and every token sequence up to the length bound in every role "
                           "(script level); non-trivial = block rows other than the plain empty block, script rows with a non-zero sigop cost")
