"""C09 — the UTXO set depends only on the active chain, not on the reorg history (specs/UtxoChain, engine E1 on a real node)."""
import os, sys
sys.path.insert(0, os.path.dirname(os.path.abspath(__file__)))
import vflib, _utxochain

META = dict(
    engine="E1",
    level="model_checking",
    text="UtxoChain keeps the UTXO set incrementally (connect / disconnect through undo records holding value, height and coinbase flag, as the code "
         "does) and also defines Replay(chain) from scratch; TLC proves utxo = Replay(active chain) in every reachable state and that disconnecting a "
         "block restores exactly the view it was connected to, over all fork shapes with conflicting spends, in-block parent/child pairs, "
         "invalidate/reconsider-driven reorgs and cache flushes. Every transition is replayed on a real node and the UTXO set over the universe "
         "(existence, value, height, coinbase flag) is compared with the from-scratch definition at every step.",
    note="Bounded: <= 3 new blocks, one invalidate/reconsider (two in thorough), universe of 7 transactions. The comparison is against the model's "
         "from-genesis replay, not a twin node.",
    technique="TLA+ spec UtxoChain (incremental state = from-scratch replay) + TLC exhaustive; path cover replayed on a real node",
)
RELEVANT = {"ObsUtxoIsReplay", "ObsChainValid"}


def run(ctx):
    binary = ctx.build_adapter("utxochain")
    nontrivial = lambda p: any(s["a"][0] in ("invalidate", "reconsider") for s in p["steps"]) or len({s["a"][1] for s in p["steps"] if s["a"][0] == "mine"}) > 1
    name = "c09q" if ctx.tier == "quick" else "c09t"
    pa, pr = _utxochain.run_scenario(ctx, binary, "MC_spend", "MCO_spend", name, RELEVANT, nontrivial)
    if ctx.tier == "quick":
        # coins whose script has exactly the largest size that still enters the UTXO set (10000 bytes), spent and restored across reorgs
        _utxochain.run_scenario(ctx, binary, "MC_spend", "MCO_spend", "c09big", RELEVANT, nontrivial)
    if not pa.get("invalidate") or not pa.get("reconsider"):
        raise vflib.InfraError("vacuity: invalidate/reconsider never taken")
    ctx.assumptions += ["bounded scenario: base chain of 101 blocks, <= 3 (quick) / 4 (thorough) new blocks on any parents, invalidate/reconsider as reorg drivers"]
    return ctx.finish(level="model_checking", exhaustive=True,
                      rule="path cover of every transition of the bounded UtxoChain graph; non-trivial = distinct paths with a fork or an invalidate/reconsider")
