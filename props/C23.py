"""C23 — block templates built from the mempool are always valid (specs/BlockTemplate, engine E3 driven by TLC-chosen states and options)."""
import collections, json, os, re
import vflib

SPEC = "BlockTemplate"
META = dict(
    engine="E3",
    level="model_checking",
    text="BlockTemplate.tla states the property as a relation ValidTemplate(template, pool, prioritisation, chain, options), one operator per clause: "
         "every transaction is in the pool once; each comes after all of its unconfirmed parents; reserved weight + transaction weights within the "
         "configured maximum and sigop cost + the reserved coinbase allowance within 80,000; the per-transaction fee / sigop fields are the real ones; every "
         "transaction final at (height+1, median time past of the tip); the coinbase value and the block_reward_remaining field = subsidy(height+1) + the sum of the REAL fees (not the "
         "prioritised ones), summed exactly in wide arithmetic (single fees above 2^32 satoshi, totals crossing 2^31 and 2^32 included); the reported package feerates are those of consecutive groups of the template and none is below the configured minimum; and the "
         "template connects as a block under UtxoChain's rules (inputs, maturity, amounts, BIP68, scripts, BIP30). The same module models the design "
         "(BlockAssembler::addChunks over the clusters' optimal chunks, skip-cluster on misfit, stop below the minimum feerate) and TLC proves on every "
         "reachable mempool of the bounded scenarios and every row of a state-dependent option grid that the design's template satisfies the relation. "
         "The mempool states (child-pays-for-parent diamond, its replacement, feerate ties, positive and negative prioritisation incl. a zero-fee "
         "transaction, injected non-final entries that become final a block later, sigop carriers at the per-transaction maximum, the subsidy halving) "
         "are reached by replaying TLC's behaviours on a real regtest node; for every option row TLC printed (maximum weight at -1/0/+1 of each chunk "
         "boundary, reserved weight, minimum feerate at -1/0/+1 satoshi of each chunk's feerate, coinbase sigop allowance at -1/0/+1 of each boundary, "
         "no room, refused options) the node builds a template through interfaces::Mining::createNewBlock (test_block_validity = false); TLC evaluates "
         "the relation on every logged template, and the template is then checked by TestBlockValidity, mined and submitted through ProcessNewBlock, "
         "which must accept whatever the rules accept.",
    note="INV/relation mode: nothing is said about WHICH valid template is built (fee maximality, tie-breaks); the design model's prediction is compared "
         "for information only. Fees, weights, virtual sizes and sigop costs of the universe are measured from the real signed transactions. Non-final "
         "entries reach the mempool only through the test-only injection the repository's own miner_tests use (TryAddToMempool). The 1000-consecutive-"
         "failures early exit of addChunks is outside the bounded scenarios.",
    technique="TLA+ relation + design model checked by TLC; TLC-enumerated mempool states and option grid replayed on a real node; TLC judges every logged template; "
              "TestBlockValidity and ProcessNewBlock on the mined template",
)
OBS_INVARIANTS = ["ObsPoolKnown", "ObsInPool", "ObsTopo", "ObsWeight", "ObsSigops", "ObsClaims", "ObsFinal", "ObsCoinbase", "ObsMinFee", "ObsConnect", "ObsAccepted"]
CLAUSE = dict(ObsPoolKnown="the observed mempool holds a transaction outside the universe", ObsInPool="a template transaction is not in the mempool (or listed twice)",
              ObsTopo="a transaction precedes (or lacks) one of its unconfirmed parents", ObsWeight="reserved weight + transaction weights exceed the configured maximum",
              ObsSigops="sigop cost + coinbase allowance exceed 80,000", ObsClaims="per-transaction fee / sigop fields differ from the real ones",
              ObsFinal="a non-final transaction is included (or the height is not tip + 1)", ObsCoinbase="coinbase value differs from subsidy + real fees",
              ObsMinFee="a package is below the minimum feerate (or the package feerates do not describe the template)",
              ObsConnect="the template does not connect under the consensus rules", ObsAccepted="the node rejects a template the rules accept")


WB = 10 ** 9


def wv(w):
    """wide value {q, r} -> integer"""
    return w["q"] * WB + w["r"]


def prepare(ctx, binary):
    r = ctx.tlc(SPEC, "MU_tpl", "MU_std.cfg", name="MU_tpl", workers=1)
    rows = [x for x in vflib.load_emitted(r.emit_path) if "universe" in x]
    if not rows:
        raise vflib.InfraError("module MU_tpl did not print its universe")
    universe = rows[0]
    upath = os.path.join(ctx.work, "universe_tpl.json")
    json.dump(universe, open(upath, "w"))
    mpath = ctx.run_driver(binary, "measure", args=["-", upath], out_name=os.path.join(ctx.work, "measure_tpl.ndjson"))
    meas = [json.loads(l) for l in open(mpath) if l.startswith("{")]
    if len(meas) != len(universe["universe"]):
        raise vflib.InfraError("measure step returned %d transactions for a universe of %d" % (len(meas), len(universe["universe"])))
    val = {(0, i + 1): wv(c["v"]) for i, c in enumerate(universe["base"])}
    for t, T in enumerate(universe["universe"], 1):
        for i, o in enumerate(T["outs"], 1):
            val[(t, i)] = wv(o["v"])
    for t, T in enumerate(universe["universe"], 1):
        ins = [tuple(i["op"]) for i in T["ins"]]
        fee = sum(val[k] for k in ins) - sum(wv(o["v"]) for o in T["outs"]) - T["msig"]["n"] * T["msig"]["v"]
        if fee != wv(meas[t - 1]["fee"]):
            raise vflib.InfraError("universe tx %d: measured fee %s differs from the definition's %s" % (t, meas[t - 1]["fee"], fee))
    ctx.extra["measured_universe_fee_vsize_weight_sigops"] = [[wv(m["fee"]), m["vsize"], m["weight"], m["sigops"]] for m in meas]
    return upath, mpath, universe, meas


def build_tests(ctx, recs, max_tests):
    """Paths through the state-changing transitions of the model; a 'templates' step (all option rows TLC printed for that state)
    follows the first visit of every state."""
    rows_of = {}; model_of = {}; out = collections.defaultdict(list); parent = {}; init = None
    skips = collections.Counter(); nrows = 0
    for e in recs:
        kf, kt = vflib.canon(e["fk"]), vflib.canon(e["tk"])
        model_of.setdefault(kf, e["f"]); model_of.setdefault(kt, e["t"])
        if e.get("l") == 1 and init is None:
            init = kf
        if e["a"][0] == "templates":
            rows = sorted(e["r"]["rows"], key=lambda r: vflib.canon(r["o"]))
            if kf not in rows_of:
                rows_of[kf] = rows; nrows += len(rows)
                for r in rows:
                    for s in r["skips"]:
                        skips[s] += 1
                    if not r["ok"]:
                        skips["refused"] += 1
        elif kf != kt:
            a = list(e["a"]) + ([bool(e["r"]["ok"])] if e["a"][0] == "submit" else [])
            if (a, kt) not in [(x[0], x[1]) for x in out[kf]]:
                out[kf].append((a, kt))
    if init is None:
        raise vflib.InfraError("no initial state in the emitted graph")
    # BFS tree
    order = [init]; parent[init] = None
    dq = collections.deque([init])
    while dq:
        k = dq.popleft()
        for a, kt in out.get(k, ()):
            if kt not in parent:
                parent[kt] = (k, a); dq.append(kt); order.append(kt)
    missing = [k for k in parent if k not in rows_of]
    if missing:
        raise vflib.InfraError("%d reachable states without a templates transition" % len(missing))
    # greedy cover of the state-changing edges by paths from the initial state
    remaining = {k: list(v) for k, v in out.items() if k in parent}
    todo = sum(len(v) for v in remaining.values())
    paths = []

    def tree_path(k):
        p = []
        while parent[k] is not None:
            pk, a = parent[k]; p.append((a, k)); k = pk
        return list(reversed(p))
    pending = [k for k in order if remaining.get(k)]
    pi = 0
    while todo > 0 and len(paths) < max_tests:
        while pi < len(pending) and not remaining.get(pending[pi]):
            pi += 1
        if pi >= len(pending):
            break
        cur = pending[pi]
        steps = tree_path(cur)
        while remaining.get(cur) and len(steps) < 40:
            a, kt = remaining[cur].pop(); todo -= 1
            steps.append((a, kt)); cur = kt
        paths.append(steps)
    # every state must be visited: add tree paths for those the cover missed (when truncated by max_tests)
    visited = {init} | {k for p in paths for _, k in p}
    for k in order:
        if k not in visited:
            p = tree_path(k); paths.append(p); visited |= {x for _, x in p}
    templated = set()
    tests = []
    for p in paths:
        steps = []
        if init not in templated:
            templated.add(init); steps.append(dict(a=["templates", rows_of[init]], m=model_of[init]))
        for a, k in p:
            steps.append(dict(a=a))
            if k not in templated:
                templated.add(k); steps.append(dict(a=["templates", rows_of[k]], m=model_of[k]))
        tests.append(dict(steps=steps))
    return tests, dict(states=len(parent), edges=sum(len(v) for v in out.values()), rows=nrows, skips=skips, uncovered_edges=todo)


def obs_line(t):
    return dict(pool=t["pool"], delta=t["delta"], chain=t["chain"], o=t["o"], tpl=t["tpl"], haspk=t["haspk"], tbv=t["tbv"], pnb=t["pnb"])


def judge_traces(ctx, traces, mpath, name):
    """TLC evaluates the relation on every distinct logged template. Returns [(trace, violated invariant)]."""
    distinct = {}
    for t in traces:
        if "tpl" in t:
            distinct.setdefault(vflib.canon(obs_line(t)), t)
    keys = list(distinct)
    if not keys:
        return [], 0
    os.environ["BT_MEASURE"] = mpath
    bad = vflib.judge(ctx, SPEC, "MCO_tpl", "Obs_tpl.cfg", [json.loads(k) for k in keys], env_var="OBS", name=name)
    return [(distinct[keys[i]], inv) for i, inv in bad], len(keys)


def run_scenario(ctx, binary, cfg, upath, mpath, max_tests, stats):
    r = ctx.tlc(SPEC, "MC_tpl", cfg, name=cfg[:-4], env={"BT_MEASURE": mpath})
    recs = vflib.load_emitted(r.emit_path)
    if not recs:
        raise vflib.InfraError("no transitions emitted by %s" % cfg)
    tests, g = build_tests(ctx, recs, max_tests)
    ctx.log("%s: %d states, %d state-changing transitions, %d option rows -> %d tests" % (cfg, g["states"], g["edges"], g["rows"], len(tests)))
    for k, v in g["skips"].items():
        stats["model_skips"][k] += v
    args = [upath]
    res = ctx.run_harness(binary, "replay", tests, args=args, name="E3_" + cfg[:-4])
    ctx.traces += int(res["summary"]["tests"])
    for k in ("templates", "refused", "blocks_submitted", "verdict_shared", "restored", "restore_failed", "submit_ok", "submit_rejected",
              "submit_differs_from_model", "injected"):
        stats["harness"][k] += int(res["summary"].get(k, 0))
    # a harness exception or abort inside a step
    for m in res["mismatches"]:
        raise vflib.InfraError("harness exception in %s test %s step %s: %s" % (cfg, m.get("index"), m.get("step"), m.get("why")))
    vflib.report_mismatches(ctx, binary, "replay", dict(res, mismatches=[]), args=args, adapter="blocktemplate", what_prefix="BlockTemplate %s: " % cfg)
    traces = res["traces"]
    if int(res["summary"].get("restore_failed", 0)):
        ctx.log("note: %d tests ended early (mempool not restorable after a submitted template)" % int(res["summary"]["restore_failed"]))
    for t in traces:
        ctx.evaluations += 1
        if "tpl" not in t:
            stats["refused_valid_options" if t["pred_ok"] else "refused_as_modelled"] += 1
            continue
        if not t["pred_ok"]:
            stats["template_for_refusable_options"] += 1
        txs = t["tpl"]["txs"]
        stats["same_as_design_model" if txs == t["predicted"] else "differs_from_design_model"] += 1
        if txs != t["predicted"]:
            stats["differs_from_design_model_only_in_order_of_equal_feerate_clusters" if sorted(txs) == sorted(t["predicted"]) else "differs_from_design_model_in_content:" + cfg] += 1
        if txs:
            ctx.nontrivial.add(vflib.digest([t["pool"], t["delta"], t["chain"], t["o"], txs]))
        if len(txs) < len(t["pool"]):
            stats["templates_leaving_something_out"] += 1
        stats["max_template_len"] = max(stats["max_template_len"], len(txs))
        total = sum(wv(f) for f in t["tpl"]["fees"])
        stats["templates_with_fees_%s" % ("below_2^31" if total < 2 ** 31 else "from_2^31_below_2^32" if total < 2 ** 32 else "from_2^32")] += 1
        if any(wv(f) >= 2 ** 32 for f in t["tpl"]["fees"]):
            stats["templates_with_a_single_fee_from_2^32"] += 1
    for t in traces:
        t["_cfg"] = cfg; t["_case"] = res["lines"][t["index"]] if "index" in t else None
    if traces:
        full = [t for t in traces if "tpl" in t and len(t["tpl"]["txs"]) >= 2]
        if full:
            t = full[len(full) // 2]
            ctx.sample(dict(scenario=cfg, pool=t["pool"], options=dict(t["o"], minf=wv(t["o"]["minf"])), template=t["tpl"]["txs"], fees=[wv(f) for f in t["tpl"]["fees"]],
                            coinbase_pays=wv(t["tpl"]["cb"]), tbv=t["tbv"], pnb=t["pnb"]))
    return traces


def judge_all(ctx, traces, mpath, upath, stats):
    """One TLC run judges the templates of all scenarios."""
    bad, njudged = judge_traces(ctx, traces, mpath, "observed")
    stats["templates_judged_by_tlc"] += njudged
    args = [upath]
    seen = set()
    for t, inv in bad:
        cfg = t["_cfg"]
        key = "tpl:%s:%s" % (inv, vflib.digest([t["pool"], t["delta"], t["chain"], t["o"]]))
        if key in seen or len(seen) >= 8:
            continue
        seen.add(key)
        case = json.loads(t["_case"]) if t.get("_case") else None
        opt = dict(t["o"], minf=wv(t["o"]["minf"]))
        what = ("%s: template %s (fees %s, coinbase pays %d sat, block_reward_remaining %d sat, height %s, packages %s; TestBlockValidity: %s, ProcessNewBlock: %s) "
                "built from pool %s, deltas %s, %d blocks above the base tip, options %s breaks %s" % (
                    CLAUSE.get(inv, inv), t["tpl"]["txs"], [wv(f) for f in t["tpl"]["fees"]], wv(t["tpl"]["cb"]), wv(t["tpl"]["rw"]), t["tpl"]["height"],
                    [(wv(p["f"]), p["s"]) for p in t["tpl"]["pkgs"]], t["tbv"], t["pnb"], t["pool"], {i + 1: d for i, d in enumerate(t["delta"]) if d},
                    len(t["chain"]), vflib.canon(opt), inv))
        ctx.violation(key, what, dict(adapter="blocktemplate", mode="replay", args=args, case=case, observation=obs_line(t), invariant=inv, scenario=cfg))


def replay(ctx, path):
    """./check C23 --replay <file>: rebuild the universe, re-run the stored test on the current tree, let TLC judge its templates again."""
    o = json.load(open(path))
    if o.get("case") is None:
        print("replay file has no replayable payload"); return 2
    binary = ctx.build_adapter("blocktemplate")
    upath, mpath, universe, meas = prepare(ctx, binary)
    res = ctx.run_harness(binary, "replay", [json.dumps(o["case"])], args=[upath], nproc=1, name="replay")
    bad, n = judge_traces(ctx, res["traces"], mpath, "replay_observed")
    for t, inv in bad[:10]:
        print("REPLAY violation: %s options %s template %s" % (inv, vflib.canon(t["o"]), t["tpl"]["txs"]))
    print("REPLAY result: %s (%d templates judged)" % ("still fails" if bad or res["aborts"] else "passes", n))
    return 1 if bad or res["aborts"] else 0


def run(ctx):
    binary = ctx.build_adapter("blocktemplate")
    upath, mpath, universe, meas = prepare(ctx, binary)
    quick = ctx.tier == "quick"
    plan = [("MC_cpfp_q.cfg", 60), ("MC_locks_q.cfg", 60), ("MC_sig_q.cfg", 40), ("MC_huge_q.cfg", 60)] if quick else \
           [("MC_cpfp_t.cfg", 100000), ("MC_locks_t.cfg", 100000), ("MC_sig_t.cfg", 100000), ("MC_huge_t.cfg", 100000), ("MC_mix_t.cfg", 100000)]
    only = os.environ.get("VERIF_C23_ONLY")
    if only:
        plan = [p for p in plan if only in p[0]]
    stats = collections.Counter()
    stats["model_skips"] = collections.Counter(); stats["harness"] = collections.Counter()
    traces = []
    for cfg, max_tests in plan:
        traces += run_scenario(ctx, binary, cfg, upath, mpath, max_tests, stats)
    judge_all(ctx, traces, mpath, upath, stats)
    ms = dict(stats.pop("model_skips")); hs = dict(stats.pop("harness"))
    ctx.extra["option_rows_by_reason_something_is_left_out_in_the_design_model"] = ms
    ctx.extra["harness_counters"] = hs
    ctx.extra["template_statistics"] = dict(stats)
    if not only:
        need = ["weight", "sigops", "nonfinal", "minfee", "refused"]
        missing = [k for k in need if not ms.get(k)]
        if missing:
            raise vflib.InfraError("vacuity: no option row of the grid exercises %s" % missing)
        if not stats["templates_leaving_something_out"] or stats["max_template_len"] < 4:
            raise vflib.InfraError("vacuity: the real templates never leave a pool transaction out / never hold 4 transactions")
        for k in ("templates_with_fees_from_2^31_below_2^32", "templates_with_fees_from_2^32", "templates_with_a_single_fee_from_2^32"):
            if not stats[k]:
                raise vflib.InfraError("vacuity: no real template has %s satoshi" % k.replace("templates_with_", "").replace("_", " "))
        if hs.get("blocks_submitted", 0) == 0:
            raise vflib.InfraError("vacuity: no template was mined and submitted")
    ctx.assumptions += ["148-block regtest base chain, universe of 18 transactions with measured fee / weight / sigop cost; the node runs with -acceptnonstdtxn=1",
                        "non-final entries are placed into the mempool with the test-only TryAddToMempool (the acceptance rules never admit them)",
                        "templates for the same state and transaction list share one TestBlockValidity / ProcessNewBlock verdict; after a connected template the block is "
                        "invalidated and the mempool restored through injection"]
    return ctx.finish(level="model_checking", exhaustive=not quick,
                      rule="every reachable mempool state of the bounded scenarios (quick: a capped path cover that still visits every state) x every row of the TLC-printed "
                           "option grid = one real template judged by TLC; non-trivial = distinct (state, options, non-empty template)")
