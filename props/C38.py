"""C38 — compact block reconstruction yields the announced block or fails (specs/CompactBlock, engine E4)."""
import collections, concurrent.futures, json, os
import vflib

META = dict(
    engine="E4",
    level="model_checking",
    text="CompactBlock.tla follows PartiallyDownloadedBlock::InitData and FillBlock statement by statement (differential prefilled indexes "
         "with their overflow / range checks, short-id map with the duplicate test, the mempool and extra-pool scans with the 'second match "
         "empties the slot' rule, the same-wtxid exception and the early exit, the moved-out slots after a too short answer) and IsBlockMutated "
         "on a symbolic merkle tree (duplicate-last rule with the CVE-2012-2459 flag, witness commitment or 'unexpected witness'). TLC "
         "enumerates worlds = committed block of <= 5 transactions (coinbase first; twins with the same txid and different witnesses) x "
         "witness commitment x short-id collision classes x announcements (every prefilled subset containing the coinbase; null header, empty, "
         "null prefilled tx, index overflow / out of range / last in range, duplicated tail, wrong prefilled tx, foreign short id, swapped short "
         "ids, and witness malleation of the announced pieces: witness stripped independently from the prefilled coinbase, the other prefilled "
         "transactions, the short-id basis and the blocktxn answer) x mempool and extra-pool sequences x blocktxn answers (right, wrong tx, twin, reordered, too short, too long, empty) x segwit "
         "flag, a second InitData and a second FillBlock on the same object, and proves on every row: READ_STATUS_OK only with exactly the "
         "committed list, not mutated; malformed announcements are INVALID; bad answers never give OK; the object is one-shot; honest inputs "
         "do reconstruct. Every row is replayed on the real classes with real transactions, a real witness commitment and the real "
         "IsBlockMutated; collisions are realised as in the unit tests by keying pool entries with the colliding transaction's wtxid.",
    note="SAFE mode: the verdict is 'the code returned READ_STATUS_OK with a block that is not the committed one (transactions by wtxid, header "
         "hash, merkle root, IsBlockMutated on a copy without cached flags)'. Status or availability differences to the model are counted as "
         "conservative / liberal / other divergences and are not violations (on the unchanged tree there are none). The bucket-size heuristic "
         "(more than 12 short ids in one hash bucket) is out of reach of 5-transaction blocks. Short ids are abstract: equal iff constructed so.",
    technique="TLA+ operators InitF / FillF / Mutated = the code's case analysis; TLC-enumerated oracle table with the C38 invariants; every row replayed on PartiallyDownloadedBlock",
)

# (indexes into AllBlocks, (MaxPoolInit, MaxExtraInit, MaxPoolFill, MaxExtraFill)); one TLC run each
SMALL, LARGE = (2, 1, 1, 1), (3, 2, 2, 1)
QUICK_GROUPS = [([1, 2, 6], SMALL), ([4], SMALL), ([5], SMALL)]
THOROUGH_GROUPS = ([([1, 2, 3, 10, 11, 4], LARGE), ([5, 6], LARGE), ([12, 13, 14], LARGE)] + [([i], LARGE) for i in (7, 8, 17)]
                   + [([i], SMALL) for i in (15, 16, 9, 18, 19, 20)])


def report(ctx, binary, res, max_report=5):
    """An accepted block that is not the committed one (or an abort inside a row): re-run the row alone, then report it."""
    seen = set()
    for m in res["mismatches"] + res["aborts"]:
        idx = m.get("index")
        case = res["lines"][idx] if idx is not None and idx < len(res["lines"]) else None
        row = json.loads(case) if case else {}
        key = "row:" + vflib.digest(str(m.get("why")).split(":")[0] + str(row.get("fam")) + str(row.get("anskind")))
        if key in seen or len(seen) >= max_report:
            continue
        seen.add(key)
        what = "%s -- world: block %s, commitment %s, segwit %s, collisions '%s'; announcement '%s' %s; mempool %s, extra %s; answer (%s) %s" % (
            m.get("why"), row.get("blk"), row.get("commit"), row.get("segwit"), row.get("sw"), row.get("fam"), json.dumps(row.get("ann")),
            row.get("pool"), row.get("extra"), row.get("anskind"), row.get("ans"))

        def confirm(case=case):
            if case is None:
                return True
            r2 = ctx.run_harness(binary, "table", [case.strip()], nproc=1, name="confirm")
            return bool(r2["mismatches"] or r2["aborts"])
        ctx.violation(key, what, dict(adapter="compactblock", mode="table", args=[], case=row or None, mismatch=m), confirm=confirm)


def run(ctx):
    binary = ctx.build_adapter("compactblock")
    quick = ctx.tier == "quick"
    groups = QUICK_GROUPS if quick else THOROUGH_GROUPS

    def table(item):
        k, (idx, (pi, ei, pf, ef)) = item
        cfg = os.path.join(ctx.work, "MC_%02d.cfg" % k)
        with open(cfg, "w") as f:
            f.write("CONSTANTS\n  BlockIdx = {%s}\n  MaxPoolInit = %d\n  MaxExtraInit = %d\n  MaxPoolFill = %d\n  MaxExtraFill = %d\n"
                    "INIT Init\nNEXT Next\nINVARIANTS Safe FailClosed OneShot Live EmitRow\nCHECK_DEADLOCK FALSE\n" % (
                        ", ".join(map(str, idx)), pi, ei, pf, ef))
        # the table is the set of initial states, which TLC enumerates on one thread: one run per group of blocks, in parallel
        return ctx.tlc("CompactBlock", "MCCompactBlock", cfg, name="table%02d" % k, workers=1, timeout=3000, xmx="6g")
    with concurrent.futures.ThreadPoolExecutor(max_workers=max(1, min(vflib.free_cpus(), len(groups)))) as ex:
        results = list(ex.map(table, enumerate(groups)))

    by = collections.Counter(); fams = collections.Counter(); kinds = collections.Counter(); worlds = collections.Counter()
    nrows = 0; nontrivial = 0; strip_all = 0
    total = collections.Counter(); infos = []
    for r in results:
        if r.emitted != r.distinct:
            raise vflib.InfraError("emitted %d rows for %d distinct states (%s)" % (r.emitted, r.distinct, r.log_path))
        sample = None
        with open(r.emit_path) as f:
            for n, ln in enumerate(f):
                o = json.loads(ln)
                by[(o["init"], o["fill"])] += 1; fams[o["fam"]] += 1; kinds[o["anskind"]] += 1; worlds[o["sw"]] += 1
                if o["fam"] == "witness_stripped" and o["segwit"]:
                    # the announced pieces the row needs are all witness-stripped: coinbase, every prefilled / answered witness transaction
                    shown = [p["tx"] for p in o["ann"]["pre"]] + list(o["ans"])
                    if "cbs" in shown and not any(t in ("a", "a2", "d", "y") for t in shown + [x for x in o["avail"]]):
                        if any(t in ("as", "ds", "ys") for t in shown + list(o["avail"])):
                            strip_all += 1
                if o["sw"] != "none" or o["fam"] != "honest" or o["anskind"] != "right":
                    nontrivial += 1              # rows are distinct states of the table: counting is exact
                if sample is None and o["sw"] != "none" and o["fill"] == "FAILED" and o["init"] == "OK":
                    sample = {k: o[k] for k in ("blk", "commit", "segwit", "sw", "fam", "ann", "pool", "extra", "ans", "anskind", "init", "avail", "fill")}
        nrows += r.emitted
        if sample:
            ctx.sample(sample)
        res = ctx.run_harness(binary, "table", r.emit_path, name="rows-" + os.path.basename(r.emit_path)[:7])
        for k, v in res["summary"].items():
            total[k] += v
        infos += [i for i in res["infos"] if i.get("divergence")]
        report(ctx, binary, res)
    ctx.evaluations = int(total["tests"]); ctx.traces = ctx.evaluations; ctx.nontrivial = nontrivial
    # vacuity: every outcome class, announcement family, answer kind and collision world occurs in the table
    need_status = [("OK", "OK"), ("OK", "FAILED"), ("OK", "INVALID"), ("FAILED", "INVALID"), ("INVALID", "INVALID")]
    missing = [s for s in need_status if not by[s]]
    missing += [f for f in ("honest", "header_null", "empty", "null_prefilled", "index_overflow", "index_out_of_range", "index_last_in_range",
                            "duplicate_tail", "wrong_prefilled", "foreign_short_id", "swapped_short_ids", "witness_stripped") if not fams[f]]
    missing += [k for k in ("right", "wrong_tx", "twin", "reordered", "too_short", "too_long", "empty", "stripped") if not kinds[k]]
    missing += [w for w in ("none", "xa", "xb", "bc", "aa2", "ya2") if not worlds[w]]
    if missing:
        raise vflib.InfraError("vacuity: the table has no row with %s" % missing)
    if not strip_all:
        raise vflib.InfraError("vacuity: no row in which coinbase witness and every witness transaction are stripped together")
    ctx.extra["rows_fully_witness_stripped"] = strip_all
    if not total["accepted_blocks"]:
        raise vflib.InfraError("vacuity: the implementation never returned READ_STATUS_OK")
    ctx.extra["rows"] = nrows
    ctx.extra["rows_per_init_fill_status"] = {"%s/%s" % k: v for k, v in sorted(by.items())}
    ctx.extra["rows_per_announcement_family"] = dict(fams)
    ctx.extra["rows_per_answer_kind"] = dict(kinds)
    ctx.extra["rows_per_collision_world"] = dict(worlds)
    ctx.extra["implementation"] = {k: int(v) for k, v in total.items() if k.startswith(("code_fill_", "accepted", "exact", "divergence_"))}
    ctx.extra["divergence_examples"] = infos[:10]
    ndiv = sum(int(v) for k, v in total.items() if k.startswith("divergence_"))
    ctx.log("%d rows, implementation: %d exact, %d divergences (conservative %d, liberal %d, other %d), %d blocks accepted" % (
        nrows, int(total["exact"]), ndiv, int(total["divergence_conservative"]), int(total["divergence_liberal"]), int(total["divergence_other"]),
        int(total["accepted_blocks"])))
    ctx.assumptions += [
        "blocks of <= 5 transactions over a universe of 7 (+ the empty transaction); mempool / extra sequences of bounded length (see tlc_runs)",
        "short ids are abstract: two transactions collide iff the world says so; realised by keying pool entries with the representative's wtxid "
        "(extra_txn as in blockencodings_tests.cpp, the mempool through its public index txns_randomized)",
        "hashes are symbolic (no SHA256 collisions); the committed block has distinct txids, the coinbase first and is itself not mutated (witness commitment with segwit active, or no witnesses at all)",
        "SAFE mode: only an accepted block that differs from the committed one is a violation; other differences are reported as divergences",
    ]
    return ctx.finish(level="model_checking", exhaustive=True,
                      rule="every row of the bounded product (worlds x announcements x pools x answers); non-trivial = distinct rows with a collision "
                           "world, a malformed / malicious announcement or an answer other than the right one")
