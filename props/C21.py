"""C21 — indexes and UTXO statistics agree with recomputation from the active chain (specs/Index over UtxoChain, engines E2 + TLC)."""
import collections, concurrent.futures, json, os
import vflib

META = dict(
    engine="E2",
    level="model_checking",
    text="BaseIndex (Init from the committed locator, Sync with rewind to the fork point, BlockConnected while synced, Commit only behind the "
         "flushed chainstate, stop / destroy / re-create) and the content of txindex, txospenderindex, blockfilterindex and coinstatsindex "
         "(height-keyed entries copied to a by-hash table on rewind, running MuHash / totals restored at Init) are specified operationally in TLA+ on "
         "top of the UtxoChain specification; F(chain) - tx -> block, outpoint -> spender, BIP158 element set and header-chain position, UTXO "
         "set / count / amount per height - is defined from scratch from the chain alone. TLC checks on bounded fork/reorg/flush/restart histories that "
         "every covered active-chain block answers with F, that a synced index covers the whole chain and that the index never hits one of its internal "
         "consistency errors. TLC-generated behaviours are replayed on a real regtest node with real signed transactions and real TxIndex, TxoSpenderIndex, "
         "BlockFilterIndex(BASIC) and CoinStatsIndex objects over on-disk databases, driven as the unit tests drive them; after every step every lookup of every "
         "covered block is compared with F, the stored filter with a recomputation from block+undo, the filter headers with their chaining rule, and the "
         "index MuHash with a MuHash3072 computed in the harness over the model's UTXO set in a different insertion order. The flat-file store of the filter "
         "index (next position, roll-over to the next file at the size limit, truncate, recorded position per entry, DB_FILTER_POS) is part of the model with the "
         "limit as a constant (invariant: the bytes at the recorded position of every covered / by-hash block are its filter; the order 'record the position before "
         "the roll-over' is re-derived as a counterexample), and the real 16 MiB limit is crossed on the real index with ~95 kB filters (180 blocks), followed by a "
         "reorg across the roll-over and a restart, comparing LookupFilter / LookupFilterHeader / LookupFilterRange / LookupFilterHashRange with recomputed filters.",
    note="MuHash arithmetic and the GCS byte encoding are observed for agreement only (element *sets* and UTXO *sets* come from the model). Index sync is driven "
         "synchronously (Sync(), queue drained after every step); a restart in the middle of a sync is reached as 'index stopped, chain moves on, index "
         "re-created from its committed locator'. The universe has three script classes, so filter element sets are small. The block filter index used to refuse to start after such a restart (fixed in /repo c07c1d6, "
         "seeded_selftest/C21/m0_revert_filterindex_init_fix.diff brings the defect back). Known weakness (reported, see "
         "known findings): the spender index erases/writes entries immediately while its locator is only committed behind the flushed chainstate, so after "
         "a re-creation over an uncommitted database it can miss or misreport the active spender; the spender clauses are enforced on all other histories.",
    technique="TLA+ spec Index (operational indexes vs from-scratch F over UtxoChain) + TLC exhaustive/simulation + behaviour replay on real index classes",
)

INDEX_ACTIONS = ("mine", "invalidate", "reconsider", "flush", "istart", "isync", "istop")


def parse(path):
    """Splits what the specification printed: its universe, one row (expected lookups) per visited state, one edge per step."""
    table, edges_path = {}, path + ".edges"
    universe = None
    with open(path) as f, open(edges_path, "w") as out:
        for ln in f:
            o = json.loads(ln)
            if "universe" in o:
                universe = o
            elif "key" in o and "rows" in o:
                table[vflib.canon(o["key"])] = o
            else:
                out.write(ln)
    return table, edges_path, universe


def behaviours(ctx, cfg, name, simulate, aril=None):
    r = ctx.tlc("Index", "MC_index", cfg, name=name, simulate=simulate, single_worker=True, timeout=2400,
                extra_args=(["-aril", str(aril)] if aril is not None else None))
    table, edges_path, universe = parse(r.emit_path)
    if universe is None:
        raise vflib.InfraError("the specification did not print its universe")
    tests = []
    for b in vflib.sim_behaviours(edges_path):
        steps = []
        for s in b["steps"]:
            row = table.get(vflib.canon(s["exp"]))
            if row is None:          # last step of a behaviour: the successor was never visited, so its expected lookups were not printed
                break
            steps.append(dict(a=s["a"], r=s["r"], exp=dict(tip=s["exp"]["tip"], ix=row["ix"], rows=row["rows"])))
        if steps:
            tests.append(dict(init=dict(scenario="simulated"), steps=steps))
    return r, tests, universe


def scenarios(ctx):
    """Directed behaviours (specs/Index/Scenarios.tla): TLC walks each script through the specification."""
    r = ctx.tlc("Index", "Scenarios", "Scenarios.cfg", name="scenarios", workers=1, timeout=2400)
    table, edges_path, universe = parse(r.emit_path)
    g = vflib.Graph(vflib.load_emitted(edges_path))
    tests = []
    for p in g.path_cover():
        name = p["init"]["sc"]
        steps = []
        for s in p["steps"]:
            row = table[vflib.canon(s["exp"])]
            steps.append(dict(a=s["a"], r=s["r"], exp=dict(tip=row["tip"], ix=row["ix"], rows=row["rows"])))
        if not table[vflib.canon(p["steps"][-1]["exp"])]["done"]:
            raise vflib.InfraError("scenario %s cannot be walked to its end by the specification (stops after %d steps)" % (name, len(steps)))
        tests.append(dict(init=dict(scenario=name), steps=steps))
    return tests


def run(ctx):
    binary = ctx.build_adapter("indexes")
    quick = ctx.tier == "quick"
    # 1. TLC decides the invariants exhaustively on a small bounded model (in parallel with the generation of behaviours)
    nsim = 1 if quick else 4
    upath0 = os.path.join(ctx.work, "universe0.json")
    json.dump({}, open(upath0, "w"))
    with concurrent.futures.ThreadPoolExecutor(max_workers=3 + nsim) as ex:
        # the flat-file layer of the block filter index across its real 16 MiB roll-over (runs beside the TLC work)
        jobs = [dict(rollovers=1, reorg=True, restart=True)] if quick else [dict(rollovers=2, reorg=True, restart=True), dict(rollovers=1, reorg=False, restart=True), dict(rollovers=1, reorg=True, restart=False)]
        fut_roll = ex.submit(ctx.run_harness, binary, "rollover", jobs, args=[upath0], name="rollover", nproc=len(jobs))
        # recording the position before the roll-over must break FilterBytesAgree in the model: re-derive the counterexample
        fut_pos = ex.submit(ctx.tlc, "Index", "MC_index", "MC_posfirst.cfg", name="posfirst", workers=1, expect_violation=True, emit=False, timeout=2400)
        fut_mc = ex.submit(ctx.tlc, "Index", "MC_index", "MC_tiny.cfg" if quick else "MC_three.cfg", name="mc", workers=2 if quick else 4, timeout=2400)
        # several single-threaded simulations (distinct -aril) in parallel in the thorough tier
        futs = [ex.submit(behaviours, ctx, "Sim_four.cfg", "sim%d" % i, (50, 12) if quick else (120, 14), aril=(None if quick else i)) for i in range(nsim)]
        directed = scenarios(ctx)
        fut_mc.result()
        tests, universe = [], None
        for f in futs:
            r, t, universe = f.result()
            tests += t
        rr = fut_pos.result()
        if rr.violated != "FilterBytesAgree":
            raise vflib.InfraError("recording the filter position before the roll-over should violate FilterBytesAgree in the model, got %s" % rr.violated)
        roll = fut_roll.result()
    rs = roll["summary"]
    ctx.evaluations += int(rs.get("filter_lookups_compared", 0)); ctx.traces += int(rs["tests"])
    ctx.extra["filter_file_rollover"] = dict(jobs=jobs, rollovers=int(rs.get("rollovers", 0)), big_blocks=int(rs["steps"]), lookups_compared=int(rs.get("filter_lookups_compared", 0)),
                                             reorgs_across_rollover=int(rs.get("reorgs_across_rollover", 0)), restarts_after_rollover=int(rs.get("restarts_after_rollover", 0)))
    if not rs.get("rollovers") and not roll["mismatches"] and not roll["aborts"]:
        raise vflib.InfraError("vacuity: the filter file never rolled over")
    for j in jobs:
        ctx.nontrivial.add("rollover:" + vflib.digest(j))
    vflib.report_mismatches(ctx, binary, "rollover", roll, args=[upath0], adapter="indexes", what_prefix="Index (filter file roll-over): ",
                            key_fn=lambda m, case: "rollover:" + vflib.digest((m.get("why") or "")[:50]))
    ctx.extra["directed_scenarios"] = [t["init"]["scenario"] for t in directed]
    tests = directed + tests
    if not quick:
        # the two spender clauses fail after a restart over an uncommitted database: re-derive the counterexamples
        for cfg, inv in (("MC_unclean_stale.cfg", "SpenderNoStale"), ("MC_unclean_missing.cfg", "SpenderAgrees")):
            rr = ctx.tlc("Index", "MC_index", cfg, name=cfg[:-4], expect_violation=True, emit=False, timeout=2400)
            if rr.violated != inv:
                raise vflib.InfraError("expected TLC to re-derive the counterexample to %s, got %s" % (inv, rr.violated))
        ctx.extra["counterexamples_rederived"] = ["SpenderNoStale", "SpenderAgrees"]
    upath = os.path.join(ctx.work, "universe.json")
    json.dump(universe, open(upath, "w"))
    per_action = collections.Counter()
    reorgs = restarts = unclean = 0
    for t in tests:
        acts = [s["a"][0] for s in t["steps"]]
        per_action.update(acts)
        covered_steps = [s for s in t["steps"] if any(rw["covered"] for rw in s["exp"]["rows"])]
        if covered_steps and ("istop" in acts or "invalidate" in acts or len({s["exp"]["tip"] for s in t["steps"]}) > 2):
            ctx.nontrivial.add(vflib.digest([s["a"] for s in t["steps"]]))
        restarts += acts.count("istart") > 1
        unclean += any(not rw["clean"] for s in t["steps"] for rw in s["exp"]["rows"])
    missing = [a for a in INDEX_ACTIONS if not per_action[a]]
    if missing:
        raise vflib.InfraError("vacuity: actions never taken in the generated behaviours: %s" % missing)
    ctx.extra.update(steps_per_action=dict(per_action), behaviours_with_restart=restarts, behaviours_with_unclean_restart=unclean)
    ctx.log("%d behaviours, %d steps (%d with a restart, %d with an unclean restart)" % (len(tests), sum(len(t["steps"]) for t in tests), restarts, unclean))
    mid = tests[len(tests) // 2]
    ctx.sample(dict(actions=[s["a"] for s in mid["steps"]], expected_final=dict(ix=mid["steps"][-1]["exp"]["ix"],
                    rows=[dict(b=rw["b"], txs=rw["txs"], cnt=rw["cnt"], elems=rw["elems"], covered=rw["covered"]) for rw in mid["steps"][-1]["exp"]["rows"]])))
    res = ctx.run_harness(binary, "replay", tests, args=[upath], name="replay")
    s = res["summary"]
    ctx.evaluations += int(s["steps"]); ctx.traces += int(s["tests"])
    ctx.extra.update(checked_steps=int(s.get("checked_steps", 0)), chain_deviations=int(s.get("chain_deviations", 0)),
                     synced_flag_deviations=int(s.get("synced_flag_deviations", 0)),
                     spender_after_unclean_restart=int(s.get("spender_after_unclean_restart", 0)),
                     filter_init_failed_after_unclean_restart=int(s.get("filter_init_failed_after_unclean_restart", 0)),
                     diverged_init_succeeded=int(s.get("diverged_init_succeeded", 0)))
    if int(s.get("checked_steps", 0)) < int(s["steps"]) // 2 and not res["mismatches"] and not res["aborts"]:
        raise vflib.InfraError("most steps were not checked (%s of %s): the node does not follow the model's chain" % (s.get("checked_steps"), s["steps"]))
    vflib.report_mismatches(ctx, binary, "replay", res, args=[upath], adapter="indexes", what_prefix="Index: ",
                            key_fn=lambda m, case: "replay:" + vflib.digest((m.get("why") or "")[:40]))
    known = collections.defaultdict(list)
    for i in res["infos"]:
        if "known" in i:
            known[i["key"]].append(i)
    for key, items in sorted(known.items()):
        k = items[0]
        case = json.loads(res["lines"][k["index"]]) if "index" in k else None
        ctx.violation(key, "after an index was re-created over a database that is ahead of its committed locator: %s (%d occurrences in this run, first in scenario %s)" % (
                          k["known"], len(items), (case or {}).get("init", {}).get("scenario")),
                      dict(adapter="indexes", mode="replay", args=[upath], case=case, mismatch=k))
    ctx.extra["known_finding_occurrences"] = {k: len(v) for k, v in known.items()}
    ctx.assumptions += ["MuHash3072 arithmetic and GCS encoding are compared for agreement between two uses of the same library code",
                        "index sync runs synchronously and the validation-interface queue is drained after every step",
                        "the chain itself follows UtxoChain (checked by C08/C09); behaviours where the node's tip differs from the model's are truncated and counted"]
    return ctx.finish(level="model_checking", exhaustive=False,
                      rule="TLC -simulate behaviours of the Index specification (4 blocks, forks, invalidate/reconsider, flushes, up to 3 index starts) replayed on real indexes; "
                           "non-trivial = distinct behaviours with covered lookups and a stop/restart, an invalidation or at least two tip changes")
