"""C26 — replacements only happen when they pay for themselves and improve the mempool (specs/Mempool, engine E1 on a real node)."""
import os, sys
sys.path.insert(0, os.path.dirname(os.path.abspath(__file__)))
import vflib, _mempool

META = dict(engine="E1", level="model_checking", text="wip", note="wip", technique="wip")


def run(ctx):
    binary = ctx.build_adapter("mempool")
    st = _mempool.run_scenario(ctx, binary, "C26", "rbf", "MC_rbf_q.cfg")
    ctx.log("m4 margins", sorted(st["m4"])[:40], "m3", sorted(st["m3"])[:40], "nc", st["nclusters"], "replaced", dict(st["replaced"]))
    return ctx.finish(level="model_checking", exhaustive=True, rule="wip")
