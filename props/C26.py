"""C26 — replacements only happen when they pay for themselves and improve the mempool (specs/Mempool, engine E1 on a real node)."""
import os, sys
sys.path.insert(0, os.path.dirname(os.path.abspath(__file__)))
import vflib, _mempool

META = dict(
    engine="E1",
    level="model_checking",
    text="Mempool.Submit with conflicts follows MemPoolAccept::ReplacementChecks: evicted = direct conflicts + all descendants; Rule 5 (<= 100 "
         "conflicting clusters), Rule 3 (modified fee >= total modified fees of the evicted), Rule 4 (the difference >= incremental relay feerate x own "
         "vsize with CFeeRate::GetFee's round-up), strictly better feerate diagram (brute-force optimal linearisation per cluster, exact integer "
         "comparison), no ancestor among the conflicts. TLC proves on the bounded model that every accepted replacement satisfies those conditions "
         "(stated independently of the verdict's control flow) and evicts exactly that set. The universe places fees at -1 / 0 / +1 satoshi of the "
         "Rule 3 / Rule 4 / min-relay thresholds (real measured sizes), has a larger-but-lower-feerate replacement, a two-cluster replacement, a "
         "replacement with an unrelated in-pool parent, one that spends what it evicts, prioritisation that moves the thresholds, and - with "
         "-incrementalrelayfee=0 - an equal-fee equal-size replacement that only the strictness of the diagram comparison rejects. Every transition "
         "is replayed through ProcessTransaction on a real node: verdict, replaced list, resulting pool and modified fees are compared.",
    note="SAFE mode: a node that rejects a replacement the model accepts is more conservative, not a violation; an accepted replacement is checked by "
         "TLC against the necessary conditions in the state it was submitted to. Rule 5's bound of 100 clusters is a constant of the model that the "
         "bounded universes do not reach. TRUC sibling eviction and package RBF are outside this check.",
    technique="TLA+ spec Mempool + TLC exhaustive; path cover replayed on a real node; replacement conditions evaluated by TLC on observed transitions",
)


def replay(ctx, path):
    return _mempool.replay(ctx, path)


def run(ctx):
    binary = ctx.build_adapter("mempool")
    nontrivial = lambda p: any(s.get("rbf") and s["a"][0] == "submit" for s in p["steps"])
    if ctx.tier == "quick":
        st = _mempool.run_scenario(ctx, binary, "C26", "rbf", "MC_rbf_c26q.cfg", "MU_std.cfg", nontrivial=nontrivial)
    else:
        st = _mempool.run_scenario(ctx, binary, "C26", "rbf", "MC_rbf_t.cfg", "MU_std.cfg", nontrivial=nontrivial)
        _mempool.run_scenario(ctx, binary, "C26", "chain", "MC_chain_t.cfg", "MU_std.cfg", nontrivial=nontrivial)
    st0 = _mempool.run_scenario(ctx, binary, "C26", "rbf", "MC_rbf0_q.cfg", "MU_incr0.cfg", nontrivial=nontrivial)
    _mempool.need(st, [("submit", "ok"), ("submit", "insufficient fee"), ("submit", "replacement-failed"), ("submit", "bad-txns-spends-conflicting-tx"),
                       ("submit", "min relay fee not met"), ("prio", "none")], "C26")
    _mempool.need(st0, [("submit", "replacement-failed"), ("submit", "insufficient fee"), ("submit", "ok")], "C26 incr0")
    miss = [m for m in (-1, 0, 1) if m not in st["m4"]] + [("m3", m) for m in (-1, 0) if m not in st0["m3"]]
    if miss or not {1, 2} <= st["nclusters"] or not (st["replaced"].get(2) and st["replaced"].get(1)):
        raise vflib.InfraError("vacuity: the universe no longer sits on the replacement thresholds (missing margins %s, clusters %s, evicted-set sizes %s); "
                               "re-place the fees in Uni_rbf.tla for the measured sizes" % (miss, sorted(st["nclusters"]), dict(st["replaced"])))
    ctx.extra["rule4_margins_seen"] = sorted(m for m in st["m4"] if -2 <= m <= 2)
    ctx.extra["accepted_replacements_by_evicted_count"] = {str(k): v for k, v in sorted(st["replaced"].items())}
    ctx.assumptions += ["bounded scenario: 17-transaction universe on 3 mature base coins, clusters of at most 3 transactions (the brute-force optimum equals the code's)",
                        "min relay and incremental relay feerates 100 sat/kvB (and incremental 0 in the equal-diagram scenario), as passed to the node",
                        "Rule 5 (100 clusters) is not reachable in the bounded universes"]
    return ctx.finish(level="model_checking", exhaustive=True,
                      rule="path cover of every transition of the bounded Mempool graph (submit / prioritise from every reachable pool); non-trivial = "
                           "distinct paths containing at least one submission that conflicts with the pool")
