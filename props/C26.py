"""C26 — replacements only happen when they pay for themselves and improve the mempool (specs/Mempool, engine E1 on a real node)."""
import collections, json, os, sys
sys.path.insert(0, os.path.dirname(os.path.abspath(__file__)))
import vflib, _mempool

META = dict(
    engine="E1",
    level="model_checking",
    text="Mempool.Submit with conflicts follows MemPoolAccept::ReplacementChecks: evicted = direct conflicts + all descendants; Rule 5 (<= 100 "
         "conflicting clusters), Rule 3 (modified fee >= total modified fees of the evicted), Rule 4 (the difference >= incremental relay feerate x own "
         "vsize with CFeeRate::GetFee's round-up), strictly better feerate diagram (brute-force optimal linearisation per cluster, exact integer "
         "comparison), no ancestor among the conflicts. TLC proves on the bounded model that every accepted replacement satisfies those conditions "
         "(stated independently of the verdict's control flow) and evicts exactly that set. The universe places fees at -1 / 0 / +1 satoshi of the "
         "Rule 3 / Rule 4 / min-relay thresholds (real measured sizes), has a larger-but-lower-feerate replacement, a two-cluster replacement, a "
         "replacement with an unrelated in-pool parent, one that spends what it evicts, prioritisation that moves the thresholds, and - with "
         "-incrementalrelayfee=0 - an equal-fee equal-size replacement that only the strictness of the diagram comparison rejects. Every transition "
         "is replayed through ProcessTransaction on a real node: verdict, replaced list, resulting pool and modified fees are compared. "
         "Packages: Mempool.SubmitPackage (see C29) evaluates a 1-parent-1-child package with conflicts as one replacement (PackageRBFChecks); "
         "TLC proves the package form of the conditions (evicted = conflicts of both transactions + descendants, total fees pay for the evicted "
         "and for the package's own relay, no mempool ancestors, <= 100 conflicting clusters for the package as a whole, strictly better diagram) "
         "on the pkg universe, replayed through ProcessNewPackage. Rule 5 at the node's real bound (MAX_REPLACEMENT_CANDIDATES is a compile-time "
         "constant): module Rule5 tabulates, over a macro universe of 102 equal singleton pool transactions (a counted class), single replacements "
         "conflicting with 100 / 101 clusters and packages whose parent conflicts with a and whose child with b clusters, a + b = 100, 101, 102 "
         "with a, b <= 100 (50+50, 50+51, 51+51, 100+1, 1+100) and a parent of 101; every row is run on a real node holding the 102 transactions.",
    note="SAFE mode: a node that rejects a replacement the model accepts is more conservative, not a violation; an accepted replacement is checked by "
         "TLC against the necessary conditions in the state it was submitted to. Rule 5's bound of 100 clusters is exercised by the macro scenario only (the "
         "path-cover universes stay below it). TRUC sibling eviction is C27's business.",
    technique="TLA+ spec Mempool + TLC exhaustive; path cover replayed on a real node; replacement conditions evaluated by TLC on observed transitions",
)


def replay(ctx, path):
    return _mempool.replay(ctx, path)


def rule5_table(ctx, binary):
    """Rule 5 at the real bound: rows of module Rule5 (universe r5) on a node whose pool holds 102 singleton clusters."""
    upath, mpath, universe, meas = _mempool.prepare(ctx, binary, "r5", "MU_std.cfg")
    r = ctx.tlc("Mempool", "MC_r5", "MC_r5.cfg", env={"MP_MEASURE": mpath}, workers=1)
    rows = [json.loads(l) for l in open(r.emit_path)]
    if len(rows) != r.distinct:
        raise vflib.InfraError("emitted %d rows for %d distinct states" % (len(rows), r.distinct))
    seen = {(len(x["txs"]), x["a"] + x["b"], x["ok"]) for x in rows}
    want = {(1, 100, True), (1, 101, False), (2, 100, True), (2, 101, False), (2, 102, False)}
    if not want <= seen or not any(len(x["txs"]) == 2 and x["a"] <= 100 and x["b"] <= 100 and min(x["a"], x["b"]) > 1 and x["a"] + x["b"] > 100 for x in rows):
        raise vflib.InfraError("vacuity: the Rule 5 table no longer sits on the bound (cases seen: %s)" % sorted(seen))
    res = ctx.run_harness(binary, "rule5", rows, args=[upath], name="rule5")
    for m in res["mismatches"]:
        if str(m.get("why", "")).startswith("setup:"):
            raise vflib.InfraError("Rule 5 macro scenario could not be set up: %s" % m["why"])
    ctx.evaluations += int(res["summary"]["tests"]); ctx.traces += int(res["summary"]["tests"])
    ctx.extra["rule5_rows"] = [dict(txs=x["txs"], a=x["a"], b=x["b"], expected=x["why"]) for x in rows]
    ctx.extra["diverged_conservative"] = ctx.extra.get("diverged_conservative", 0) + int(res["summary"].get("conservative_rows", 0))
    for x in rows:
        ctx.nontrivial.add(vflib.digest(["rule5", x["txs"]]))
    for m in res["mismatches"] + res["aborts"]:
        if isinstance(m.get("action"), dict):
            m["action"] = dict(txs=m["action"].get("txs"), a=m["action"].get("a"), b=m["action"].get("b"))     # (the row lists 102 victims)
    vflib.report_mismatches(ctx, binary, "rule5", res, args=[upath], adapter="mempool", what_prefix="Rule 5 at the bound: ",
                            key_fn=lambda m, case: "rule5:" + vflib.digest((m.get("action") or {}).get("txs")))


def run(ctx):
    binary = ctx.build_adapter("mempool")
    nontrivial = lambda p: any(s.get("rbf") and s["a"][0] == "submit" for s in p["steps"])
    only = os.environ.get("VERIF_C26_ONLY")
    if only == "rule5":
        rule5_table(ctx, binary)
        return ctx.finish(level="model_checking", exhaustive=True, rule="Rule 5 table only (VERIF_C26_ONLY)")
    if ctx.tier == "quick":
        st = _mempool.run_scenario(ctx, binary, "C26", "rbf", "MC_rbf_c26q.cfg", "MU_std.cfg", nontrivial=nontrivial)
    else:
        st = _mempool.run_scenario(ctx, binary, "C26", "rbf", "MC_rbf_t.cfg", "MU_std.cfg", nontrivial=nontrivial)
        _mempool.run_scenario(ctx, binary, "C26", "chain", "MC_chain_t.cfg", "MU_std.cfg", nontrivial=nontrivial)
    st0 = _mempool.run_scenario(ctx, binary, "C26", "rbf", "MC_rbf0_q.cfg", "MU_incr0.cfg", nontrivial=nontrivial)
    # package replacements (1-parent-1-child): the package form of the conditions, small scope
    pk = lambda p: any(s["a"][0] == "pkg" and s["r"]["evict"] for s in p["steps"])
    stp = _mempool.run_scenario(ctx, binary, "C26", "pkg", "MC_pkg_c26.cfg", "MU_std.cfg", nontrivial=pk)
    _mempool.need(stp, [("pkg", "ok"), ("pkg", "package RBF failed: insufficient anti-DoS fees")], "C26 packages")
    if not any(s["a"][0] == "pkg" and len(s["r"]["evict"]) >= 1 and s["r"]["ok"] for p in stp["paths"] for s in p["steps"]):
        raise vflib.InfraError("vacuity: no accepted package replacement in the bounded model")
    # Rule 5 at the node's real bound, for transactions and packages
    rule5_table(ctx, binary)
    _mempool.need(st, [("submit", "ok"), ("submit", "insufficient fee"), ("submit", "replacement-failed"), ("submit", "bad-txns-spends-conflicting-tx"),
                       ("submit", "min relay fee not met"), ("prio", "none")], "C26")
    _mempool.need(st0, [("submit", "replacement-failed"), ("submit", "insufficient fee"), ("submit", "ok")], "C26 incr0")
    miss = [m for m in (-1, 0, 1) if m not in st["m4"]] + [("m3", m) for m in (-1, 0) if m not in st0["m3"]]
    if miss or not {1, 2} <= st["nclusters"] or not (st["replaced"].get(2) and st["replaced"].get(1)):
        raise vflib.InfraError("vacuity: the universe no longer sits on the replacement thresholds (missing margins %s, clusters %s, evicted-set sizes %s); "
                               "re-place the fees in Uni_rbf.tla for the measured sizes" % (miss, sorted(st["nclusters"]), dict(st["replaced"])))
    ctx.extra["rule4_margins_seen"] = sorted(m for m in st["m4"] if -2 <= m <= 2)
    ctx.extra["accepted_replacements_by_evicted_count"] = {str(k): v for k, v in sorted(st["replaced"].items())}
    ctx.assumptions += ["bounded scenario: 17-transaction universe on 3 mature base coins, clusters of at most 3 transactions (the brute-force optimum equals the code's)",
                        "min relay and incremental relay feerates 100 sat/kvB (and incremental 0 in the equal-diagram scenario), as passed to the node",
                        "Rule 5: the 102 pool transactions of the macro scenario are a counted class (equal fee, singleton clusters, confirmed inputs: checked "
                        "by TLC on the universe and by the harness on the node); the verdict only depends on how many of them are conflicted"]
    return ctx.finish(level="model_checking", exhaustive=True,
                      rule="path cover of every transition of the bounded Mempool graphs (submit / prioritise / package from every reachable pool) and the "
                           "Rule 5 table; non-trivial = distinct paths containing at least one submission or package that conflicts with the pool, and the table's rows")
