"""C43 — wallet state survives restarts and crashes consistently (specs/WalletDB/WalletDB + WalletDBRun + WalletDBObs, crash images of real runs)."""
import collections, concurrent.futures, json, os, re, sys
sys.path.insert(0, os.path.dirname(os.path.abspath(__file__)))
sys.path.insert(0, os.path.join(os.path.dirname(os.path.dirname(os.path.abspath(__file__))), "tools"))
import vflib, _walletdb as W

META = dict(
    engine="E2",
    level="fault_enumeration",
    text="Design level: WalletDB.tla models the record tables of the wallet database (descriptors with next/range, descriptor keys, active slots, address "
         "book name/purpose, locked coins, transactions with states, flags, master key, best block, order position) and every wallet operation as the "
         "sequence of database transactions the code performs (keypool top-up, address-book removal, transaction removal, encryption and descriptor "
         "setup grouped by TxnBegin/TxnCommit, everything else one auto-committed write per record), clean reload, and a crash after any prefix of an "
         "operation's commits. TLC checks exhaustively on a small universe that a reload gives the wallet that was in memory, that every crash state "
         "loads, is never half encrypted and lies on a boundary of the code's groups; three negative controls (groups split into single commits, a "
         "loader that forgets a record kind) are found. Code level: behaviours simulated by TLC plus a hand-shaped one that touches every record kind "
         "run on a real SQLite wallet under strace; the wallet object is compared with the specification's prediction after every call (clean reloads "
         "included); at the write/fsync boundaries of the run the kill image and three power-loss images are cut from the syscall stream, a wallet is "
         "loaded from each and TLC decides whether what it contains is one of the states the specification admits for a crash inside that call.",
    note="Power-loss model: per file the content at its last fsync survives (no torn or reordered writes inside a file). Legacy migration, external "
         "signers (the only caller of the grouped descriptor import; not compiled in) and wallet creation itself are not exercised. Descriptor cache and "
         "witness-variant records are not observable on their own and are not compared. The order in which LoadExisting tops up the active descriptors "
         "is unspecified; a crash during a load is only required to load again into the same wallet.",
    technique="TLA+ spec of the wallet records and DB transactions model-checked with TLC; simulated behaviours replayed on a real SQLite wallet under strace, crash images reloaded and judged by TLC against the admissible crash states",
)

KEYPOOL = 3
FLAG_BITS = {"avoid_reuse": 1}


def to_op(a):
    """model action -> adapter operation"""
    k = a[0]
    num = lambda s: int(s[1:])
    if k == "new":
        t, internal = a[1].split("/")
        return ["change", t] if internal == "1" else ["new", t, a[2]]
    if k == "topup1":
        return ["topup1", a[1].split("/")[0], a[1].endswith("/1"), a[2]]
    if k == "label":
        return ["label", num(a[1]), a[2], a[3]]
    if k in ("dellabel", "unlockcoin", "abandon"):
        return [k, num(a[1])]
    if k == "lockcoin":
        return ["lockcoin", num(a[1]), bool(a[2])]
    if k == "addtx":
        return ["addtx", num(a[1]), a[2]]
    if k == "removetx":
        return ["removetx", [num(t) for t in a[1]]]
    if k in ("setflag", "unsetflag", "bestblock", "encrypt"):
        return [k, a[1]]
    if k == "import":
        return ["import", 1, False, False, False, "imp"] if a[1] == "imp1" else ["import", 2, True, True, True, ""]
    if k == "reload":
        return ["reload"]
    raise vflib.InfraError("unknown model action %s" % a)


class Names:
    """concrete identifiers of one wallet -> names of the model"""
    def __init__(self):
        self.desc, self.tx, self.addr, self.coin = {}, {}, {}, {}

    def learn_active(self, obs, gen):
        for slot, i in obs["active"].items():
            self.desc.setdefault(i, "%s:%s" % (gen, slot))

    def learn(self, a, r):
        k = a[0]
        if k == "new" and r.get("ok") and r.get("id") in self.desc:
            self.addr[r["addr"]] = "%s#%d" % (self.desc[r["id"]], r["idx"])
        elif k == "label" or k == "dellabel":
            self.addr[r["addr"]] = a[1]
        elif k in ("lockcoin", "unlockcoin"):
            self.coin[r["coin"]] = a[1]
        elif k in ("addtx", "abandon"):
            self.tx[r["txid"]] = a[1]
        elif k == "removetx":
            for t, i in zip(a[1], r.get("txids", [])):
                self.tx[i] = t
        elif k == "import" and r.get("ok"):
            self.desc[r["id"]] = a[1]
            for n, ad in enumerate(r.get("addrs", [])):
                self.addr[ad] = "%s#%d" % (a[1], n)


def norm_model(w):
    """the specification's wallet record reduced to what the adapter can observe"""
    w = json.loads(json.dumps(w))
    w["locked"] = {c: ("yes" if v != "no" else "no") for c, v in w["locked"].items()}
    w["sc"]["mkey"] = "none" if w["sc"]["mkey"] == "none" else "set"
    w["extra"] = []
    return w


def norm_obs(obs, names, uni):
    """the adapter's projection in the shape of the specification's wallet record (uni = a model wallet, for the key universe)"""
    extra = []
    if "desc" not in obs:
        obs = dict(desc=[], active={}, book=[], locked=[], txs=[], flags="0", nmkeys=0, bestblock=-1, orderpos=-1, islocked=False)
        extra.append("no wallet loaded")
    w = dict(desc={d: dict(present=False, next=0, range=0) for d in uni["desc"]}, key={d: "none" for d in uni["key"]},
             active={s: "none" for s in uni["active"]}, name={x: "none" for x in uni["name"]}, purpose={x: "none" for x in uni["purpose"]},
             locked={c: "no" for c in uni["locked"]}, tx={t: "none" for t in uni["tx"]}, flags={f: False for f in uni["flags"]})
    for d in obs["desc"]:
        n = names.desc.get(d["id"])
        if n not in w["desc"]:
            extra.append("desc " + d["id"][:12]); continue
        w["desc"][n] = dict(present=True, next=d["next"], range=d["range"])
        w["key"][n] = "crypted" if d["crypted"] else ("plain" if d["priv"] else "none")
    for slot, i in obs["active"].items():
        n = names.desc.get(i)
        if slot in w["active"] and n:
            w["active"][slot] = n
        else:
            extra.append("active %s %s" % (slot, i[:12]))
    for addr, label, purpose in obs["book"]:
        x = names.addr.get(addr)
        if x not in w["name"]:
            extra.append("book " + addr); continue
        w["name"][x] = "none" if label == "<change>" else label
        w["purpose"][x] = "none" if purpose == "<none>" else purpose
    for c in obs["locked"]:
        n = names.coin.get(c)
        if n not in w["locked"]:
            extra.append("locked " + c[:12]); continue
        w["locked"][n] = "yes"
    for txid, st in obs["txs"]:
        n = names.tx.get(txid)
        if n not in w["tx"]:
            extra.append("tx " + txid[:12]); continue
        w["tx"][n] = st
    fl = int(obs["flags"])
    for f in w["flags"]:
        w["flags"][f] = bool(fl & FLAG_BITS[f])
    w["sc"] = dict(mkey="set" if obs["nmkeys"] else "none", best=obs["bestblock"], opos=obs["orderpos"])
    w["islocked"] = obs["islocked"]
    w["extra"] = sorted(extra)
    return w


def first_diff(a, b, path=""):
    if isinstance(a, dict) and isinstance(b, dict):
        for k in sorted(set(a) | set(b)):
            if a.get(k) != b.get(k):
                return first_diff(a.get(k), b.get(k), path + "." + str(k))
    return "%s: model %s, wallet %s" % (path, json.dumps(a)[:120], json.dumps(b)[:120])


FIXED = [["new", "bech32/0", "mine"], ["new", "bech32m/1", "mine"], ["label", "a1", "L1", "send"], ["label", "a2", "L2", "send"], ["dellabel", "a1"],
         ["lockcoin", "c1", True], ["lockcoin", "c2", False], ["addtx", "t1", "confirmed:5"], ["addtx", "t2", "inactive"], ["addtx", "t3", "conflicted:7"],
         ["abandon", "t2"], ["addtx", "t2", "confirmed:5"], ["removetx", ["t1", "t3"]], ["setflag", "avoid_reuse"], ["bestblock", 7], ["topup1", "legacy/0", 5],
         ["import", "imp1"], ["import", "imp2"], ["new", "bech32/0", "mine"], ["reload"], ["unlockcoin", "c1"], ["addtx", "t1", "inactive"],
         ["encrypt", "pw"], ["new", "bech32/0", "mine"], ["reload"], ["new", "legacy/0", "mine"]]


def run_behaviour(ctx, binary, bi, acts, rows, quick, stride):
    """acts: model actions; rows: {k: WalletDBRun row}. Returns (observation lines, mismatches, stats)"""
    lines, mism, stats = [], [], collections.Counter()
    steps = [(k, a) for k, a in enumerate(acts, 1) if rows[k]["a"][0] != "skip"]
    tag = "b%d" % bi
    sess = W.Session(ctx, binary, dict(keypool=KEYPOOL, steps=[to_op(a) for _, a in steps]), tag)
    ctx.log("%s: session done (%d syscalls)" % (tag, len(sess.calls)))
    try:
        if sess.abort and "step" in sess.abort:
            mism.append(dict(beh=bi, step=sess.abort["step"], a=sess.abort.get("action") or ["?"], why="the process aborted inside the call (%s)" % sess.abort.get("why", "")[-80:]))
            return lines, mism, stats
        if sess.out["load"] != "ok" or sess.aborted:
            raise vflib.InfraError("workload session failed: %s" % sess.out["load"])
        mut = sess.mutating_points()
        if sess.model_bad:
            raise vflib.InfraError("file model does not reproduce the wallet directory (%s differ)" % sess.model_bad)
        names = Names(); names.learn_active(sess.out["obs0"], "g0")
        for j, (k, a) in enumerate(steps):
            st = sess.out["steps"][j]
            names.learn(a, st["r"])
            if a[0] == "encrypt":
                names.learn_active(st["obs"], "g1")
        uni = rows[steps[0][0]]["w"] if steps else None
        # ---- replay comparison (EXACT): the wallet object after every call
        for j, (k, a) in enumerate(steps):
            st = sess.out["steps"][j]
            stats["steps"] += 1
            if not st["r"].get("ok"):
                mism.append(dict(beh=bi, step=k, a=a, why="the call failed: %s" % json.dumps(st["r"])[:200])); break
            exp = norm_model(rows[k]["w"]); have = norm_obs(st["obs"], names, uni)
            if exp != have:
                mism.append(dict(beh=bi, step=k, a=a, why=first_diff(exp, have), exp=exp, have=have)); break
        # ---- crash images
        ends = sorted(sess.step_end.values())
        inner = mut[(ctx.seed + bi) % stride::stride]
        points = sorted(set(ends + inner))
        imgs, meta, seen = [], [], {}
        for pt, mode, rel in sess.images(points):
            dg = W.image_digest(rel)
            if dg not in seen:
                seen[dg] = len(imgs); imgs.append(rel)
            meta.append((pt, mode, seen[dg]))
        ctx.log("%s: %d steps, %d crash points, %d images (%d distinct)" % (tag, len(steps), len(points), len(meta), len(imgs)))
        rec = W.recover_batch(ctx, binary, imgs, [], KEYPOOL, tag=tag)
        ctx.log("%s: images reloaded" % tag)
        stats["images"] += len(meta); stats["distinct_images"] += len(imgs); stats["mutating_syscalls"] += len(mut); stats["sessions"] += 1
        normed = {}
        for pt, mode, n in meta:
            done, cur = sess.steps_done(pt)
            if cur is not None:
                k, a = steps[cur]
                adm = [norm_model(x) for x in rows[k]["cr"]]
                where = "inside step %d %s" % (k, json.dumps(a))
            else:
                k, a = steps[done[-1]] if done else (0, ["create"])
                adm = [norm_model(rows[k]["cr"][-1])] if done else []
                where = "after the return of step %d %s" % (k, json.dumps(a))
            o = rec[n]
            if n not in normed:
                normed[n] = norm_obs(o["obs0"], names, uni) if o["load"] == "ok" else None
            if not adm:
                adm = [normed[n]] if normed[n] else []
            lines.append(dict(act=["crash", bi, pt, W.MODE_NAMES[mode], a[0]], where=where, load=o["load"], obs=normed[n] or {}, adm=adm))
    finally:
        sess.cleanup()
    return lines, mism, stats


def lock_upgrade_probe(ctx, binary):
    """Known finding: LockCoin(persist) on a coin that is already locked for the session writes the database record but keeps the in-memory
    entry non-persistent, so a later UnlockCoin does not erase the record and the coin is locked again after a restart."""
    steps = [["lockcoin", 1, False], ["lockcoin", 1, True], ["unlockcoin", 1], ["reload"]]
    sess = W.Session(ctx, binary, dict(keypool=KEYPOOL, steps=steps), "lockprobe")
    try:
        if sess.out["load"] != "ok" or len(sess.out.get("steps", [])) != len(steps):
            raise vflib.InfraError("lock probe session failed: %s" % sess.out["load"])
        before, after = sess.out["steps"][2]["obs"], sess.out["steps"][3]["obs"]
        return dict(act=["reload-probe", "lockcoin session-only, lockcoin persistent, unlockcoin, restart"], where="clean restart", load="ok",
                    obs=dict(locked=after["locked"]), adm=[dict(locked=before["locked"])])
    finally:
        sess.cleanup()


def run(ctx):
    binary = ctx.build_adapter("walletdb")
    quick = ctx.tier == "quick"
    with concurrent.futures.ThreadPoolExecutor(max_workers=5) as ex:
        f_ok = ex.submit(ctx.tlc, "WalletDB", "MC_walletdb", "MC_walletdb.cfg" if quick else "MC_walletdb_t.cfg", workers=4, xmx="4g")
        negs = {"MC_walletdb_nonatomic.cfg": ("GroupedAtomic",), "MC_walletdb_nonatomic_enc.cfg": ("AlwaysLoads", "EncryptionWhole"), "MC_walletdb_droplocked.cfg": ("ReloadSame",)}
        f_neg = {c: ex.submit(ctx.tlc, "WalletDB", "MC_walletdb", c, expect_violation=True, workers=1, xmx="1g") for c in negs}
        f_sim = ex.submit(ctx.tlc, "WalletDB", "MC_walletdb", "Sim_walletdb.cfg", name="sim_walletdb", simulate=(30 if quick else 200, 14 if quick else 16), xmx="2g")
        f_ok.result()
        for c, f in f_neg.items():
            if f.result().violated not in negs[c]:
                raise vflib.InfraError("negative control %s of the specification was not caught by TLC (violated: %s)" % (c, f.result().violated))
        r = f_sim.result()
    behs = [[s["a"] for s in b["steps"]] for b in vflib.sim_behaviours(r.emit_path)]
    behs.sort(key=lambda acts: -len({a[0] for a in acts}))
    behs = [FIXED] + behs[: (1 if quick else 8)]
    bpath = os.path.join(ctx.work, "behs.ndjson")
    with open(bpath, "w") as f:
        for acts in behs:
            f.write(json.dumps(dict(acts=acts)) + "\n")
    rr = ctx.tlc("WalletDB", "WalletDBRun", "Run_walletdb.cfg", name="run_walletdb", env={"BEHS": bpath}, workers=1, xmx="2g")
    rows = collections.defaultdict(dict)
    for row in vflib.load_emitted(rr.emit_path):
        rows[row["b"] - 1][row["k"]] = row
    per_action = collections.Counter(a[0] for bi, acts in enumerate(behs) for k, a in enumerate(acts, 1) if rows[bi][k]["a"][0] != "skip")
    for need in ("new", "topup1", "label", "dellabel", "lockcoin", "unlockcoin", "addtx", "abandon", "removetx", "setflag", "bestblock", "import", "encrypt", "reload"):
        if not per_action[need]:
            raise vflib.InfraError("no behaviour takes action %s" % need)
    stride = 4 if quick else 1
    lines, mism, stats = [], [], collections.Counter()
    with concurrent.futures.ThreadPoolExecutor(max_workers=max(1, min(len(behs), vflib.free_cpus() // 2))) as ex:
        futs = [ex.submit(run_behaviour, ctx, binary, bi, acts, rows[bi], quick, stride) for bi, acts in enumerate(behs)]
        for f in futs:
            l, m, s = f.result()
            lines += l; mism += m; stats.update(s)
    probe = lock_upgrade_probe(ctx, binary)
    ctx.traces = stats["sessions"] + 1; ctx.evaluations = len(lines) + stats["steps"] + 1
    for l in lines:
        ctx.nontrivial.add(vflib.digest(l["act"][:4]))
    ctx.extra["workload"] = dict(stats); ctx.extra["model_actions_replayed"] = dict(per_action)
    outcomes = collections.Counter((l["act"][3], "ok" if l["load"] == "ok" else l["load"][:60]) for l in lines)
    ctx.extra["restart_outcomes"] = {"%s | %s" % k: v for k, v in outcomes.items()}
    for l in lines[:: max(1, len(lines) // 3)][:3]:
        ctx.sample(dict(crash=l["act"], where=l["where"], load=l["load"], admissible_states=len(l["adm"])))
    # ---- replay mismatches: the wallet object differs from the specification's prediction after a call
    seen = set()
    for m in mism:
        key = "replay:%s:%s" % (m["a"][0], vflib.digest(m["why"].split(":")[0]))
        if key in seen:
            continue
        seen.add(key)
        ctx.violation(key, "behaviour %d step %d %s: %s" % (m["beh"], m["step"], json.dumps(m["a"]), m["why"]), dict(mismatch=m, behaviour=behs[m["beh"]]))
    # ---- TLC judges every reloaded crash image and the probe
    reported = collections.Counter()
    for k, inv in vflib.judge(ctx, "WalletDB", "WalletDBObs", "Obs_walletdb.cfg", lines, name="observed"):
        l = lines[k]
        sig = (inv, l["act"][4], l["act"][3], re.sub(r"'[^']*'", "<path>", l["load"])[:80] if l["load"] != "ok" else "")
        reported[sig] += 1
        if reported[sig] == 1:
            why = first_diff(l["adm"][-1], l["obs"]) if (l["adm"] and l["load"] == "ok") else ""
            ctx.violation("crash:%s:%s:%s:%s" % (inv, sig[1], sig[2], vflib.digest(sig[3])),
                          "wallet loaded from the %s image taken %s (behaviour %d, syscall %d) breaks %s: load=%s; against the state after the call: %s" % (
                              l["act"][3], l["where"], l["act"][1], l["act"][2], inv, l["load"], why), dict(observation=l, invariant=inv))
    for k, inv in vflib.judge(ctx, "WalletDB", "WalletDBObs", "Obs_walletdb.cfg", [probe], invariants=["ObsAdmissible"], name="probe"):
        ctx.violation("lockcoin-upgrade-then-unlock-relocks-after-restart",
                      "LockCoin(persist=true) on a coin that is already locked for the session writes the lockedutxo record but leaves the in-memory entry "
                      "non-persistent; UnlockCoin then does not erase the record and a clean restart shows the coin locked again (before restart locked=%s, "
                      "after restart locked=%s)" % (probe["adm"][0]["locked"], probe["obs"]["locked"]), dict(observation=probe, invariant=inv))
    ctx.extra["crash_images_breaking_an_invariant"] = {"%s | %s | %s | %s" % k: v for k, v in reported.items()}
    ctx.assumptions += ["power loss: per-file durability = content at last fsync; no torn writes or intra-file reordering",
                        "crash points: every return of a wallet call and %s; creation of the wallet is not a crash point" % ("every %d-th write/fsync boundary" % stride if stride > 1 else "every write/fsync boundary"),
                        "transactions are attached to blocks of the 100-block regtest chain the wallet is synced to (states survive a reload)"]
    return ctx.finish(level="fault_enumeration", exhaustive=False,
                      rule="TLC-simulated behaviours of WalletDB plus one fixed behaviour touching every record kind, each run as a wallet session under strace; evaluation = "
                           "one compared wallet state per call plus one reloaded crash image per (behaviour, syscall index, image kind)")


def replay(ctx, path):
    o = json.load(open(path))
    print("REPLAY: observations are re-derived by running the check again with the same VERIF_SEED; stored case:")
    print(json.dumps(o.get("observation") or o.get("mismatch"), indent=1)[:3000])
    return 1
