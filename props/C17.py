"""C17 — stored blocks and undo data read back intact or fail loudly (specs/BlockStore, engine E1 + an E4 table on chainsim)."""
import collections, concurrent.futures, json, os
import vflib

META = dict(
    engine="E1",
    level="model_checking",
    text="TLC exhaustively checks the BlockStore specification (block / undo records never overlap, file-info accounting exact, every record "
         "reads back byte for byte at the indexed position, a record with damaged framing, a header that no longer hashes to the indexed block or a "
         "bad undo checksum is a read failure, a fault damages only the records it touches) on bounded models whose block sizes sit on the 64 KiB "
         "file-size limit of the fast-prune geometry (file rollover, oversize blocks, pruning and re-writing). Every transition of the state graph is "
         "replayed on a real node::BlockManager in a temp directory: returned positions, CBlockFileInfo fields, block-index positions and the result of "
         "ReadBlock (with / without expected hash), ReadRawBlock (whole / part) and ReadBlockUndo for every block are compared after every step; faults "
         "are single bit flips in each region of each record and truncations at each region boundary, applied to the files on disk. The third clause is "
         "a TLC-generated table replayed on an in-process regtest node: a stored, not yet connected block is damaged on disk and its connection triggered.",
    note="Bounded: 3 blocks (4 in thorough) per configuration, one fault at a time, byte and bit inside a region drawn from VERIF_SEED. Where only "
         "transaction bytes are damaged the property is silent on what a read returns (a failed read is accepted where the model says 'damaged'). "
         "ReadRawBlock is an unverified read by design: a damaged size field or payload is returned as is (only magic, size limit and end of file are "
         "checked); ReadBlock ignores trailing bytes, so a size field corrupted upwards still returns the (correct, hash-checked) block.",
    technique="TLA+ spec BlockStore + TLC exhaustive state graph; path cover of all transitions replayed on BlockManager with on-disk fault injection; "
              "TLC-enumerated corruption table replayed on an in-process node (ConnectTip)",
)

ACTIONS = ("wblk", "wundo", "flush", "prune", "reindex", "flip", "trunc", "restore")


def measure(ctx, binary):
    path = os.path.join(ctx.work, "measure.json")
    out = ctx.run_driver(binary, "measure", args=[path], out_name=os.path.join(ctx.work, "measure.out"))
    m = json.load(open(path))
    ctx.extra["measured_sizes"] = dict(blk=m["blk"], undo=m["undo"])
    return path


def order_edges(g):
    """path_cover pops the last edge of a node first: put the fault edges last so that one path tries fault, restore, fault, ...
    in a state before it moves on with a write."""
    rank = {"flip": 3, "trunc": 3, "restore": 3, "flush": 2, "wundo": 1, "prune": 1, "reindex": 1, "wblk": 0}
    for k in g.out:
        g.out[k].sort(key=lambda e: (rank.get(e[0][0], 0), vflib.canon(e[0])))


def one_config(ctx, binary, env, cfg, jobs, per_action, fault_results):
    r = ctx.tlc("BlockStore", "BlockStore", cfg, env=env, timeout=2400, workers=jobs)
    g = vflib.Graph(vflib.load_emitted(r.emit_path))
    order_edges(g)
    tests = list(g.path_cover(max_len=400))
    nsteps = 0
    for t in tests:
        prev = None
        for s in t["steps"]:
            nsteps += 1
            a = s["a"]
            per_action[a[0]] += 1
            if a[0] in ("flip", "trunc"):
                tgt = s["exp"]["reads"][a[2]]
                fault_results["%s/%s/%s -> rb=%s ru=%s" % (a[1], a[0], a[3], tgt["rb"] if tgt["rb"] in ("fail", "damaged") else "ok",
                                                           tgt["ru"] if tgt["ru"] in ("fail", "damaged") else "ok")] += 1
                ctx.nontrivial.add(vflib.digest([cfg, prev, a]))
            prev = vflib.canon([s["exp"]["idx"], s["exp"]["hid"]])
    mid = tests[len(tests) // 2]
    ctx.sample(dict(config=cfg, actions=[s["a"] for s in mid["steps"]][:12], expected_final_reads=mid["steps"][-1]["exp"]["reads"]))
    ctx.log("E1 %s: %d states, %d transitions -> %d paths, %d steps" % (cfg, len(g.nodes), g.nedges, len(tests), nsteps))
    res = ctx.run_harness(binary, "replay", tests, args=[ctx.seed], name=cfg[:-4], nproc=jobs)
    return cfg, res


def run(ctx):
    binary = ctx.build_adapter("blockstore")
    mpath = measure(ctx, binary)
    env = {"BS_MEASURE": mpath}
    quick = ctx.tier == "quick"
    only = os.environ.get("VERIF_C17_ONLY", "")       # selftests: "store" or "connect" restricts the check to one half
    if only:
        ctx.extra["restricted_to"] = only
    configs = [] if only == "connect" else ["E1_abc.cfg", "E1_sxf.cfg"] if quick else ["E1_4a.cfg", "E1_abc.cfg", "E1_sxf.cfg", "E1_sfs.cfg", "E1_sxa.cfg"]
    per_action = collections.Counter()
    fault_results = collections.Counter()
    # two configurations at a time, each with half of the available parallelism
    jobs = max(1, vflib.free_cpus() // 2)
    with concurrent.futures.ThreadPoolExecutor(max_workers=2) as ex:
        results = list(ex.map(lambda c: one_config(ctx, binary, env, c, jobs, per_action, fault_results), configs))
    for cfg, res in results:
        ctx.evaluations += int(res["summary"]["steps"]); ctx.traces += int(res["summary"]["tests"])
        ctx.extra["conservative_reads"] = ctx.extra.get("conservative_reads", 0) + int(res["summary"].get("conservative_reads", 0))
        ctx.extra["disk_length_deviations"] = ctx.extra.get("disk_length_deviations", 0) + int(res["summary"].get("deviations", 0))
        vflib.report_mismatches(ctx, binary, "replay", res, args=[ctx.seed], adapter="blockstore", what_prefix="BlockStore %s: " % cfg)
        for d in res["deviations"][:3]:
            ctx.log("note: file length on disk differs from the model (bookkeeping, not a verdict): %s at %s" % (d["why"], vflib.canon(d["action"])))
    missing = [a for a in ACTIONS if not per_action[a]]
    if missing and only != "connect":
        raise vflib.InfraError("vacuity: actions never taken in the bounded models: %s" % missing)
    ctx.extra["transitions_per_action"] = dict(per_action)
    ctx.extra["fault_outcomes"] = dict(fault_results)

    if only != "store":
        # third clause: a block whose stored bytes were corrupted is never connected
        r = ctx.tlc("BlockStore", "BlockConnect", "Connect.cfg", env=env)
        rows = [json.loads(l) for l in open(r.emit_path)]
        if len(rows) != r.distinct:
            raise vflib.InfraError("BlockConnect emitted %d rows for %d distinct states" % (len(rows), r.distinct))
        if not any(x["connects"] for x in rows) or not any(not x["connects"] for x in rows):
            raise vflib.InfraError("vacuity: BlockConnect table lacks a connecting or a non-connecting row")
        res = ctx.run_harness(binary, "connect", rows, args=[ctx.seed], name="connect")
        ctx.evaluations += int(res["summary"]["tests"]); ctx.traces += int(res["summary"]["tests"])
        ctx.extra["connect_rows"] = len(rows)
        ctx.extra["connect_outcomes"] = {k: int(res["summary"].get(k, 0)) for k in ("connected", "not_connected", "fatal_errors")}
        for x in rows:
            if x["fault"]["t"] != "none":
                ctx.nontrivial.add(vflib.digest(x))
        ctx.sample(rows[len(rows) // 2])
        vflib.report_mismatches(ctx, binary, "connect", res, args=[ctx.seed], adapter="blockstore", what_prefix="BlockConnect: ",
                                key_fn=lambda m, case: "connect:%s:%s:%s" % (m["action"]["scenario"], m["action"]["fault"]["r"], m["action"]["spot"]))
    ctx.assumptions += ["bounded models: 3-4 blocks whose record sizes sit on the 64 KiB file limit (fast_prune geometry), at most 3 block files, one fault at a time",
                        "the byte and bit damaged inside a region depend on VERIF_SEED; regions behave uniformly (one representative per region and seed)",
                        "pruning is modelled for files the write cursor has left (what FindFilesToPrune selects)",
                        "power-loss atomicity of the files is C16's subject, not modelled here"]
    return ctx.finish(level="model_checking", exhaustive=True,
                      rule="path cover of every transition of the bounded BlockStore state graphs (writes, undo writes, flush, prune, each fault on each "
                           "record, restore) + one chainsim row per corrupted region; non-trivial = distinct (state, fault) pairs and corrupted-block rows")
