"""C44 — wallet balances match the chain and mempool (specs/WalletBalance, engine E2)."""
import collections, concurrent.futures, json, os, sys
sys.path.insert(0, os.path.dirname(os.path.abspath(__file__)))
import vflib
import _wallet

SPEC = "WalletBalance"
META = dict(
    engine="E2",
    level="model_checking",
    text="WalletBalance.tla models a regtest node (block tree built by the behaviour, active chain = most work among blocks not invalidated, mempool after "
         "blocks and reorganisations incl. InvalidateBlock's 10-block re-add limit) over a universe of transactions whose outputs are tagged 'mine': "
         "payments from others, one of them double-spent by its payer, wallet spends with change, a conflicting spend of the same coin, a child of the "
         "change, a joint spend with a foreign input, a consolidation that conflicts with two others, coinbases to the wallet, a bulk of 100 blocks. The "
         "wallet side is modelled as coded: which transactions the wallet knows (IsMine / IsFromMe at the time it sees them), block-conflicted (it or a "
         "known ancestor has an input spent by another transaction of the active chain), mempool-conflicted, abandoned (with descendants; cleared by "
         "re-entry or conflict), IsSpent (confirmed / mempool / inactive-but-not-abandoned-or-conflicted spends), CachedTxIsTrusted, and from these "
         "GetBalance's trusted / untrusted pending / immature and AvailableCoins. TLC proves on the bounded model that the three balances never exceed "
         "the wallet outputs the active chain and mempool create and do not spend, and equal them unless the wallet still honours the spends of an "
         "inactive transaction of its own; that nothing of a chain-conflicted transaction is counted and the coins it spent are trusted again; that the "
         "spendable coins are exactly the outputs counted as trusted. Binding (spec -> code): simulated behaviours (submit / wallet send, mempool eviction, blocks with "
         "any one transaction or the whole mempool, coinbase to the wallet, bulk, invalidate / reconsider, abandon) are replayed on a real descriptor CWallet "
         "attached to a regtest node; after every step (SyncWithValidationInterfaceQueue) the node's active chain and mempool, GetBalance() and the "
         "AvailableCoins outpoints (and the wallet's transaction, abandoned and conflicted sets) are compared with the model.",
    note="EXACT for balances and coins. The node part of the model (chain, mempool) is checked too, but a difference there is never a verdict on the "
         "wallet: for such steps TLC recomputes the expected balances from the OBSERVED chain, mempool and wallet transaction set (WalletBalanceObs). "
         "Coinbase depth exactly 100 (consensus-mature, wallet-immature) does not occur: the bulk adds 100 blocks at once. No replacements in the "
         "mempool: conflicting transactions only meet through blocks. At most one invalidated block at a time; ties between branches are avoided.",
    technique="TLA+ spec WalletBalance + TLC model checking of the balance invariants; TLC -simulate behaviours replayed on a real wallet attached to a "
              "regtest node with balances and coin list compared after every step",
)

NODE_KEYS = ("chain", "pool")
WALLET_KEYS = ("bal", "coins")
INTERNAL_KEYS = ("known", "aband", "conflicted", "pconflicted")


def norm(x):
    return dict(chain=list(x["chain"]), pool=sorted(x["pool"]), bal=dict(x["bal"]), coins=sorted(x["coins"]), known=sorted(x["known"]),
                aband=sorted(x["aband"]), conflicted=sorted(x["conflicted"]), pconflicted=sorted(x.get("pconflicted", [])))


def run(ctx):
    binary = ctx.build_adapter("walletnode")
    quick = ctx.tier == "quick"
    only = os.environ.get("VERIF_C44_ONLY", "")           # "replay": skip the exhaustive TLC run (seeded self-tests)

    def mc():
        for cfg in (["MC_q.cfg"] if quick else ["MC_q.cfg", "MC_t.cfg"]):
            ctx.tlc(SPEC, SPEC, cfg, workers=4, timeout=2700)

    with concurrent.futures.ThreadPoolExecutor(max_workers=2) as ex:
        fut = ex.submit(mc) if only != "replay" else None
        # several single-threaded simulations side by side (different -aril, same -seed)
        nsim, num, depth = (3, 40, 16) if quick else (4, 450, 20)
        def sim(i):
            r = ctx.tlc(SPEC, SPEC, "Sim_q.cfg" if quick else "Sim_t.cfg", simulate=(num, depth), name="sim%d" % i, env=_wallet.LIGHT_JVM, timeout=2700,
                        extra_args=["-aril", str(i)])
            return vflib.sim_behaviours(r.emit_path)
        with concurrent.futures.ThreadPoolExecutor(max_workers=nsim) as ex2:
            tests = [t for ts in ex2.map(sim, range(nsim)) for t in ts]
        # directed scenarios (module WalletBalanceDir): plans followed step by step through WalletBalance!Next, all paths emitted
        rd = ctx.tlc(SPEC, "WalletBalanceDir", "Dir.cfg", name="directed", workers=1, env=_wallet.LIGHT_JVM, timeout=1200)
        directed = list(vflib.Graph(vflib.load_emitted(rd.emit_path)).path_cover())
        ctx.extra["directed_behaviours"] = len(directed)
        tests = directed + tests
        ctx.log("simulation: %d behaviours (%d directed), %d steps" % (len(tests), len(directed), sum(len(t["steps"]) for t in tests)))
        res = ctx.run_harness(binary, "balance", tests, args=[ctx.seed], name="balance", env={"RANDOM_CTX_SEED": _wallet.seed_hex(ctx)})
        if fut:
            fut.result()
    errs = [o for o in res["infos"] if o.get("kind") == "error"]
    if errs:
        raise vflib.InfraError("adapter could not execute a behaviour: %s" % json.dumps(errs[0])[:800])
    vflib.report_mismatches(ctx, binary, "balance", res, args=[ctx.seed], adapter="walletnode", what_prefix="wallet / node aborted: ")
    obs = {(o["index"], o["step"]): o for o in res["traces"]}
    ctx.traces += len(tests)
    ev = collections.Counter()
    node_dev = []          # steps where the node's chain / mempool is not what the node model predicts: judged on the observed state
    for ti, t in enumerate(tests):
        prev_chain = []
        for si, s in enumerate(t["steps"]):
            o = obs.get((ti, si))
            if o is None:
                break
            ctx.evaluations += 1
            e, h = norm(s["exp"]), norm(o["obs"])
            a = s["a"]
            ev["act:" + a[0]] += 1
            if a[0] == "abandon":
                ev["abandon_%s" % ("ok" if o["res"].get("ok") else "refused")] += 1
            if e["conflicted"]:
                ev["states_with_conflicted_tx"] += 1
            if e["aband"]:
                ev["states_with_abandoned_tx"] += 1
            if [k for k in e["pconflicted"] if k not in e["aband"] and k not in e["conflicted"]]:
                ev["states_with_mempool_conflicted_tx"] += 1
            if e["bal"]["immature"]:
                ev["states_with_immature"] += 1
            if e["bal"]["pending"]:
                ev["states_with_untrusted_pending"] += 1
            if any(c.startswith("cb") for c in e["coins"]):
                ev["states_with_mature_coinbase_coin"] += 1
            if a[0] in ("invalidate", "reconsider") and e["chain"] != prev_chain and prev_chain[:len(e["chain"])] != e["chain"]:
                ev["reorg_to_other_branch"] += 1
            # a transaction whose conflicts sat in two different blocks loses the upper one through a reorganisation and stays conflicted by the lower
            if a[0] in ("invalidate", "reconsider") and si > 0:
                before = t["steps"][si - 1]["exp"]
                if [k for k in before.get("deep", []) if k in e["conflicted"] and k not in s["exp"].get("deep", [])] and len(e["chain"]) < len(before["chain"]):
                    ev["deep_conflict_survives_partial_reorg"] += 1
            prev_chain = e["chain"]
            if a[0] in ("invalidate", "reconsider", "abandon", "evict") or e["conflicted"] or e["bal"]["pending"]:
                ctx.nontrivial.add(vflib.digest([x["a"] for x in t["steps"][:si + 1]]))
            diff = {k: (e[k], h[k]) for k in e if e[k] != h[k]}
            if not diff:
                continue
            if any(k in diff for k in NODE_KEYS):
                ev["node_deviation_steps"] += 1
                node_dev.append((ti, si, o))
                break                                   # the rest of the behaviour starts from a state the model does not have
            if any(k in diff for k in WALLET_KEYS):
                what = "behaviour %d step %d after %s: wallet %s, expected from chain %s and mempool %s: %s" % (
                    ti, si, json.dumps(a), {k: h[k] for k in WALLET_KEYS}, e["chain"], e["pool"], {k: e[k] for k in WALLET_KEYS})
                ctx.violation("balance:%s" % vflib.digest([x["a"] for x in t["steps"][:si + 1]]), what,
                              dict(adapter="walletnode", mode="balance", args=[ctx.seed], case=dict(init=t["init"], steps=t["steps"][:si + 1]), observed=o["obs"],
                                   expected=s["exp"]))
                break
            ev["internal_deviation_steps"] += 1          # same balances and coins, different bookkeeping (known / abandoned / conflicted sets)
            ctx.extra.setdefault("internal_deviation_samples", [])
            if len(ctx.extra["internal_deviation_samples"]) < 3:
                ctx.extra["internal_deviation_samples"].append(dict(act=a, diff={k: dict(model=v[0], wallet=v[1]) for k, v in diff.items()}))
    if node_dev:
        lines = [dict(blocks=o["obs"].get("blocks", []), chain=o["obs"]["chain"], pool=o["obs"]["pool"], known=o["obs"]["known"], aband=o["obs"]["aband"],
                      bal=o["obs"]["bal"], coins=o["obs"]["coins"]) for ti, si, o in node_dev]
        bad = vflib.judge(ctx, SPEC, "WalletBalanceObs", "Obs.cfg", lines, name="observed")
        for i, inv in bad:
            ti, si, o = node_dev[i]
            t = tests[ti]
            ctx.violation("obs:%s:%s" % (inv, vflib.digest([x["a"] for x in t["steps"][:si + 1]])),
                          "behaviour %d step %d: %s is false on the observed chain %s, mempool %s: wallet says %s / %s" % (
                              ti, si, inv, o["obs"]["chain"], o["obs"]["pool"], o["obs"]["bal"], o["obs"]["coins"]),
                          dict(adapter="walletnode", mode="balance", args=[ctx.seed], case=dict(init=t["init"], steps=t["steps"][:si + 1]), observed=o["obs"]))
    ctx.extra["events"] = dict(sorted(ev.items()))
    need = ["act:submit", "act:send", "act:mine", "act:invalidate", "act:reconsider", "act:abandon", "act:evict", "states_with_conflicted_tx", "states_with_abandoned_tx",
            "states_with_mempool_conflicted_tx", "deep_conflict_survives_partial_reorg", "states_with_immature", "states_with_untrusted_pending", "states_with_mature_coinbase_coin"]
    missing = [k for k in need if not ev.get(k)]
    if missing and not ctx.violations:
        raise vflib.InfraError("vacuity: the simulated behaviours never produced %s (events: %s)" % (missing, dict(ev)))
    if tests:
        t = max(tests, key=lambda t: len({s["a"][0] for s in t["steps"]}))
        ctx.sample(dict(actions=[s["a"] for s in t["steps"]], expected_final={k: norm(t["steps"][-1]["exp"])[k] for k in ("chain", "pool", "bal", "coins")}))
    ctx.assumptions += ["one value unit of the model = 100,000 satoshi; the wallet is attached from genesis (no rescan)",
                        "at most one invalidated block at a time, no ties between branches, no mempool replacements",
                        "coinbase depth exactly 100 does not occur (the bulk adds 100 blocks at once)"]
    return ctx.finish(level="model_checking", exhaustive=False,
                      rule="behaviours = TLC -simulate of WalletBalance (seeded by VERIF_SEED), each replayed on a fresh node + wallet; one evaluation per step "
                           "(balances + coin list compared); non-trivial = prefixes ending in invalidate / reconsider / abandon or in a state with a conflicted "
                           "transaction or an untrusted pending balance")


def replay(ctx, path):
    o = json.load(open(path))
    if not o.get("case"):
        print("replay file has no replayable payload")
        return 2
    binary = ctx.build_adapter("walletnode")
    case = o["case"]
    res = ctx.run_harness(binary, "balance", [case], args=[ctx.seed], nproc=1, name="replay", env={"RANDOM_CTX_SEED": _wallet.seed_hex(ctx)})
    obs = {x["step"]: x for x in res["traces"]}
    bad = bool(res["aborts"])
    for si, s in enumerate(case["steps"]):
        if si not in obs:
            break
        e, h = norm(s["exp"]), norm(obs[si]["obs"])
        for k in WALLET_KEYS + NODE_KEYS:
            if e[k] != h[k]:
                print("REPLAY step %d %s: model %s, implementation %s" % (si, k, e[k], h[k]))
                bad = bad or k in WALLET_KEYS
    print("REPLAY result: %s" % ("still fails" if bad else "passes"))
    return 1 if bad else 0
