"""C18 — the UTXO database encoding preserves every spendable coin exactly (specs/Compressor, engine E4)."""
import collections, json
import vflib

META = dict(
    engine="E4",
    level="model_checking",
    text="CompressAmount / DecompressAmount, the VARINT coding, the script special cases of CompressScript / DecompressScript (ScriptCompression), "
         "Coin::Serialize and TxInUndoFormatter are transcribed into TLA+ over exact decimal-digit arithmetic (an independent reference encoder). TLC "
         "enumerates the domain (amounts d*10^e +- k for d 1..9, e 0..15, k 0..2 within [0, 21M BTC], all n < 1000, the range boundaries; every "
         "single-byte deviation at each template position of P2PKH / P2SH / P2PK scripts, scripts of every length around 20..26, 32..36, 64..68, the "
         "varint boundaries 121/122 and the script size limit 10000/10001; coins at heights 0, 1, 2, 63/64, 8255/8256, 10^6, 2^31-1 with both coinbase "
         "flags) and proves Decompress(Compress(x)) = x, the case analysis of the compressed value, special <=> exact template, and that parsing the "
         "serialization of a spendable script / coin / undo record restores it. Every row is replayed on the real functions and formatters comparing "
         "the exact bytes, and each coin row once through a real in-memory CCoinsViewDB (AddCoin, Flush, GetCoin on the database).",
    note="Whether a 65-byte public key is a curve point is not decided by the model: rows carry a key class (valid with even / odd y, x not on the "
         "curve, wrong y) realised by the adapter with real secp256k1 points; CPubKey::Decompress is an oracle. Amounts between the enumerated "
         "values are covered only by a seeded random round-trip sample (supplementary, not model-derived).",
    technique="TLA+ reference encoder/decoder (digit-level) + TLC-enumerated oracle table replayed on compressor.cpp, Coin, TxInUndoFormatter and CCoinsViewDB",
)

KINDS = ("amount", "decamt", "script", "coin", "decscript")


def run(ctx):
    binary = ctx.build_adapter("compressor")
    cfg = "MC_quick.cfg" if ctx.tier == "quick" else "MC_thorough.cfg"
    r = ctx.tlc("Compressor", "Compressor", cfg, timeout=2400)
    rows = [json.loads(l) for l in open(r.emit_path)]
    if len(rows) != r.distinct:
        raise vflib.InfraError("emitted %d rows for %d distinct states" % (len(rows), r.distinct))
    by_kind = collections.Counter(x["kind"] for x in rows)
    for k in KINDS:
        if not by_kind[k]:
            raise vflib.InfraError("vacuity: no row of kind " + k)
    scripts = [x for x in rows if x["kind"] == "script"]
    classes = collections.Counter()
    for x in scripts:
        code = x["comp"][0] if x["special"] else "raw"
        classes["%s/%s" % (code, x["key"])] += 1
    for need in ("0/none", "1/none", "2/valid_even", "3/valid_even", "2/bad_x", "4/valid_even", "5/valid_odd", "raw/bad_x", "raw/bad_y", "raw/none"):
        if not classes[need]:
            raise vflib.InfraError("vacuity: no script row of class " + need)
    if not any(x["kind"] == "script" and x["back"] == "op_return" for x in rows):
        raise vflib.InfraError("vacuity: no overlong script row")
    res = ctx.run_harness(binary, "table", rows, args=[ctx.seed])
    ctx.evaluations = int(res["summary"]["tests"]); ctx.traces = ctx.evaluations
    ctx.nontrivial = set(vflib.digest(x) for x in rows if x["kind"] in ("script", "coin", "decscript") or (x["kind"] == "amount" and len(x["a"]) > 1))
    ctx.extra["rows_per_kind"] = dict(by_kind)
    ctx.extra["script_rows_per_class"] = dict(classes)
    ctx.extra["db_round_trips"] = int(res["summary"].get("db_round_trips", 0))
    for k in ("amount", "script", "coin"):
        xs = [x for x in rows if x["kind"] == k and len(json.dumps(x)) < 1500]
        ctx.sample(xs[len(xs) // 2])
    vflib.report_mismatches(ctx, binary, "table", res, args=[ctx.seed], adapter="compressor", what_prefix="Compressor: ",
                            key_fn=lambda m, case: "row:" + vflib.digest(m.get("why")))
    # supplementary: the round-trip identities on seeded random amounts / coins over the full range
    n = 20000 if ctx.tier == "quick" else 400000
    shards = [dict(seed=(ctx.seed * 16 + i) % 256, skip=0, n=n // 8) for i in range(8)]
    rr = ctx.run_harness(binary, "random", shards, name="random")
    ctx.extra["random_round_trips"] = int(rr["summary"].get("random_cases", 0))
    ctx.evaluations += int(rr["summary"].get("random_cases", 0))
    vflib.report_mismatches(ctx, binary, "random", rr, adapter="compressor", what_prefix="Compressor (random round trip): ",
                            key_fn=lambda m, case: "random:" + vflib.digest(m.get("why")))
    ctx.assumptions += ["amounts between the enumerated values d*10^e +- k behave like their neighbours (plus a seeded random round-trip sample)",
                        "CPubKey::IsFullyValid / Decompress are oracles: only the classes valid / x not on the curve / wrong y are distinguished",
                        "LevelDB itself stores values verbatim (one write/read per coin row through an in-memory CCoinsViewDB)"]
    return ctx.finish(level="model_checking", exhaustive=True,
                      rule="every row of the enumerated domain (amounts, encoded values, script templates with every single-byte deviation at template "
                           "positions, length neighbours, coins x heights x flags, stand-alone decompression of pubkey codes); non-trivial = distinct script, "
                           "coin and decompression rows plus multi-digit amounts")
