"""C41 — wallet-created transactions are correct, sufficiently funded and not overpaying (specs/WalletSpend, engine E3)."""
import collections, concurrent.futures, json, os, sys
sys.path.insert(0, os.path.dirname(os.path.abspath(__file__)))
import vflib
import _wallet

META = dict(
    engine="E3",
    level="model_checking",
    text="WalletSpend.tla states C41 as a relation over one call of CreateTransaction / FundTransaction: inputs distinct and each either "
         "supplied by the caller or a spendable wallet coin (exists in chain or mempool and unspent there, coinbase 100 deep, not locked, "
         "confirmed or trusted-unconfirmed unless unsafe inputs are allowed, minimum depth), the wallet's coin list for that coin control "
         "contains such coins only, every recipient gets its script and amount, recipients that subtract the fee give up equal shares of "
         "the reduction (truncating division, the first also the remainder), the reduction is the fee when there is a change output and never "
         "more, change goes to a wallet script (or the address the caller named), fee = inputs - outputs, requested feerate x final signed "
         "vsize <= fee <= maxtxfee, standard recipients and a relayable feerate imply that the node's mempool test-accept takes the signed "
         "transaction, and none of the wallet's own 'internal bug' checks fires. TLC decides the arithmetic clauses on the algorithm model "
         "(CreateTransactionInternal after coin selection, as coded) for every selection / recipient list / feerate / size of a boundary-"
         "valued domain. Binding (code -> spec): TLC -simulate of the small wallet model WalletSpendGen generates wallet settings, coin "
         "tables (legacy / p2sh-segwit / bech32 / bech32m; coinbases at depth 1, 99, 100, 101; payments at depth 1 and 6; unconfirmed from "
         "others and from the wallet itself; locked) and call sequences (1-3 recipients incl. subtract-fee flags and dust-adjacent amounts, "
         "feerates, presets, foreign inputs, unsafe inputs, min depth, change type / position / address, lock, mine, commit); the adapter "
         "executes them on a real descriptor CWallet attached to an in-process regtest node and logs arguments, facts about the wallet's "
         "outputs taken from the node's utxo set and mempool, AvailableCoins, the result and the test-accept verdict; TLC evaluates the "
         "relation on every logged call.",
    note="Which coins the wallet picks is not predicted (C40 covers the selection algorithms). One-directional: a refused call is never a "
         "violation unless the refusal is one of the wallet's internal-bug errors. Maturity is judged by consensus (100 confirmations; the "
         "wallet itself waits for 101). Amounts stay below 2^31 satoshi (TLC integers): coins of 1.5 ksat to 1 BTC, coinbases claim less than "
         "the subsidy. No fee estimator: without an explicit feerate the requested rate is max(fallback, mempool minimum, required).",
    technique="TLA+ relation WalletSpend + algorithm model checked exhaustively by TLC; TLC -simulate generates scenarios for a real wallet "
              "on a regtest node; TLC evaluates the relation on every logged call (trace validation)",
)

NEED = ["create_ok", "ok_sffo_change", "ok_sffo_nochange", "ok_sffo_multi", "ok_plain_change", "input_external", "excluded_immature", "excluded_locked",
        "excluded_unconfirmed", "ok_and_accepted", "create_ok_via_fund", "refused:Transaction amount too small"]
NEED_THOROUGH = NEED + ["ok_sffo_remainder", "ok_sffo_leftover_to_recipient", "input_unconfirmed_self", "input_coinbase_depth_101+", "ok_nonstandard_recipient",
                        "refused:Fee exceeds maximum configured by user"]


def alg_check(ctx, quick):
    """TLC decides the arithmetic clauses on the algorithm model; the vacuity witnesses must be reachable."""
    cfg = "MC_alg_q.cfg" if quick else "MC_alg_t.cfg"
    r = ctx.tlc(_wallet.SPEND, "WalletSpendAlg", cfg, name=cfg[:-4], workers=4, timeout=2400)
    ctx.extra["alg_model_states"] = r.distinct
    if not quick:
        src = open(os.path.join(vflib.SPECS, _wallet.SPEND, "MC_alg_q.cfg")).read()
        for w in ("WitnessNegativeReduction", "WitnessRemainder", "WitnessMaxFee"):
            p = os.path.join(ctx.work, w + ".cfg")
            open(p, "w").write(src.replace(src[src.index("INVARIANTS"):src.index("CHECK_DEADLOCK")], "INVARIANTS %s\n" % w))
            rw = ctx.tlc(_wallet.SPEND, "WalletSpendAlg", p, name=w, workers=2, expect_violation=True, timeout=1200)
            if rw.violated != w:
                raise vflib.InfraError("vacuity: the algorithm model never reaches the situation %s" % w)


def run(ctx):
    binary = ctx.build_adapter("walletnode")
    quick = ctx.tier == "quick"
    only = os.environ.get("VERIF_C41_ONLY", "")           # "trace": skip the pure TLC run (seeded self-tests)
    with concurrent.futures.ThreadPoolExecutor(max_workers=2) as ex:
        fut = ex.submit(alg_check, ctx, quick) if only != "trace" else None
        num, depth = (48, 22) if quick else (700, 26)
        tests, r = _wallet.gen_behaviours(ctx, "Sim_spend.cfg" if quick else "Sim_spend_t.cfg", num, depth, "gen")
        ctx.log("generator: %d behaviours, %d calls" % (len(tests), sum(len(t["steps"]) for t in tests)))
        lines, res = _wallet.run_scripts(ctx, binary, tests, "script")
        if fut:
            fut.result()
    ctx.traces += len(tests)
    vflib.report_mismatches(ctx, binary, "script", res, args=[ctx.seed], adapter="walletnode", what_prefix="wallet call aborted: ")
    creates = [o for o in lines if o["e"] == "create"]
    ctx.evaluations += len(creates)
    ev = collections.Counter()
    _wallet.create_stats(lines, ev, ctx.nontrivial)
    bad = _wallet.judge(ctx, creates, _wallet.C41_INVS, "observed")
    _wallet.report(ctx, "C41", tests, bad)
    ctx.extra["events"] = dict(sorted(ev.items()))
    missing = [k for k in (NEED if quick else NEED_THOROUGH) if not ev.get(k)]
    if missing and not ctx.violations:
        raise vflib.InfraError("vacuity: the generated behaviours never exercised %s (events: %s)" % (missing, dict(ev)))
    ok = [o for o in creates if o["res"]["ok"]]
    if ok:
        o = ok[len(ok) // 2]
        ctx.sample(dict(call=_wallet.short_call(o)))
    ctx.assumptions += ["no fee estimator data: without an explicit feerate the wallet falls back to max(fallback fee, mempool minimum, required fee)",
                        "ownership of a script is the wallet's IsMine; spendability facts come from the node's utxo set and mempool",
                        "amounts below 2^31 satoshi; behaviours of at most %d calls over at most 7 coins" % (8 if quick else 10)]
    return ctx.finish(level="model_checking", exhaustive=False,
                      rule="behaviours = TLC -simulate of WalletSpendGen (seeded by VERIF_SEED), each executed on a fresh node + wallet; every create call is "
                           "one evaluation of the relation by TLC; non-trivial = successful creates with subtract-fee recipients, several recipients, "
                           "unconfirmed or foreign inputs")


def replay(ctx, path):
    return _wallet.replay(ctx, path, _wallet.C41_INVS)
