"""C63 — validation notifications describe exactly what happened, in order (specs/Notifications, engine E3)."""
import collections, concurrent.futures, json, os
import vflib

META = dict(
    engine="E3",
    level="model_checking",
    text="Notifications.tla is an abstract model of how validation.cpp / txmempool.cpp append events to the ValidationSignals queue inside the "
         "critical section of each operation (submit, replace, mine a block that confirms or conflicts with pool transactions, reorganise onto a "
         "competing branch, invalidate, reconsider) and how the scheduler thread delivers them later, one at a time: TLC checks that every "
         "delivered event fits the subscriber's view, that the queue always leads from the subscriber's view to the node's chain and pool, and "
         "that the subscriber's tip passes through every tip the node had. TLC simulation of the same model generates the operation sequences "
         "a real regtest node is put through (real ChainstateManager and mempool, ValidationSignals on the background scheduler thread, a "
         "CValidationInterface subscriber logging BlockConnected / BlockDisconnected / TransactionAddedToMempool / TransactionRemovedFromMempool "
         "/ MempoolTransactionsRemovedForBlock / UpdatedBlockTip with its own sequence numbers, optionally slowed by seeded delays so that the "
         "queue holds several operations' events). The recorded streams - node tip after every operation, active chain and mempool at every "
         "SyncWithValidationInterfaceQueue, and the delivered events - are validated by TLC against TraceNotifications.tla: each Connected "
         "extends the subscriber's tip, each Disconnected pops it, the subscriber's tip passes through the node's tips in order and equals the "
         "node's chain at every synchronisation point; Removed only after Added (and the reported pool equals the mempool at synchronisation "
         "points); every payload is a block the driver delivered with exactly that parent and those transactions, block and index agree.",
    note="The node's own predictions in Notifications.tla are not compared with the real node (invalid blocks, switches to older branches after an "
         "invalidation etc. make the real event stream richer); the binding is the relation between the two recorded streams. A rejected trace is "
         "reported only if it is rejected again on an immediate re-run of the same behaviours with the same schedule seed.",
    technique="TLA+ model of emission / delivery + TLC invariants; TLC-generated behaviours executed on a real node; TLC trace validation of the recorded notification streams",
)

# a few directed behaviours next to the simulated ones (inputs only; the oracle is the trace specification)
DIRECTED = [
    [["submit", "t1"], ["submit", "t3"], ["submit", "t1r"], ["mine", ["t1r"]], ["fork", 1], ["sync"], ["submit", "t2"], ["mine", ["x2"]]],
    [["submit", "t1"], ["mine", ["x1"]], ["submit", "t2"], ["mine", ["t2"]], ["fork", 2], ["invalidate", 1], ["reconsider"]],
    [["submit", "t1"], ["submit", "t2"], ["mine", ["t1", "t2"]], ["mine", []], ["invalidate", 1], ["submit", "t3"], ["reconsider"], ["fork", 2], ["sync"], ["invalidate", 0]],
    [["mine", ["t1"]], ["mine", ["t3"]], ["fork", 2], ["submit", "t1r"], ["mine", []], ["invalidate", 0], ["mine", ["t1", "t3"]], ["reconsider"]],
    [["mine", []], ["mine", []], ["mine", []], ["fork", 1], ["fork", 2], ["invalidate", 2], ["mine", []], ["reconsider"], ["fork", 2]],
]


def run(ctx):
    binary = ctx.build_adapter("notifications")
    quick = ctx.tier == "quick"
    with concurrent.futures.ThreadPoolExecutor(max_workers=2) as ex:
        mc = ex.submit(ctx.tlc, "Notifications", "Notifications", "MC_quick.cfg" if quick else "MC.cfg", name="MC", timeout=2400, workers=2 if quick else 4)
        sim = ex.submit(ctx.tlc, "Notifications", "Notifications", "Sim.cfg", simulate=(150 if quick else 1500, 70), name="Sim", timeout=2400)
    mc.result()
    beh = vflib.sim_behaviours(sim.result().emit_path)
    tests = [dict(ops=ops) for ops in DIRECTED]
    for b in beh:
        ops = [s["a"] for s in b["steps"] if s["a"][0] != "deliver"]
        if len(ops) >= 4:
            tests.append(dict(ops=ops))
    if len(tests) < (80 if quick else 800):
        raise vflib.InfraError("only %d behaviours generated" % len(tests))
    ctx.sample(tests[len(DIRECTED)]); ctx.sample(tests[0])
    for t in tests:
        if any(o[0] in ("fork", "invalidate", "reconsider") for o in t["ops"]) and any(o[0] == "submit" for o in t["ops"]):
            ctx.nontrivial.add(vflib.digest(t["ops"]))
    nshards = 4
    kinds = collections.Counter(); reasons = collections.Counter(); depth = collections.Counter()
    total_lines = 0

    def one(i, sched):
        part = tests[i::nshards]
        path = os.path.join(ctx.work, "beh.%d.ndjson" % i)
        with open(path, "w") as f:
            for t in part:
                f.write(json.dumps(t) + "\n")
        out = os.path.join(ctx.work, "trace.%d.%d.ndjson" % (i, sched))
        try:
            ctx.run_driver(binary, "drive", args=[path, sched], out_name=out, timeout=1200)
        except vflib.InfraError:
            # an assertion of the node inside an operation ends the driver with an "abort" line: that is a verdict, not an infrastructure error
            if not (os.path.exists(out) and '"kind":"abort"' in open(out).read()):
                raise
        return out, len(part)

    def validate(out, name):
        lines = open(out).read().splitlines()
        aborted = [l for l in lines if '"kind":"abort"' in l]
        if aborted:
            return False, 0, lines, "the node aborted: " + aborted[0][:300]
        acc, matched, res = ctx.validate_trace("Notifications", "TraceNotifications", "Trace.cfg", out, name=name, timeout=1200)
        return acc, matched, lines, None

    def all_shards(sched, tag):
        """the behaviours run in parallel shards; their recorded streams are validated as one trace (every behaviour starts with a reset line)"""
        with concurrent.futures.ThreadPoolExecutor(max_workers=vflib.free_cpus()) as ex:
            outs = list(ex.map(lambda i: one(i, sched), range(nshards)))
        cat = os.path.join(ctx.work, "trace.%s.ndjson" % tag)
        with open(cat, "w") as f:
            for out, _ in outs:
                f.write(open(out).read())
        return cat, sum(nb for _, nb in outs)

    for sched in ((0, ctx.seed * 7919 + 1) if quick else (0, ctx.seed * 7919 + 1, ctx.seed * 7919 + 2)):
        if True:
            out, nbeh = all_shards(sched, "s%d" % (sched % 100000))
            acc, matched, lines, aborted = validate(out, "trace_%d" % (sched % 100000))
            total_lines += len(lines); ctx.traces += nbeh; ctx.evaluations += len(lines)
            for l in lines:
                if l.startswith('{"kind"'):
                    o = json.loads(l); kinds[o["kind"]] += 1
                    if o["kind"] == "removed":
                        reasons[o["reason"]] += 1
                    if o["kind"] == "removedforblock" and o["txs"]:
                        kinds["removedforblock_nonempty"] += 1
            run_len = 0
            for l in lines:
                if '"kind":"disconnected"' in l:
                    run_len += 1
                else:
                    if run_len:
                        depth[min(run_len, 3)] += 1
                    run_len = 0
            if acc:
                continue
            bad = lines[matched] if matched < len(lines) else "(end of trace)"
            # the behaviour the rejected line belongs to, for the report
            start = max([k for k in range(min(matched, len(lines) - 1) + 1) if lines[k].startswith('{"e":"reset"')] or [0])
            what = aborted or ("line %d of the recorded streams is not admitted by TraceNotifications: %s" % (matched + 1, bad[:400]))

            def confirm(sched=sched):
                out2, _ = all_shards(sched, "confirm")
                acc2, _, _, ab2 = validate(out2, "confirm")
                return not acc2
            ctx.violation("trace:%s" % vflib.digest([json.loads(bad).get("kind", json.loads(bad).get("e")) if bad.startswith("{") else bad, sched != 0]),
                          "Notifications (schedule seed %d): %s; behaviour: %s" % (sched, what, lines[start + 1][:300] if start + 1 < len(lines) else ""),
                          dict(module_dir="Notifications", module="TraceNotifications", cfg="Trace.cfg", trace=out, line=matched + 1), confirm=confirm)
    ctx.extra["events_by_kind"] = dict(kinds)
    ctx.extra["removal_reasons"] = dict(reasons)
    ctx.extra["disconnect_runs_by_depth"] = dict(depth)
    ctx.extra["trace_lines"] = total_lines
    if not ctx.violations:
        for k in ("connected", "disconnected", "added", "removed", "removedforblock_nonempty", "tip"):
            if not kinds[k]:
                raise vflib.InfraError("vacuity: no %s event in the recorded traces (%s)" % (k, dict(kinds)))
        if not reasons["replaced"] or not reasons["conflict"] or not depth[2]:
            raise vflib.InfraError("vacuity: no replacement / conflict removal / two-block reorganisation in the recorded traces (%s, %s)" % (dict(reasons), dict(depth)))
    ctx.assumptions += ["one subscriber; the node's other subscriber (the PeerManager) runs on the same scheduler thread",
                        "operations are issued from one driver thread; concurrency is between the driver and the scheduler thread",
                        "universe: two coins, six transactions (replacement, child, in-block conflicts); reorganisations up to three blocks deep"]
    return ctx.finish(level="model_checking", exhaustive=False,
                      rule="behaviours = TLC -simulate runs of Notifications.tla (operation sequences of >= 4 commands) plus five directed ones, each executed on the "
                           "real node under 2-3 delivery schedules; every recorded line is validated; non-trivial = distinct behaviours with a reorganisation / invalidation and a transaction submission")
