"""C51 — probabilistic filters never produce false negatives (specs/Filters: engine E1, one-sided; specs/Merkle/Pmt: engine E4)."""
import collections, json, os, sys
sys.path.insert(0, os.path.dirname(os.path.abspath(__file__)))
import vflib

META = dict(
    engine="E1+E4",
    level="model_checking",
    text="The model of a filter is an abstract set; the comparison is one-sided: whatever the model holds the real filter must report, about "
         "everything else nothing is claimed (false positives never alarm). Every transition of the bounded models is replayed: CBloomFilter "
         "(insert incl. duplicates, the empty element, a 32-byte value, the COutPoint overloads, a 1000-element bulk insert; ordinary and degenerate "
         "configurations: empty bit vector, zero hash functions, one byte), CRollingBloomFilter(N = 3, 4 in quick; 2..4 graph-replayed and 5, 6 model-checked + simulated in thorough) with the generation mechanics as coded "
         "(ceil(N/2) insert calls per generation, three labels, oldest wiped) on which TLC proves the clause 'the last N inserted elements are present', "
         "GCSFilter and BlockFilter(BASIC) built from every subset of the universe (empty set, duplicates, +1000 elements, four parameter sets incl. "
         "P = 0 and P = 32) with Match for every element and MatchAny for every query set. Partial merkle trees: Pmt.tla models TraverseAndBuild / "
         "ExtractMatches as coded over injective merkle terms; TLC proves 'accepted => exactly the matched ids, their positions and the block's merkle root', "
         "'no repeated id => accepted' and that a duplicated-tail list never proves one id twice; every (list, match subset) row is replayed on "
         "CPartialMerkleTree (directly and through its serialisation) and CMerkleBlock, roots evaluated with real double-SHA256.",
    note="'The GCS encoding equals the reference encoding' is codec fidelity and not covered; CBloomFilter::IsRelevantAndUpdate is out of scope. For the "
         "rolling filter only the clause (last N present) is an observable; what the coded generations retain beyond that is compared as internal "
         "bookkeeping (deviation, never a violation). Detection of a false negative relies on the filters' low false-positive rate on the small universe.",
    technique="TLA+ set models + TLC state graphs replayed on the real filters with a one-sided (member => reported) comparison; TLC-enumerated oracle table for partial merkle trees",
)


def fix(exp):
    """TLC prints a function with an empty domain as []: the expectation records (has / any / lastn / gens) are objects."""
    return {k: ({} if v == [] else v) for k, v in exp.items()} if isinstance(exp, dict) else exp


def replay(ctx, binary, module, cfg, mode, *, cover, name, env):
    r = ctx.tlc("Filters", module, cfg, name=name)
    g = vflib.Graph(vflib.load_emitted(r.emit_path))
    per_action = collections.Counter()
    for kf, outs in g.out.items():
        for a, _, _ in outs:
            per_action[a[0]] += 1
    if cover == "paths":
        # the greedy cover takes a state's outgoing edges from the end of its list: keep the edges that lead back to the initial
        # state (reset) for last, otherwise every path is cut short by an early reset
        for k in g.out:
            g.out[k].sort(key=lambda e: e[0][0] != "reset")
    tests = list(g.path_cover(max_len=3000)) if cover == "paths" else list(g.edge_tests())
    for t in tests:
        t["init"] = fix(t["init"])
        for s in t["steps"]:
            s["exp"] = fix(s["exp"])
        if len(t["steps"]) > 1:
            ctx.nontrivial.add(vflib.digest([name, [s["a"] for s in t["steps"]]]))
    nsteps = sum(len(t["steps"]) for t in tests)
    ctx.log("E1 %s/%s: %d states, %d transitions -> %d tests, %d steps" % (module, cfg, len(g.nodes), g.nedges, len(tests), nsteps))
    mid = tests[len(tests) // 2]
    ctx.sample(dict(model=module, cfg=cfg, actions=[s["a"] for s in mid["steps"]][-8:], must_report=mid["steps"][-1]["exp"]))
    res = ctx.run_harness(binary, mode, tests, name=name, env=env)
    ctx.evaluations += int(res["summary"]["steps"]); ctx.traces += int(res["summary"]["tests"])
    ctx.extra["replayed_steps"] = ctx.extra.get("replayed_steps", 0) + int(res["summary"]["steps"])
    ctx.extra["model_transitions_covered"] = ctx.extra.get("model_transitions_covered", 0) + g.nedges
    vflib.report_mismatches(ctx, binary, mode, res, adapter="filters", what_prefix="%s %s: " % (module, cfg))
    # rolling filter: the coded generations retain more than the clause demands; an implementation that retains less of that surplus
    # (but still the last N -- compared above as observable) deviates from the model without violating the property
    ndev = int(res["summary"].get("deviations", 0))
    if ndev:
        ctx.extra["benign_retention_deviations"] = ctx.extra.get("benign_retention_deviations", 0) + ndev
    return per_action


def simulate(ctx, binary, module, mc_cfg, sim_cfg, mode, *, name, env, num, depth):
    """Larger parameters: TLC model-checks the clause exhaustively, the implementation gets sampled behaviours (engine E2)."""
    ctx.tlc("Filters", module, mc_cfg, name=name + "_mc", timeout=3000)
    r = ctx.tlc("Filters", module, sim_cfg, name=name + "_sim", simulate=(num, depth))
    tests = []
    for b in vflib.sim_behaviours(r.emit_path):
        b["init"] = fix(b["init"])
        for s in b["steps"]:
            s["exp"] = fix(s["exp"])
        tests.append(b)
        ctx.nontrivial.add(vflib.digest([name, [s["a"] for s in b["steps"]]]))
    if not tests:
        raise vflib.InfraError("no simulated behaviours from %s" % sim_cfg)
    res = ctx.run_harness(binary, mode, tests, name=name, env=env)
    ctx.evaluations += int(res["summary"]["steps"]); ctx.traces += int(res["summary"]["tests"])
    ctx.extra["simulated_steps"] = ctx.extra.get("simulated_steps", 0) + int(res["summary"]["steps"])
    vflib.report_mismatches(ctx, binary, mode, res, adapter="filters", what_prefix="%s %s: " % (module, sim_cfg))
    ndev = int(res["summary"].get("deviations", 0))
    if ndev:
        ctx.extra["benign_retention_deviations"] = ctx.extra.get("benign_retention_deviations", 0) + ndev


def run(ctx):
    fb = ctx.build_adapter("filters")
    mb = ctx.build_adapter("merkle")
    env = {"RANDOM_CTX_SEED": "%064x" % (0x5eed0000 + ctx.seed)}
    quick = ctx.tier == "quick"
    acts = collections.Counter()
    acts.update({"bloom." + k: v for k, v in replay(ctx, fb, "BloomFilter", "E1_bloom.cfg" if quick else "E1_bloom_t.cfg", "replay_bloom",
                                                     cover="edges", name="bloom", env=env).items()})
    for n in ((3, 4) if quick else (2, 3, 4)):
        acts.update({"rolling." + k: v for k, v in replay(ctx, fb, "RollingFilter", ("E1q_rolling%d.cfg" if quick else "E1_rolling%d.cfg") % n, "replay_rolling",
                                                           cover="paths", name="rolling%d" % n, env=env).items()})
    if not quick:
        for n in (5, 6):
            simulate(ctx, fb, "RollingFilter", "MC_rolling%d.cfg" % n, "Sim_rolling%d.cfg" % n, "replay_rolling", name="rolling%d" % n, env=env,
                     num=3000, depth=60)
    acts.update({"gcs." + k: v for k, v in replay(ctx, fb, "GcsFilter", "E1_gcs.cfg" if quick else "E1_gcs_t.cfg", "replay_gcs",
                                                   cover="edges", name="gcs", env=env).items()})
    missing = [a for a in ("bloom.insert", "bloom.insertbulk", "rolling.insert", "rolling.reset", "gcs.build") if not acts[a]]
    if missing:
        raise vflib.InfraError("vacuity: actions never taken: %s" % missing)
    ctx.extra["transitions_per_action"] = dict(acts)
    # partial merkle trees (engine E4)
    r = ctx.tlc("Merkle", "Pmt", "PMT_quick.cfg" if quick else "PMT_thorough.cfg", name="pmt")
    rows = [json.loads(l) for l in open(r.emit_path)]
    if not rows or not any(not x["ok"] for x in rows) or not any(x["ok"] and len(x["matched"]) > 1 for x in rows):
        raise vflib.InfraError("vacuity: partial-merkle-tree table lacks accepted / refused rows")
    res = ctx.run_harness(mb, "pmt", rows, name="pmt")
    n = int(res["summary"]["tests"])
    if n != len(rows) and not res["aborts"]:
        raise vflib.InfraError("pmt: %d rows emitted, %d evaluated" % (len(rows), n))
    ctx.evaluations += n; ctx.traces += n
    for x in rows:
        if len(x["l"]) > 1 and any(x["m"]):
            ctx.nontrivial.add(vflib.digest([x["l"], x["m"]]))
    ctx.extra["pmt_rows"] = len(rows); ctx.extra["pmt_rows_refused"] = sum(1 for x in rows if not x["ok"])
    ctx.extra["pmt_merkleblocks"] = int(res["summary"].get("merkleblocks", 0))
    ctx.sample([x for x in rows if x["ok"] and len(x["matched"]) == 2 and len(x["l"]) == 5][0])
    vflib.report_mismatches(ctx, mb, "pmt", res, adapter="merkle", what_prefix="Pmt: ", key_fn=lambda m, case: "pmt:" + vflib.digest(m.get("why")))
    ctx.assumptions += ["bounded: universes of 4-6 elements (+1000 fillers through one macro action), rolling filters of N = 2..6, transaction lists of up to 9 (quick) / 11 (thorough) ids",
                        "a false negative shows as 'not reported' only if the element is not a false positive at the same time (rates 1e-6 for the rolling filter, 1/784931 for the basic GCS)",
                        "double-SHA256 is collision free (partial merkle trees are modelled over injective terms)"]
    return ctx.finish(level="model_checking", exhaustive=True,
                      rule="one implementation test per transition of the bloom / GCS graphs, a path cover of every transition of the rolling-filter graphs, one row per "
                           "(transaction list, match subset); non-trivial = distinct tests with more than one step, distinct rows with a match in a list of 2+ ids")
