"""C11 — script verification flags behave as soft forks (specs/Script, modules Script + ScriptSF; engine E4)."""
import collections, json, os, sys
sys.path.insert(0, os.path.dirname(os.path.abspath(__file__)))
import vflib, _script

META = dict(
    engine="E4",
    level="model_checking",
    text="On the TLA+ reference interpreter of C12 (specs/Script) TLC evaluates every program of the bounded grammars (P2PK/P2PKH/multisig, P2SH, "
         "P2WPKH/P2WSH native and nested, taproot key and script path, and the flow / lock-time / CHECKSIG / CHECKMULTISIG programs as scriptSig+scriptPubKey "
         "pairs) under EVERY valid subset of the flags its family is sensitive to and checks the invariant SoftFork: success under a flag set implies "
         "success under each of its valid subsets. Each row (program + all its flag sets) is then concretised with real keys and signatures and run on the "
         "real VerifyScript under all those flag sets: the implication is checked on the implementation's own results for every pair, every call is made "
         "twice (equal result and ScriptError), and every row that verifies under STANDARD_SCRIPT_VERIFY_FLAGS must verify under the block script flags.",
    note="Valid combinations = the assertions of VerifyScript (CLEANSTACK needs P2SH and WITNESS, WITNESS needs P2SH; test/util/script.h IsValidFlagCombination). "
         "The consensus flags of the next block are obtained by the public route validation itself uses: GetBlockScriptFlags(tip) (declared in validation.h) "
         "on the regtest chain of a TestChain100Setup, where every buried deployment and taproot are active; on this tree they equal MANDATORY_SCRIPT_VERIFY_FLAGS. "
         "The implication is model-checked for the modelled opcode/flag subset and the bounded grammars only; on the implementation it is observed on the rows. "
         "Relation mode: only the relation on the implementation's results is a verdict; agreement with the model's predictions is counted, it is C12's business.",
    technique="TLA+ invariant over all flag subsets per program + replay of the same rows on VerifyScript under every flag set",
)

FAMILIES = ["flow", "lock", "sig", "msig", "verify", "tap"]
# flags for which some row must flip from success to failure when the flag is added (otherwise the flag is not exercised)
NEED_FLIPS_QUICK = ["P2SH", "WITNESS", "CLEANSTACK", "SIGPUSHONLY", "MINIMALDATA", "DISCOURAGE_UPGRADABLE_NOPS", "NULLDUMMY", "NULLFAIL", "DERSIG", "LOW_S",
                    "STRICTENC", "CONST_SCRIPTCODE", "CHECKLOCKTIMEVERIFY", "CHECKSEQUENCEVERIFY", "MINIMALIF", "TAPROOT", "DISCOURAGE_OP_SUCCESS",
                    "DISCOURAGE_UPGRADABLE_TAPROOT_VERSION", "DISCOURAGE_UPGRADABLE_PUBKEYTYPE"]
NEED_FLIPS_THOROUGH = NEED_FLIPS_QUICK + ["WITNESS_PUBKEYTYPE", "DISCOURAGE_UPGRADABLE_WITNESS_PROGRAM"]


def run(ctx):
    binary = ctx.build_adapter("script")
    only = os.environ.get("VERIF_C11_ONLY")
    fams = [f for f in FAMILIES if not only or f in only.split(",")]
    # quick: one TLC process (JVM warm-up dominates short runs); thorough: the big family on its own, the others together
    if only:
        runs = [("SF_%s.cfg" % f, "sf_" + f) for f in fams]
    elif ctx.tier == "quick":
        runs = [("SF_all.cfg", "sf_all")]
    else:
        runs = [("SF_flow.cfg", "sf_flow"), ("SF_rest.cfg", "sf_rest")]
    summary = collections.Counter()
    by_fam = collections.Counter(); model_evals = 0
    nontrivial = set()
    infos = {}
    for cfg, name in runs:
        # TLC fails the run (InfraError: defect of the model) if SoftFork is violated on the model
        r = _script.run_rows(ctx, cfg, module="ScriptSF", name=name)
        if 2 * r.emitted != r.distinct:
            raise vflib.InfraError("%s: %d rows emitted for %d distinct states" % (cfg, r.emitted, r.distinct))
        with open(r.emit_path) as f:
            for i, l in enumerate(f):
                o = json.loads(l)
                by_fam[o["g"]] += 1; model_evals += len(o["fs"])
                errs = set(x["err"] for x in o["fs"])
                # non-trivial: the model's verdict depends on the flag set (the program is sensitive to at least one flag)
                if len(errs) > 1 and "" in errs:
                    nontrivial.add(vflib.digest([o["a"], o["b"], o["st0"], o["tx"]]))
                if i in (3, r.emitted // 2):
                    o["fs"] = o["fs"][:4] + ["... %d flag sets" % len(o["fs"])]
                    ctx.sample(o, limit=6)
        res = ctx.run_harness(binary, "softfork", r.emit_path, name="softfork_" + name)
        for m in res["mismatches"]:
            if any(k in (m.get("why") or "") for k in _script.INFRA_MARKERS):
                raise vflib.InfraError("adapter could not concretise a row (%s): %s" % (m.get("why"), str(m.get("action"))[:400]))
        for i in res["infos"]:
            if "block_flags" in i:
                infos = dict(block_flags=i["block_flags"], standard_flags=i["standard_flags"])
        vflib.report_mismatches(ctx, binary, "softfork", res, adapter="script", what_prefix="Script flags: ",
                                key_fn=lambda m, case: "row:" + vflib.digest([(m.get("action") or {}).get("a"), (m.get("action") or {}).get("b"),
                                                                              (m.get("action") or {}).get("st0"), (m.get("why") or "")[:80]]))
        summary.update(res["summary"]); res["lines"] = None
    if not only and not ctx.violations:
        need = NEED_FLIPS_QUICK if ctx.tier == "quick" else NEED_FLIPS_THOROUGH
        # (the model's own verdicts: a flag the grammar does not exercise is a defect of the check, not of the implementation)
        missing = [f for f in need if not summary.get("mflip_" + f)]
        missing_f = [f for f in fams if not by_fam[f]]
        if missing or missing_f:
            raise vflib.InfraError("vacuity: no row whose predicted verdict flips when adding %s / no rows for %s" % (missing, missing_f))
    ctx.evaluations = int(summary["evaluations"])          # real VerifyScript verdicts compared pairwise
    ctx.traces = int(summary["tests"])
    ctx.nontrivial = nontrivial
    ctx.extra["rows_per_family"] = dict(by_fam)
    ctx.extra["model_evaluations"] = model_evals
    ctx.extra["harness"] = {k: int(v) for k, v in summary.items()}
    ctx.extra["flags"] = infos
    ctx.extra["modelled"] = _script.MODELLED
    ctx.assumptions += ["programs outside the bounded grammars and flags outside a family's universe behave like their neighbours",
                        "regtest block flags of a 100-block chain stand for 'the consensus flags of the next block'"]
    return ctx.finish(level="model_checking", exhaustive=True,
                      rule="every program of the families %s x every valid subset of the family's flag universe (model: invariant SoftFork; implementation: "
                           "all subset pairs, determinism, standard => block flags); non-trivial = distinct programs whose verdict depends on the flag set" % ", ".join(fams))
