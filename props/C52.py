"""C52 — HTTP requests are parsed the same however the bytes arrive (specs/Http, engines E1 + E4)."""
import collections, json, os, random
import vflib

META = dict(
    engine="E1",
    level="model_checking",
    text="specs/Http/Http.tla models the request parser of src/httpserver.cpp line by line (util::LineReader with its 8192-byte line cap, the request "
         "line rules, HTTPHeaders::Read with the header/trailer size accounting, Content-Length with the duplicate-equal rule, chunked bodies with "
         "extensions and trailers, the 32 MiB body cap with real sizes through pad tokens, the one-request-per-iteration dispatch loop, 400/413 + "
         "disconnect on errors, keep-alive/close). TLC proves on the bounded model the theorem 'the dispatched requests (method, target, version, "
         "headers, body), the error reply and the connection state - and the whole parser state - after any split of any prefix of any stream of the "
         "grammar (75 streams: pipelined, chunked, duplicate Content-Length, bare CR, NUL, oversize lines/headers/trailers/bodies, incomplete final "
         "request) into at most 3 (thorough: 4) socket reads equal those of one read of the prefix'. Every transition of that state graph (parser state "
         "x next fragment) is replayed on a real HTTPRemoteClient (fragments appended to m_recv_buffer, ReadRequest driven as the server's I/O loop does) "
         "and a sample of the paths end to end through a real HTTPServer over the socket mock (one Recv per fragment), comparing after every read the "
         "dispatched requests, the error status and whether the connection was closed. The access clauses are a TLC-enumerated decision table "
         "(specs/Http/HttpAuth.tla: -rpcallowip subnet x method x Authorization header -> dropped / 405 / 401 / executed) replayed end to end through "
         "InitHTTPServer + StartHTTPRPC with the peer address 5.5.5.5.",
    note="Fragment boundaries fall between the model's tokens (single bytes, except keywords such as Content-Length and the pad tokens that carry "
         "the real sizes). Exhaustive over the grammar's streams and all such splits with at most 3/4 fragments; other streams are not covered. "
         "Reply headers/bodies are not compared, only the status and the connection close.",
    technique="TLA+ spec Http + TLC (theorem as invariant on every state); path cover of the state graph replayed on the real parser and the real "
              "server; TLC-enumerated decision table for address and credential checks",
)


def run(ctx):
    binary = ctx.build_adapter("http")
    quick = ctx.tier == "quick"
    only = os.environ.get("VERIF_C52_ONLY", "")
    rnd = random.Random(ctx.seed)
    if only in ("", "parse"):
        # 1. theorem on the bounded model + every transition of the state graph
        r = ctx.tlc("Http", "Http", "E1_quick.cfg" if quick else "E1_thorough.cfg")
        recs = vflib.load_emitted(r.emit_path)
        streams = {x["stream"]: x["toks"] for x in recs if "stream" in x}
        edges = [x for x in recs if "a" in x]
        if not streams or not edges:
            raise vflib.InfraError("specification emitted no streams/edges")
        spath = os.path.join(ctx.work, "streams.json")
        json.dump(streams, open(spath, "w"))
        g = vflib.Graph(edges)
        paths = list(g.path_cover())
        nsteps = sum(len(p["steps"]) for p in paths)
        ctx.log("Http: %d streams, %d states, %d transitions -> %d paths (%d reads)" % (len(streams), len(g.nodes), g.nedges, len(paths), nsteps))
        outcomes = collections.Counter()
        for p in paths:
            last = p["steps"][-1]["r"]
            outcomes["err_" + last["err"]] += 1
            if last["closed"]:
                outcomes["closed"] += 1
            ndisp = sum(len(s["r"]["new"]) for s in p["steps"])
            outcomes["dispatched_%d" % min(ndisp, 3)] += 1
            if len(p["steps"]) > 1:
                ctx.nontrivial.add(vflib.digest([p["init"]["sid"], [s["a"] for s in p["steps"]]]))
        for k in ("err_400", "err_413", "err_none", "closed", "dispatched_1", "dispatched_2", "dispatched_3"):
            if not outcomes[k]:
                raise vflib.InfraError("vacuity: no path with outcome " + k)
        ctx.extra["paths_by_outcome"] = dict(outcomes)
        ctx.extra["model_transitions_covered"] = g.nedges
        mid = paths[len(paths) // 2]
        ctx.sample(dict(stream=mid["init"]["sid"], tokens=streams[mid["init"]["sid"]], reads=[s["a"] for s in mid["steps"]], predicted=[s["r"] for s in mid["steps"]]))
        # the 32 MiB streams are expensive to replay: keep a handful of their paths
        big = [p for p in paths if p["init"]["sid"] in ("body_max", "chunk_cumulative")]
        small = [p for p in paths if p["init"]["sid"] not in ("body_max", "chunk_cumulative")]
        rnd.shuffle(big)
        direct = small + big[:40]
        res = ctx.run_harness(binary, "replay", direct, args=[spath, "direct"], name="direct")
        ctx.evaluations += int(res["summary"]["steps"]); ctx.traces += int(res["summary"]["tests"])
        vflib.report_mismatches(ctx, binary, "replay", res, args=[spath, "direct"], adapter="http",
                                what_prefix="HTTP parser (fragments fed to HTTPRemoteClient::ReadRequest) differs from the specification: ")
        # end to end through the real server: a seeded sample of the paths, every stream at least once
        by_sid = collections.defaultdict(list)
        for p in small:
            by_sid[p["init"]["sid"]].append(p)
        sample = []
        per = 2 if quick else 8
        for sid in sorted(by_sid):
            ps = sorted(by_sid[sid], key=lambda p: -len(p["steps"]))
            sample += ps[:1] + rnd.sample(ps[1:], min(per - 1, len(ps) - 1))
        res2 = ctx.run_harness(binary, "replay", sample, args=[spath, "socket"], name="socket")
        ctx.evaluations += int(res2["summary"]["steps"]); ctx.traces += int(res2["summary"]["tests"])
        ctx.extra["end_to_end_paths"] = len(sample)
        vflib.report_mismatches(ctx, binary, "replay", res2, args=[spath, "socket"], adapter="http",
                                what_prefix="HTTP server (fragments sent through the socket mock) differs from the specification: ")
    if only in ("", "auth"):
        # 2. address / credential decision table
        r = ctx.tlc("Http", "HttpAuth", "Auth_quick.cfg" if quick else "Auth_thorough.cfg", name="auth")
        rows = [x for x in vflib.load_emitted(r.emit_path)]
        if len(rows) != r.distinct or not rows:
            raise vflib.InfraError("auth table: %d rows for %d states" % (len(rows), r.distinct))
        rows.sort(key=lambda x: x["allow"])
        by = collections.Counter("%s/%s" % (x["out"]["conn"], x["out"]["status"]) for x in rows)
        for k in ("dropped/0", "served/405", "served/401", "served/200"):
            if not by[k]:
                raise vflib.InfraError("vacuity: no table row with outcome " + k)
        # rows of one allow list stay together (one server start per allow list); one harness process per group of allow lists
        nproc = max(1, min(vflib.free_cpus(), 4))
        allows = sorted(set(x["allow"] for x in rows))
        per_shard = [[x for x in rows if allows.index(x["allow"]) % nproc == k] for k in range(nproc)]
        res3 = run_auth(ctx, binary, [s for s in per_shard if s])
        ctx.evaluations += int(res3["summary"]["tests"]); ctx.traces += int(res3["summary"]["tests"])
        ctx.extra["auth_rows_by_outcome"] = dict(by)
        ctx.sample(dict(auth_row=rows[len(rows) // 2]))
        for x in rows:
            if x["out"]["conn"] == "served":
                ctx.nontrivial.add(vflib.digest(x))
        vflib.report_mismatches(ctx, binary, "auth", res3, adapter="http", what_prefix="HTTP access control differs from the decision table: ",
                                key_fn=lambda m, case: "auth:" + vflib.digest(m.get("action")))
    ctx.assumptions += ["fragment boundaries fall between the model's tokens (bytes, keywords, pads)",
                        "only the streams of the grammar in specs/Http/Http.tla (and all their prefixes) are covered",
                        "the access table uses the peer address 5.5.5.5 reported by the socket mock and varies the allow list"]
    return ctx.finish(level="model_checking", exhaustive=True,
                      rule="path cover of the TLC state graph (stream x delivered prefix x number of reads): every (parser state, next fragment) transition "
                           "replayed on the real parser; non-trivial = distinct paths with at least two reads, and served rows of the access table")


def run_auth(ctx, binary, shards):
    """One harness process per shard, side by side; the results are merged (indices refer to the concatenation of the shards)."""
    import concurrent.futures
    with concurrent.futures.ThreadPoolExecutor(max_workers=len(shards)) as ex:
        results = list(ex.map(lambda kv: ctx.run_harness(binary, "auth", kv[1], nproc=1, name="auth%d" % kv[0]), enumerate(shards)))
    total = dict(mismatches=[], aborts=[], deviations=[], summary=collections.Counter(), infos=[], traces=[], lines=[], nproc=1)
    for r in results:
        off = len(total["lines"])
        for key in ("mismatches", "aborts"):
            for m in r[key]:
                m["index"] = m.get("index", 0) + off
                total[key].append(m)
        total["summary"].update(r["summary"])
        total["lines"] += r["lines"]
    return total
