"""C24 — cluster linearizations are topological and never get worse (specs/Linearize, engines E4 + E3)."""
import json, os, re
import vflib

META = dict(
    engine="E4",
    level="model_checking",
    text="specs/Linearize defines, by brute force, topological orders, chunking, feerate diagrams, their exact pointwise comparison, the optimum "
         "(a diagram at least as good as that of every topological order) and a model of PostLinearize. TLC enumerates every cluster of a bounded "
         "domain (quick: all parent-labelled DAGs on <= 3 transactions over 6 (fee,size) values incl. zero and negative fees, and the 10 connected "
         "poset shapes on 4 transactions over 5 values = 8,056 clusters; thorough adds all 64 DAGs on 4 over 6 values and the 44 connected shapes "
         "on 5 = 138k clusters) and emits one row per cluster with all its topological orders. The harness builds the real DepGraph (placements "
         "in label order, reversed, with holes; plain and scaled to fees ~2^62 / sizes ~2^31), calls Linearize with ~9 cost budgets from 0 to ample "
         "x 2 rng seeds, with no input, every topological order as input and every permutation as input not claimed topological, post-processes "
         "every result with PostLinearize as TxGraph does, and calls ChunkLinearization[Info] and CompareChunks; it judges nothing and only logs "
         "the results. TraceLinearize (TLC) decides for every cluster the model clauses (an optimum exists, chunk feerates never increase, minimal "
         "optimal chunks connected, the PostLinearize model is topological / never worse / connected-chunked on every topological input) and the "
         "code clauses (output topological; never worse than a topological input; reported optimal => at least as good as every topological order; "
         "post-processing topological, never worse, every chunk connected; chunking and diagram comparison equal the specification's). Seeded "
         "random clusters of 5-8 transactions (brute-force optimum) and 9-64 transactions (all clauses except optimality) go through the same "
         "specification.",
    note="Exhaustive only within the bounded domain; 5-64-transaction clusters are seeded samples and optimality is decided only up to 8 "
         "transactions. Extreme values are reached by scaling a small-integer cluster (the relations are scale invariant, checked on the model).",
    technique="TLA+ brute-force oracle (all topological orders) + TLC-enumerated cluster table driven through the real classes + TLC judging "
              "the logged results (trace validation)",
)

VAL_KEYS = ("linearize_calls", "postlinearize_calls", "optimal_results", "not_optimal_results", "distinct_linearize_results",
            "distinct_postlinearize_results", "chunkings", "comparisons", "linearize_changed_input", "postlinearize_changed_input")


def parse_bad(log_path):
    """The violated invariant's state: l (line number, 1-based) and the set bad of <<clause, field, index>>."""
    txt = open(log_path, errors="replace").read()
    i = txt.find("Invariant NoBad is violated")
    if i < 0:
        return None, []
    tail = txt[i:]
    ls = re.findall(r"/\\ l = (\d+)", tail)
    m = re.findall(r'<<"([^"]+)", "([^"]*)", (\d+)>>', tail)
    return (int(ls[-1]) if ls else None), [(a, b, int(c)) for a, b, c in m]


def judge(ctx, lines, name):
    """One single-worker TLC process judges these log lines. Returns (line number of a violated state or None, bad)."""
    path = os.path.join(ctx.work, name + ".ndjson")
    with open(path, "w") as f:
        f.writelines(lines)
    # (several JVMs side by side: keep each one's collector small)
    r = ctx.tlc("Linearize", "TraceLinearize", "Trace.cfg", name=name, env={"TRACE": path, "JAVA_TOOL_OPTIONS": "-XX:ParallelGCThreads=2"},
                expect_violation=True, workers=1, xmx="4g", timeout=3000)
    if r.error:
        raise vflib.InfraError(r.error + " (log %s)" % r.log_path)
    if not r.violated:
        if r.distinct != 2 * len(lines):
            raise vflib.InfraError("TLC judged %d of %d logged clusters (log %s)" % (r.distinct // 2, len(lines), r.log_path))
        os.remove(path)
        return None, []
    if r.violated != "NoBad":
        raise vflib.InfraError("unexpected violation %s (log %s)" % (r.violated, r.log_path))
    l, bad = parse_bad(r.log_path)
    if l is None or not bad:
        raise vflib.InfraError("cannot parse the violated state (log %s)" % r.log_path)
    return l, bad


def validate(ctx, binary, lines, origins, name, per_process=6000):
    """TLC judges every logged cluster; origins[i] = (mode, input) that reproduces lines[i]. The log is split over
    single-worker TLC processes run side by side (a multi-worker TLC parses the whole log once per worker)."""
    import concurrent.futures
    if not lines:
        raise vflib.InfraError("empty log")
    jobs = max(1, min(vflib.free_cpus(), 16))
    nparts = max(jobs if len(lines) >= 40 * jobs else 1, (len(lines) + per_process - 1) // per_process)
    parts = [list(range(k, len(lines), nparts)) for k in range(nparts)]
    reported = 0

    def work(k):
        return k, judge(ctx, [lines[j] for j in parts[k]], "%s-%d" % (name, k))
    with concurrent.futures.ThreadPoolExecutor(max_workers=jobs) as ex:
        results = sorted(ex.map(work, range(nparts)))
    for k, (l, bad) in results:
        index = parts[k]
        attempt = 0
        while l is not None and reported < 4:
            i = index[l - 1]
            line = json.loads(lines[i])
            clauses = sorted(set(b[0] for b in bad))
            model = [c for c in clauses if c.startswith("model:")]
            code = [c for c in clauses if not c.startswith("model:") and not c.startswith("harness:")]
            cluster = {f: line[f] for f in ("n", "par", "fee", "size")}
            if model:
                raise vflib.InfraError("specification defect: %s on cluster %s" % (model, json.dumps(cluster)))
            if not code:
                raise vflib.InfraError("harness contract broken: %s on cluster %s" % (clauses, json.dumps(cluster)))
            records = [dict(clause=a, record=explain(line, f, n)) for a, f, n in bad[:6]]
            mode, inp = origins[i]
            what = "%s on cluster %s; e.g. %s" % (", ".join(code), json.dumps(cluster)[:260], json.dumps(records[0]["record"])[:260])

            def confirm(mode=mode, inp=inp, code=code):
                again = rejudge(ctx, binary, mode, inp)
                return any(c in again for c in code)
            ctx.violation("clause:" + code[0], what, dict(adapter="linearize", mode=mode, input=inp, cluster=cluster, clauses=clauses,
                                                           records=records), confirm=confirm)
            reported += 1
            # one more look at the rest of this part (other clauses may be violated elsewhere)
            index = index[:l - 1] + index[l:]
            attempt += 1
            if attempt > 1 or not index:
                break
            l, bad = judge(ctx, [lines[j] for j in index], "%s-%d-again" % (name, k))
    ctx.traces += len(lines)


def explain(line, field, k):
    """The offending record with the order indices resolved."""
    if field not in line or not (0 < k <= len(line[field])):
        return None
    rec = line[field][k - 1]
    L = lambda i: (line["L"][i - 1] if 0 < i <= len(line["L"]) else None)
    if field == "lins":
        return dict(call="Linearize", old_linearization=L(rec[0]), is_topological=bool(rec[1]), result=L(rec[2]), optimal=bool(rec[3]))
    if field == "posts":
        return dict(call="PostLinearize", input=L(rec[0]), result=L(rec[1]))
    if field == "chk":
        return dict(call="ChunkLinearization", linearization=L(rec[0]), feerates=rec[1], info_feerates=rec[2], info_sets=rec[3])
    if field == "cmp":
        return dict(call="CompareChunks", a=L(rec[0]), b=L(rec[1]), result=rec[2], swapped=rec[3])
    return rec


def rejudge(ctx, binary, mode, inp):
    """Run the harness on one input line again and let TLC judge the log; returns the violated clause names."""
    items = inp if isinstance(inp, list) else [inp]
    res = ctx.run_harness(binary, mode, [x if isinstance(x, str) else json.dumps(x) for x in items], args=[ctx.seed], nproc=1, name="confirm")
    if res["aborts"]:
        return ["abort"]
    t = os.path.join(ctx.work, "confirm.in.0.trace")
    r = ctx.tlc("Linearize", "TraceLinearize", "Trace.cfg", name="confirm-trace", env={"TRACE": t}, expect_violation=True, workers=1)
    if r.error:
        raise vflib.InfraError(r.error)
    _, bad = parse_bad(r.log_path)
    return sorted(set(b[0] for b in bad))


def drive_harness(ctx, binary, mode, items, name, reproduce):
    """Run the adapter over the items; returns (log lines, origins, summary). reproduce(shard, nproc) -> harness input that
    reproduces that shard's k-th log line. Aborts inside the code under test are violations."""
    res = ctx.run_harness(binary, mode, items, args=[ctx.seed], name=name)
    vflib.report_mismatches(ctx, binary, mode, res, args=[ctx.seed], adapter="linearize", what_prefix="Linearize %s: " % name,
                            key_fn=lambda m, case: "abort:" + vflib.digest(m.get("why")))
    nproc = res["nproc"]
    lines, origins = [], []
    for s in range(nproc):
        p = os.path.join(ctx.work, "%s.in.%d.trace" % (name, s))
        if os.path.exists(p):
            for k, ln in enumerate(open(p)):
                lines.append(ln); origins.append((mode, reproduce(s, k, nproc)))
            os.remove(p)
    return lines, origins, res


def run(ctx):
    binary = ctx.build_adapter("linearize")
    quick = ctx.tier == "quick"
    row_cfgs = ["Rows_quick.cfg"] if quick else ["Rows_quick.cfg", "Rows_thorough4.cfg", "Rows_thorough5.cfg"]
    totals = {k: 0 for k in VAL_KEYS}
    shapes = {}
    all_lines, all_origins = [], []
    for cfg in row_cfgs:
        name = cfg[:-4]
        r = ctx.tlc("Linearize", "Linearize", cfg)
        rows = open(r.emit_path).readlines()
        if len(rows) * 2 != r.distinct or not rows:
            raise vflib.InfraError("%s: %d rows for %d states" % (cfg, len(rows), r.distinct))
        lines, origins, res = drive_harness(ctx, binary, "rows", rows, name, lambda s, k, nproc, rows=rows: rows[k * nproc + s].strip())
        for k in VAL_KEYS:
            totals[k] += int(res["summary"].get(k, 0))
        if not res["aborts"] and len(lines) != len(rows):
            raise vflib.InfraError("%s: %d log lines for %d rows" % (cfg, len(lines), len(rows)))
        for ln in rows:
            row = json.loads(ln)
            deps = sum(len(p) for p in row["par"])
            shapes[(row["n"], deps)] = shapes.get((row["n"], deps), 0) + 1
            if deps and len(set(zip(row["fee"], row["size"]))) > 1:
                ctx.nontrivial.add(vflib.digest([row["n"], row["par"], row["fee"], row["size"]]))
        ctx.sample(dict(row=json.loads(rows[len(rows) // 2]), logged=json.loads(lines[len(lines) // 2])))
        ctx.log("%s: %d clusters driven through the real classes" % (cfg, len(rows)))
        all_lines += lines; all_origins += origins
    # seeded random clusters: 5-8 transactions with the brute-force optimum, 9-64 without
    if quick:
        jobs = [dict(seed=ctx.seed * 1000 + k, count=8, nmin=5, nmax=5) for k in range(4)] + \
               [dict(seed=ctx.seed * 1000 + 50 + k, count=15, nmin=6, nmax=7) for k in range(16)] + \
               [dict(seed=ctx.seed * 1000 + 100 + k, count=1, nmin=8, nmax=8) for k in range(4)] + \
               [dict(seed=ctx.seed * 1000 + 200 + k, count=4, nmin=9, nmax=64) for k in range(8)]
    else:
        jobs = [dict(seed=ctx.seed * 1000 + k, count=25, nmin=5, nmax=5) for k in range(16)] + \
               [dict(seed=ctx.seed * 1000 + 50 + k, count=25, nmin=6, nmax=7) for k in range(96)] + \
               [dict(seed=ctx.seed * 1000 + 100 + k, count=5, nmin=8, nmax=8) for k in range(32)] + \
               [dict(seed=ctx.seed * 1000 + 200 + k, count=15, nmin=9, nmax=64) for k in range(64)]
    lines, origins, res = drive_harness(ctx, binary, "drive", jobs, "random", lambda s, k, nproc: jobs[s::nproc])
    for k in VAL_KEYS:
        totals[k] += int(res["summary"].get(k, 0))
    nrand = len(lines)
    if not res["aborts"] and nrand != sum(j["count"] for j in jobs):
        raise vflib.InfraError("random driver logged %d clusters for %d requested" % (nrand, sum(j["count"] for j in jobs)))
    for ln in lines:
        o = json.loads(ln)
        ctx.nontrivial.add(vflib.digest([o["n"], o["par"], o["fee"], o["size"]]))
    all_lines += lines; all_origins += origins
    # every logged cluster is judged by the specification
    validate(ctx, binary, all_lines, all_origins, "judge")
    # vacuity: the interesting outcomes occurred
    for k in ("optimal_results", "not_optimal_results", "linearize_changed_input", "postlinearize_changed_input"):
        if not totals[k] and not ctx.violations:
            raise vflib.InfraError("vacuity: %s = 0 (%s)" % (k, totals))
    ctx.evaluations = totals["linearize_calls"] + totals["postlinearize_calls"] + totals["chunkings"] + totals["comparisons"]
    ctx.extra["implementation_calls"] = totals
    ctx.extra["random_clusters"] = nrand
    ctx.extra["enumerated_clusters_by_(n,dependencies)"] = {"%d,%d" % k: v for k, v in sorted(shapes.items())}
    ctx.assumptions += ["exhaustive only over the bounded cluster domain (see specs/Linearize/Rows_*.cfg); larger clusters are seeded samples",
                        "optimality is decided by brute force over all topological orders, hence only for clusters of <= 8 transactions",
                        "extreme fee/size magnitudes are reached by scaling small-integer clusters by (K, M); the specification's relations are scale invariant"]
    return ctx.finish(level="model_checking", exhaustive=True,
                      rule="every cluster of the TLC-enumerated domain x {no input, every topological order, reversed/shuffled orders not claimed "
                           "topological} x ~9 cost budgets x 2 rng seeds x 4 placements/scalings, plus seeded random clusters of 5-64 transactions; "
                           "non-trivial = distinct clusters with at least one dependency and at least two different (fee, size) values")


def replay(ctx, path):
    o = json.load(open(path))
    binary = ctx.build_adapter("linearize")
    if o.get("case") is not None:            # an abort inside the code under test
        return vflib.generic_replay(ctx, path)
    inp = o["input"]
    items = inp if isinstance(inp, list) else [inp]
    res = ctx.run_harness(binary, o["mode"], [x if isinstance(x, str) else json.dumps(x) for x in items], args=[ctx.seed], nproc=1, name="replay")
    if res["aborts"]:
        print("REPLAY result: still fails (abort)"); return 1
    t = os.path.join(ctx.work, "replay.in.0.trace")
    r = ctx.tlc("Linearize", "TraceLinearize", "Trace.cfg", name="replay-trace", env={"TRACE": t}, expect_violation=True, workers=1)
    _, bad = parse_bad(r.log_path)
    for b in bad[:10]:
        print("REPLAY violated clause:", b)
    print("REPLAY result: %s" % ("still fails" if bad else "passes"))
    return 1 if bad else 0
