"""C10 — signature checks accept exactly valid signatures over the right message (specs/Sighash, engine E4)."""
import collections, json
import vflib

META = dict(
    engine="E4",
    level="model_checking",
    text="The three signature-digest algorithms (legacy, BIP143, BIP341/342) are written in TLA+ as tuples of the fields they hash (hash = "
         "injective constructor), next to the declarative table Commits(sigversion, hash type, field, position relative to the signed input) "
         "taken from the BIPs. TLC proves, for every base transaction shape x hash type {0,1,2,3,4,0x41,0x81,0x82,0x83,0xff,0x101} x "
         "sigversion {BASE, WITNESS_V0, TAPROOT, TAPSCRIPT} x signed input x single-field mutation (prevout, nSequence, scriptSig, witness, "
         "spent amount, spent script of each input; value, script of each output; version, locktime, scriptCode/leaf, codeseparator position, "
         "annex, hash type, appended input/output, signed input moved to another index), that the digest changes iff the field is committed, "
         "including the legacy SIGHASH_SINGLE constant-1 digest and the BIP341 failure cases. Every row is replayed on the real code: "
         "SignatureHash / SignatureHashSchnorr for base and mutated transaction in every cache mode (PrecomputedTransactionData, primed "
         "SigHashCache, reused ScriptExecutionData, both transaction classes) must agree with each other and be equal/unequal as the "
         "specification says; then the base digest is signed with a real key and VerifyScript is run on P2PK, three-signature bare script, "
         "P2WPKH, P2WSH, three-signature P2WSH, P2TR key path and a tapscript leaf, in the base and the mutated context, with the signature "
         "untouched, bit-flipped, high-S (with and without LOW_S) or made by another key: accept <=> specification. "
         "The midstate cache is additionally modelled as a stateful object (SigCache.tla: six slots keyed by hash type class, each holding a "
         "scriptCode and the preimage up to the hash type); TLC proves on every transition of the bounded graph that the digest through the "
         "cache equals the stateless digest and that a signature for scriptCode A is accepted while B executes iff A = B (or nothing is "
         "committed), and every transition - sequences of 2-3 (thorough 4) checks with equal, equal-length-but-different and different-length "
         "scriptCodes - is replayed through one real SigHashCache and one real checker object per behaviour.",
    note="The mathematics of ECDSA / BIP340 verification (secp256k1) is trusted: only which message is signed and whether an untouched / "
         "altered signature or key is accepted is checked. Hash functions are assumed collision free (the model's digest is the tuple of "
         "hashed fields; only equality of real digests is compared, not their byte layout). FindAndDelete and the OP_CODESEPARATOR position "
         "of legacy/v0 scripts are abstracted as part of scriptCode. Domain: 1-2 (thorough: 1-3) inputs, 1-3 outputs, one changed field at a time; "
         "the three-signature script always uses the hash types (ht, ht xor 0x80, ALL-or-SINGLE).",
    technique="TLA+ digest constructors = declarative commitment table (TLC, exhaustive on the domain); oracle table replayed on SignatureHash*, "
              "real signatures through VerifyScript; stateful SigHashCache model with graph replay through one real cache / checker",
)

KINDS = ("none", "version", "locktime", "prevout", "sequence", "scriptsig", "witness", "amount", "spk", "outvalue", "outscript", "code",
         "leaf", "codesep", "annex", "ht", "addin", "addout", "swap")


def run_cache(ctx, binary):
    """The SigHashCache / the per-input checker as a stateful object (specs/Sighash/SigCache.tla, engine E1): every transition of the
    bounded state graph (sequences of signature checks through one cache with equal, equal-length-but-different and different-length
    scriptCodes) is replayed on one real SigHashCache and one real checker; the property clauses are TLC action properties."""
    cfg = "E1_cache_quick.cfg" if ctx.tier == "quick" else "E1_cache_thorough.cfg"
    r = ctx.tlc("Sighash", "SigCache", cfg)
    g = vflib.Graph(vflib.load_emitted(r.emit_path))
    tests = []
    kinds = collections.Counter()
    slot = lambda ht: 3 * ((ht >> 7) & 1) + 2 * ((ht & 31) == 3) + ((ht & 31) == 2)
    length = lambda code: 36 if code == 3 else 35
    for t in g.edge_tests():
        for st in t["steps"]:
            st["exp"] = None                      # the cache content is not observable; results are compared at every step
        acts = [st["a"] for st in t["steps"]]
        for prev, cur in zip(acts, acts[1:]):
            if slot(prev[3]) == slot(cur[3]):
                k = "same_code" if prev[2] == cur[2] else "same_length_other_code" if length(prev[2]) == length(cur[2]) else "other_length"
                kinds["consecutive_same_slot/" + k] += 1
        kinds["accepting" if t["steps"][-1]["r"]["ok"] else "rejecting"] += 1
        if len(acts) >= 2:
            ctx.nontrivial.add(vflib.digest([t["init"]["sv"], t["init"]["ctx"]["i"], acts]))
        tests.append(t)
    for k in ("consecutive_same_slot/same_code", "consecutive_same_slot/same_length_other_code", "consecutive_same_slot/other_length", "accepting", "rejecting"):
        if not kinds[k]:
            raise vflib.InfraError("vacuity: no cache behaviour of class " + k)
    ctx.log("E1 SigCache: %d states, %d transitions -> %d implementation tests" % (len(g.nodes), g.nedges, len(tests)))
    res = ctx.run_harness(binary, "cache", tests, name="cache")
    ctx.traces += int(res["summary"]["tests"])
    ctx.evaluations += 3 * int(res["summary"].get("cache_requests", 0))
    ctx.extra["cache_behaviours"] = dict(kinds, tests=len(tests), requests=int(res["summary"].get("cache_requests", 0)))
    vflib.report_mismatches(ctx, binary, "cache", res, adapter="sighash", what_prefix="SigCache: ")


def run(ctx):
    binary = ctx.build_adapter("sighash")
    cfg = "MC_quick.cfg" if ctx.tier == "quick" else "MC_thorough.cfg"
    r = ctx.tlc("Sighash", "Sighash", cfg)
    rows = [json.loads(l) for l in open(r.emit_path)]
    if len(rows) != r.distinct:
        raise vflib.InfraError("emitted %d rows for %d distinct states" % (len(rows), r.distinct))
    # vacuity guards: every mutation kind occurs, both verdicts occur for the kinds where the table has both, special digests occur
    per = collections.Counter((x["sv"], x["mut"]["k"], x["changed"]) for x in rows)
    kinds = collections.Counter(x["mut"]["k"] for x in rows)
    for k in KINDS:
        if not kinds[k]:
            raise vflib.InfraError("vacuity: no row with mutation " + k)
    for sv in ("BASE", "WITNESS_V0", "TAPROOT", "TAPSCRIPT"):
        for k in ("prevout", "sequence", "outvalue", "outscript", "addin", "addout", "swap"):
            if not per[(sv, k, True)] or not per[(sv, k, False)]:
                raise vflib.InfraError("vacuity: mutation %s under %s never %s" % (k, sv, "changes" if not per[(sv, k, True)] else "keeps"))
    if not any(x["one"] for x in rows) or not any(not x["valid"] for x in rows) or not any(x["valid"] and not x["mvalid"] for x in rows):
        raise vflib.InfraError("vacuity: no constant-1 digest / invalid context / mutation into an invalid context among the rows")
    if not any(x["multi"]["run"] and x["multi"]["ok"] for x in rows) or not any(x["multi"]["run"] and not x["multi"]["ok"] for x in rows):
        raise vflib.InfraError("vacuity: three-signature rows lack an accepting or a rejecting case")
    res = ctx.run_harness(binary, "table", rows)
    s = res["summary"]
    ctx.evaluations = int(s.get("digest_evaluations", 0)) + int(s.get("script_verifications", 0))
    ctx.traces = int(s["tests"])
    ctx.nontrivial = set(vflib.digest([x["sv"], x["base"], x["mut"]]) for x in rows if x["mut"]["k"] != "none")
    ctx.extra["rows_per_sigversion_mutation_changed"] = {"%s/%s/%s" % k: v for k, v in sorted(per.items())}
    ctx.extra["script_rows"] = int(s.get("script_rows", 0))
    ctx.extra["signatures_made"] = int(s.get("signatures_made", 0))
    ctx.extra["script_verifications"] = int(s.get("script_verifications", 0))
    ctx.extra["digest_evaluations"] = int(s.get("digest_evaluations", 0))
    if not ctx.extra["script_rows"] or not ctx.extra["signatures_made"]:
        raise vflib.InfraError("vacuity: no script-level verification was run")
    for i in (0, len(rows) // 3, len(rows) - 1):
        x = rows[i]
        ctx.sample(dict(sv=x["sv"], ht=x["base"]["ht"], i=x["base"]["i"], nin=len(x["base"]["ins"]), nout=len(x["base"]["outs"]),
                        mut=x["mut"], changed=x["changed"], valid=x["valid"]))
    vflib.report_mismatches(ctx, binary, "table", res, adapter="sighash", what_prefix="Sighash: ",
                            key_fn=lambda m, case: "row:" + vflib.digest(m.get("why")))
    run_cache(ctx, binary)
    ctx.assumptions += ["ECDSA / BIP340 verification itself (secp256k1) is correct", "SHA256 is collision free",
                        "several simultaneous field changes behave like the union of the single changes"]
    return ctx.finish(level="model_checking", exhaustive=True,
                      rule="every (sigversion, shape, signed input, hash type, single-field mutation) of the bounded domain; non-trivial = rows with a mutation")
