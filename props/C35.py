"""C35 — the orphan pool stays bounded and peers cannot evict each other's orphans (specs/Orphanage, engines E1 + E2)."""
import collections, concurrent.futures, json, os
import vflib

META = dict(
    engine="E1",
    level="model_checking",
    text="The orphanage is specified in TLA+ at the announcement level as txorphanage.cpp implements it (announcements with entry order and "
         "reconsider flag, the unique-orphan and work-set bookkeeping, LimitOrphans as the heap loop with exact DoS-score fractions). TLC proves "
         "on bounded universes that after every call the pool is within the global announcement/latency/usage limits, an orphan is present iff it "
         "has an announcement, every call removes exactly the affected announcements before limiting, and limiting takes announcements only from "
         "peers above their own share and only while they are above it. Every transition of the small state graph (E1) and sampled long behaviours "
         "of a larger universe (E2) are replayed on a real node::TxOrphanage with real transactions of the model's weights, input counts and prevouts, "
         "comparing the whole query interface and the return value after each call, with SanityCheck() after each call.",
    note="Bounded: 2-3 peers, 3-6 orphan shapes (weights 400..3602 plus one above MAX_STANDARD_TX_WEIGHT, 1/2/10/20 inputs, a same-txid pair), tiny limits "
         "(max latency score 4-8, reserved usage 1200-2500). max_global_latency_score >= number of peers is assumed (otherwise the code asserts). "
         "C35 is an invariant/relation property: when the implementation's outcome differs from the deterministic model, TLC evaluates the property's "
         "clauses on the observed step (OrphanageStep) and only a failed clause is a violation; eviction order/tie-breaks the statement is silent about are not.",
    technique="TLA+ spec Orphanage + TLC exhaustive state graph replay (one implementation test per transition) + TLC -simulate behaviours replayed; "
              "observed deviations judged by TLC against the clause operators",
)

ACTIONS = ("addtx", "addannouncer", "erasetx", "eraseforpeer", "eraseforblock", "addchildren", "gettx")


def split_emitted(path):
    """The spec prints its universe (ASSUME) and then one edge per transition."""
    universe, edges_path = None, path + ".edges"
    n = 0
    with open(path) as f, open(edges_path, "w") as out:
        for ln in f:
            if '"kind":"universe"' in ln[:40] or (universe is None and '"kind"' in ln and '"universe"' in ln and '"a":' not in ln):
                universe = json.loads(ln)
            else:
                out.write(ln); n += 1
    if universe is None:
        raise vflib.InfraError("the specification did not print its universe (%s)" % path)
    return universe, edges_path, n


def sim_chain(path):
    """Behaviours of a -simulate run. TLC evaluates the ACTION_CONSTRAINT for every successor of the action it picked, so an action
    with several successors (AddChildren: one per choice of announcers) prints several candidate lines with the same level; the
    successor actually taken is the candidate whose target is the source of the next step (vflib.sim_behaviours assumes one line per
    step). A trailing step whose choice cannot be told is dropped."""
    def groups():        # consecutive lines with the same level and source state = the candidates of one step
        cur = None
        with open(path) as f:
            for ln in f:
                e = json.loads(ln)
                kf = vflib.canon(e["f"])
                if cur and cur[0] == e["l"] and cur[1] == kf:
                    cur[2].append(e)
                else:
                    if cur:
                        yield cur
                    cur = (e["l"], kf, [e])
        if cur:
            yield cur
        yield None

    beh, at, cut, prev = None, None, False, None
    for nxt in groups():
        g, prev = prev, nxt
        if g is None:
            continue
        l, kf, cands = g
        if l == 1:
            if beh and beh["steps"]:
                yield beh
            beh, at, cut = dict(init=cands[0]["f"], steps=[]), kf, False
        if beh is None or cut:
            continue
        if kf != at:
            raise vflib.InfraError("simulation output is not a chain (level %d)" % l)
        follows = nxt is not None and nxt[0] == l + 1
        if len(cands) == 1:
            e = cands[0]
        elif not follows:
            cut = True
            continue
        else:
            m = [c for c in cands if vflib.canon(c["t"]) == nxt[1]]
            if not m:
                raise vflib.InfraError("simulation output: no candidate leads to the next source state (level %d)" % l)
            e = m[0]
        beh["steps"].append(dict(a=e["a"], r=e.get("r"), exp=e["t"]))
        at = vflib.canon(e["t"])
    if beh and beh["steps"]:
        yield beh


def judge_deviations(ctx, res, step_cfg, what):
    """Outcome differs from the deterministic model: TLC decides, clause by clause, whether the observed step violates C35."""
    devs = res["deviations"]
    ctx.extra["deviations"] = ctx.extra.get("deviations", 0) + int(res["summary"].get("deviations", 0))
    if not devs:
        return
    recs = {}
    for d in devs:
        case = json.loads(res["lines"][d["index"]])
        k = d["step"]
        pre = case["init"]["state"]["hidden"] if k == 0 else case["steps"][k - 1]["exp"]["hidden"]
        st = dict(d["state"]); r = st.pop("res")
        rec = dict(pre=pre, act=d["action"], res=r, post=st)
        recs.setdefault(vflib.canon(rec), (rec, d, case))
    keys = list(recs)[:4000]
    path = os.path.join(ctx.work, "steps-%s.ndjson" % what)
    with open(path, "w") as f:
        for k in keys:
            f.write(json.dumps(recs[k][0]) + "\n")
    r = ctx.tlc("Orphanage", "OrphanageStep", step_cfg, name="judge-" + what, env={"STEPS": path}, workers=1, timeout=1200)
    verdicts = {}
    for ln in open(r.emit_path):
        o = json.loads(ln)
        if o.get("kind") == "verdict":
            verdicts[o["i"]] = o["verdict"]
    if len(verdicts) != len(keys):
        raise vflib.InfraError("OrphanageStep judged %d of %d observed steps (log %s)" % (len(verdicts), len(keys), r.log_path))
    benign = 0
    reported = collections.Counter()
    for i, k in enumerate(keys, 1):
        rec, d, case = recs[k]
        v = verdicts[i]
        if v == "ok":
            benign += 1
            continue
        if reported[v] >= 3:
            continue
        reported[v] += 1
        case = dict(case); case["steps"] = case["steps"][:d["step"] + 1]
        ctx.violation("clause:%s:%s" % (v, vflib.digest([rec["pre"], rec["act"]])),
                      "Orphanage %s: after %s the implementation's observed step breaks clause '%s' of C35 (%s); observed result %s, state %s" % (
                          what, vflib.canon(d["action"]), v, d["why"], vflib.canon(rec["res"]), vflib.canon(rec["post"])[:300]),
                      dict(adapter="orphanage", mode="replay", args=[], case=case, mismatch=d, clause=v))
    ctx.extra["benign_deviations"] = ctx.extra.get("benign_deviations", 0) + benign
    ctx.log("%s: %d distinct deviating steps judged by TLC: %d admissible under C35, %d violate a clause" % (what, len(keys), benign, len(keys) - benign))


def run(ctx):
    binary = ctx.build_adapter("orphanage")
    quick = ctx.tier == "quick"
    per_action = collections.Counter()
    evicting = collections.Counter()
    stats = collections.Counter()

    def replay(tests, what, step_cfg):
        res = ctx.run_harness(binary, "replay", tests, name=what)
        ctx.evaluations += int(res["summary"]["tests"]); ctx.traces += int(res["summary"]["tests"])
        ctx.extra["replayed_steps"] = ctx.extra.get("replayed_steps", 0) + int(res["summary"]["steps"])
        for k in ("pick_searches", "picks_not_reproduced"):
            ctx.extra[k] = ctx.extra.get(k, 0) + int(res["summary"].get(k, 0))
        vflib.report_mismatches(ctx, binary, "replay", res, adapter="orphanage", what_prefix="Orphanage %s: " % what)
        judge_deviations(ctx, res, step_cfg, what)

    # ---- thorough: model checking without emission on universes too large to replay exhaustively (the E1 and Sim configurations below
    # are model-checked with the same invariants and action properties in the runs that emit them).
    # C35_SKIP_MC=1 skips these pure TLC runs: a convenience for tools/mutcheck.sh, where only the C++ changes.
    for mc in ([] if quick or os.environ.get("C35_SKIP_MC") else ["MC_S3.cfg", "MC_T.cfg"]):
        ctx.tlc("Orphanage", "MCOrphanage", mc, timeout=2400)

    # ---- E1: every transition of the bounded state graph (invariants and action properties are checked in the same run)
    for e1, step_cfg in ([("E1_S.cfg", "Step_S.cfg"), ("E1_P3.cfg", "Step_P3.cfg")] if quick else
                         [("E1_S.cfg", "Step_S.cfg"), ("E1_P3.cfg", "Step_P3.cfg"), ("E1_T4.cfg", "Step_T4.cfg")]):
        r = ctx.tlc("Orphanage", "MCOrphanage", e1, name=e1[:-4], timeout=2400)
        universe, edges_path, n = split_emitted(r.emit_path)
        g = vflib.Graph(vflib.load_emitted(edges_path))
        tests = []
        for t in g.edge_tests():
            t["init"] = dict(universe=universe, state=t["init"])
            tests.append(t)
            last = t["steps"][-1]
            per_action[last["a"][0]] += 1
            if last["r"]["ev"] > 0:
                evicting[last["a"][0]] += 1
                ctx.nontrivial.add(vflib.digest([s["a"] for s in t["steps"]]))
            elif last["a"][0] in ("eraseforpeer", "eraseforblock", "erasetx") and last["exp"]["g"]["nann"] < (t["steps"][-2]["exp"]["g"]["nann"] if len(t["steps"]) > 1 else 0):
                ctx.nontrivial.add(vflib.digest([s["a"] for s in t["steps"]]))
            if last["a"][0] == "addchildren" and last["a"][2]:
                stats["addchildren_marking"] += 1
            prev = t["steps"][-2]["exp"] if len(t["steps"]) > 1 else t["init"]["state"]
            if last["a"][0] == "addtx" and prev["ann"][last["a"][1]] and last["a"][2] not in prev["ann"][last["a"][1]]:
                stats["addtx_by_second_announcer"] += 1      # same orphan, another peer's copy of the transaction
            if last["a"][0] in ("eraseforpeer", "eraseforblock", "addtx", "addannouncer") and any(
                    0 < len(last["exp"]["ann"][x]) < len(prev["ann"][x]) for x in prev["ann"]):
                stats["one_of_several_announcements_removed"] += 1
            if last["a"][0] == "gettx" and last["r"]["res"] != "none":
                stats["gettx_returning"] += 1
        mid_t = tests[len(tests) // 2]
        ctx.sample(dict(actions=[s["a"] for s in mid_t["steps"]], expected_result=mid_t["steps"][-1]["r"], expected_final=mid_t["steps"][-1]["exp"]))
        ctx.log("E1 %s: %d states, %d transitions -> %d implementation tests" % (e1, len(g.nodes), g.nedges, len(tests)))
        replay(tests, e1[:-4], step_cfg)

    # ---- E2: sampled long behaviours of the larger universe (3 peers, 6 orphan shapes). TLC -simulate is single-threaded: several
    # simulations run side by side, told apart by -aril (same VERIF_SEED => same behaviours).
    nsim, num, depth = (8, 150, 40) if quick else (8, 700, 60)
    before = (ctx.states, ctx.transitions)
    with concurrent.futures.ThreadPoolExecutor(max_workers=max(1, min(nsim, vflib.free_cpus() if hasattr(vflib, 'free_cpus') else nsim))) as ex:
        futs = [ex.submit(ctx.tlc, "Orphanage", "MCOrphanage", "Sim_L.cfg", name="Sim_L-%d" % i, simulate=(num, depth),
                          extra_args=["-aril", str(i)], xmx="2g", timeout=2400) for i in range(nsim)]
        sims = [f.result() for f in futs]
    ctx.states = before[0] + sum(r.generated for r in sims); ctx.transitions = before[1] + sum(r.generated for r in sims)
    universe, n = None, 0
    edges_path = os.path.join(ctx.work, "Sim_L.edges.ndjson")
    with open(edges_path, "w") as out:
        for r in sims:
            universe, ep, k = split_emitted(r.emit_path)
            n += k
            with open(ep) as f:
                for ln in f:
                    out.write(ln)
    tests = []
    for t in sim_chain(edges_path):
        t["init"] = dict(universe=universe, state=t["init"])
        tests.append(t)
        evs = 0
        for s in t["steps"]:
            a = s["a"][0]
            per_action[a] += 1
            if s["r"]["ev"] > 0:
                evicting[a] += 1; evs += 1
            if a == "addchildren" and s["a"][2]:
                stats["addchildren_marking"] += 1
            if a == "gettx" and s["r"]["res"] != "none":
                stats["gettx_returning"] += 1
        if evs:
            ctx.nontrivial.add(vflib.digest([s["a"] for s in t["steps"]]))
    if tests:
        ctx.sample(dict(actions=[s["a"] for s in tests[0]["steps"]][:12], expected_after_12=tests[0]["steps"][min(11, len(tests[0]["steps"]) - 1)]["exp"]))
    ctx.log("E2 Sim_L: %d behaviours, %d steps" % (len(tests), n))
    replay(tests, "Sim_L", "Step_L.cfg")

    # ---- vacuity guards
    missing = [a for a in ACTIONS if not per_action[a]]
    if missing:
        raise vflib.InfraError("vacuity: actions never taken in the bounded models: %s" % missing)
    if not stats["addtx_by_second_announcer"] or not stats["one_of_several_announcements_removed"]:
        raise vflib.InfraError("vacuity: no AddTx of a present orphan by a second peer / no removal of one of several announcements: %s" % dict(stats))
    if not evicting or not stats["addchildren_marking"] or not stats["gettx_returning"]:
        raise vflib.InfraError("vacuity: no eviction / no reconsideration in the explored behaviours: %s %s" % (dict(evicting), dict(stats)))
    for a in ("addtx", "addannouncer", "eraseforpeer"):
        if not evicting[a]:
            raise vflib.InfraError("vacuity: limiting never evicts after %s" % a)
    ctx.extra["transitions_per_action"] = dict(per_action)
    ctx.extra["evicting_transitions_per_action"] = dict(evicting)
    ctx.extra.update(stats)
    ctx.assumptions += ["bounded universes: 2-3 peers, 3-6 orphan shapes, max_global_latency_score 4-8, reserved_peer_usage 1200-2500",
                        "max_global_latency_score >= number of peers with orphans (otherwise MaxPeerLatencyScore() is 0 and GetDosScore asserts)",
                        "entry order and reconsider flags are not observable through the query interface; they are bound through the results of later calls",
                        "where the statement is silent (which of several over-share peers / which of a peer's announcements is evicted first, which announcer "
                        "gets the reconsideration) a different choice of the implementation is accepted if TLC finds every clause of C35 true on the observed step"]
    return ctx.finish(level="model_checking", exhaustive=True,
                      rule="E1: one implementation test per transition of the bounded Orphanage state graph (BFS-tree path to the source state + the edge); "
                           "E2: TLC -simulate behaviours of the larger universe replayed whole; non-trivial = distinct action sequences in which limiting "
                           "evicts at least one announcement or an erase call removes one")
