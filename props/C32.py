"""C32 — peer transports deliver exactly the messages sent, or detect tampering (specs/Transport, engine E2 + exhaustive TLC)."""
import collections, concurrent.futures, json, os, random
import vflib

META = dict(
    engine="E2",
    level="model_checking",
    text="The v1 and v2 (BIP324) transports are specified in TLA+ as two endpoints with the send and receive state machines of V1Transport / "
         "V2Transport (initiator/responder asymmetry, v1 fallback of the responder, key / garbage / terminator / version / application packets, "
         "decoys, short ids vs 12-byte type names, SetMessageToSend refused while the send buffer is busy) over a wire of abstract units with "
         "byte lengths, delivered in arbitrary fragments, with one optional flipped bit. TLC proves on bounded instances that what is received "
         "is a prefix of what was sent and all of it once everything is delivered, that both sides derive the same session id, that after a "
         "flipped bit in v2 nothing from the damaged unit on is delivered and the connection has failed once the receiver has consumed the "
         "stream up to where the damage must show, and that in v1 exactly the message whose payload or checksum was damaged is missing. "
         "TLC -simulate behaviours (and, for sampled visited states, every alternative next call) are replayed on two real transport objects "
         "wired back to back with real keys, garbage and ciphertext (v1-v1, v2-v2, v1 initiator to v2 responder), and on a real V2Transport "
         "against a scripted BIP324 peer that also sends decoys and non-empty version packets; after every call the call's result, the "
         "received (type, payload) sequences, failure flags, GetInfo() transport type, session id equality, the size of GetBytesToSend() "
         "and ReceivedMessageComplete() are compared with the specification.",
    note="The clause 'the ciphertext matches an independent BIP324 implementation' is out of scope (cipher fidelity: ChaCha20/Poly1305, HKDF and "
         "ElligatorSwift are abstracted; only lengths, framing, the short-id table and authentication outcomes are bound). Ciphers are abstract: "
         "a packet authenticates iff none of its bytes, neither public key and (first packet) no garbage byte was altered; the terminator and a "
         "packet's length field are not authenticated by themselves, the model follows the code (wrong terminator: garbage limit; wrong length: "
         "authentication failure at the wrong place). In v1 only payload/checksum damage is modelled (a damaged command or length is outside the "
         "statement). A v1 initiator that talks to a v2 responder opens with 'version'. Rekeying is crossed by a macro action (250 messages "
         "in a row). Bounded: exhaustive runs use 1-2 messages per side and fragment sizes from a small set; simulation uses realistic sizes "
         "(garbage 0..4095, payloads 0..70000 bytes; the thorough tier adds messages of the maximum size 4,000,000).",
    technique="TLA+ spec Transport + TLC exhaustive model checking of bounded instances + TLC -simulate behaviours replayed on real V1Transport/V2Transport pairs",
)

ACTIONS = ("send", "pump", "recv", "tamper", "burst", "decoy")
SIMS = (("Sim_v1.cfg", 1.4), ("Sim_v2.cfg", 1.0), ("Sim_s2.cfg", 1.4), ("Sim_lost.cfg", 0.4))     # configuration file, share of behaviours
SIMS_THOROUGH = SIMS + (("Sim_max.cfg", 0.15),)      # messages of the maximum size
LIGHT_JVM = {"JAVA_TOOL_OPTIONS": "-XX:ParallelGCThreads=2 -XX:TieredStopAtLevel=1"}   # short runs on a shared machine


def sim_tests(path, rng, fan_per_behaviour):
    """TLC -simulate prints, per visited state, the candidate transitions of the action it picked (same level l, same full-state key fk);
    the successor it chose is the source of the next group. Tests: the behaviour itself, plus (fan_per_behaviour sampled per behaviour)
    the path to a visited state followed by one of its other candidates (all of them are transitions of the specification).
    The lines are long: they are grouped on the raw text of their fields ({"l", "fk", "f", "a", "r", "tk", "t"} in this order) and only
    the transitions that end up in a test are parsed."""
    groups = []
    with open(path) as f:
        cur = None
        for ln in f:
            i_fk = ln.index('"fk":'); i_f = ln.index(',"f":{', i_fk); i_a = ln.index(',"a":[', i_f); i_r = ln.index(',"r":', i_a)
            i_tk = ln.index(',"tk":[', i_r); i_t = ln.index(',"t":{', i_tk)
            l = int(ln[ln.index('"l":') + 4:i_fk].strip(' ,'))
            kf, ka, kt = ln[i_fk + 5:i_f], ln[i_a + 5:i_r], ln[i_tk + 6:i_t]
            if cur is None or cur["l"] != l or cur["kf"] != kf:
                cur = dict(l=l, kf=kf, edges={})
                groups.append(cur)
            cur["edges"].setdefault((ka, kt), ln)
    behaviours, fans = [], []
    state = dict(steps=[], init=None, cand=[])

    def step_of(ln):
        e = json.loads(ln)
        return dict(a=e["a"], r=e["r"], exp=e["t"])

    def close():
        if state["steps"]:
            behaviours.append(dict(init=state["init"], steps=state["steps"]))
            cand = state["cand"]
            for n, ln in rng.sample(cand, min(fan_per_behaviour, len(cand))):
                fans.append(dict(init=state["init"], steps=state["steps"][:n] + [step_of(ln)]))
    for i, g in enumerate(groups):
        if g["l"] == 1:
            close()
            state = dict(steps=[], init=json.loads(next(iter(g["edges"].values())))["f"], cand=[])
        nxt = groups[i + 1] if i + 1 < len(groups) else None
        chosen = None
        if nxt is not None and nxt["l"] == g["l"] + 1:
            for (ka, kt), ln in g["edges"].items():
                if kt == nxt["kf"]:
                    chosen = (ka, kt)
                    break
            if chosen is None:
                raise vflib.InfraError("simulation output is not a chain at level %d (%s)" % (g["l"], path))
        if chosen is None:
            chosen = next(iter(g["edges"]))
        for k, ln in g["edges"].items():
            if k != chosen:
                state["cand"].append((len(state["steps"]), ln))
        state["steps"].append(step_of(g["edges"][chosen]))
    close()
    return behaviours, fans


def classify(t, stats):
    """What a replayed test exercises (vacuity guards and the non-trivial count)."""
    kinds = t["init"]["cfg"]["kind"]; scripted = t["init"]["cfg"]["scripted"]
    conf = "%s-%s" % tuple(("s2" if scripted[i] else kinds[i]) for i in (0, 1))
    tampered = None
    delivered = 0
    for s in t["steps"]:
        a = s["a"]
        if a[0] == "tamper":
            tampered = (a[4], a[5])
        if a[0] == "recv" and s["r"]["r"] == "ok":
            delivered += 1
            stats["delivered:" + conf] += 1
            if tampered:
                stats["delivered_after_tamper:" + conf] += 1
        if a[0] == "recv" and s["r"]["r"] == "reject":
            stats["rejected:" + conf] += 1
        if a[0] == "send":
            stats["send_%s" % ("accepted" if s["r"] else "refused")] += 1
        if a[0] == "pump" and not s["r"]["ok"]:
            stats["failed_after_tamper:%s/%s" % tampered] += 1
        if a[0] == "burst":
            stats["burst:" + conf] += 1
        if a[0] == "decoy":
            stats["decoy"] += 1
    last = t["steps"][-1]["exp"]
    if last["sideq"] == "eq":
        stats["session_ids_compared:" + conf] += 1
    if "v1" in last["ttype"] and conf == "v1-v2":
        stats["v1_fallback"] += 1
    if tampered:
        stats["tampered:%s/%s" % tampered] += 1
    return delivered > 0 or (tampered is not None and any(last["failed"]))


def run(ctx):
    binary = ctx.build_adapter("transport")
    quick = ctx.tier == "quick"
    rng = random.Random(ctx.seed)

    # ---- exhaustive model checking of bounded instances (all invariants of C32) and, side by side, the simulations (E2) of every
    # endpoint configuration. TLC -simulate is single-threaded and the quick instances are small, so everything runs in one pool.
    mcs = ["MC_v1_q.cfg", "MC_v2_q.cfg", "MC_s2_q.cfg"]
    if not quick:
        mcs += ["MC_v1v1_t.cfg", "MC_v1v2_t.cfg", "MC_v2_t.cfg", "MC_v2_b.cfg", "MC_s2_t.cfg"]
    if os.environ.get("C32_SKIP_MC"):           # convenience for tools/mutcheck.sh, where only the C++ changes
        mcs = []
    # behaviours per unit share, depth, alternative-call tests per behaviour
    num, depth, fan = (50, 50, 12) if quick else (300, 70, 12)
    simcfgs = SIMS if quick else SIMS_THOROUGH
    jobs = max(1, vflib.free_cpus())
    env = LIGHT_JVM if quick else None
    with concurrent.futures.ThreadPoolExecutor(max_workers=jobs if quick else max(1, jobs // 2)) as ex:
        futs = [ex.submit(ctx.tlc, "Transport", "MCTransport", cfg, name=cfg[:-4],
                          simulate=(int(num * share), depth), xmx="2g", timeout=2400, env=env) for cfg, share in simcfgs]
        mfuts = [ex.submit(ctx.tlc, "Transport", "MCTransport", mc, timeout=2400, xmx="3g" if quick else "8g", workers=1 if quick else 2, env=env) for mc in mcs]
        sims = [f.result() for f in futs]
        mres = [f.result() for f in mfuts]
    ctx.states = sum(r.distinct for r in mres) + sum(r.generated for r in sims)
    ctx.transitions = sum(r.generated for r in mres) + sum(r.generated for r in sims)
    stats = collections.Counter(); per_action = collections.Counter()
    tests = []
    for (cfg, _), r in zip(simcfgs, sims):
        behaviours, fans = sim_tests(r.emit_path, rng, fan)
        ctx.log("E2 %s: %d behaviours (%d steps), %d alternative-call tests" % (cfg, len(behaviours), sum(len(b["steps"]) for b in behaviours), len(fans)))
        for t in behaviours:
            for s in t["steps"]:
                per_action[s["a"][0]] += 1
            if classify(t, stats):
                ctx.nontrivial.add(vflib.digest([t["init"]["cfg"], [s["a"] for s in t["steps"]]]))
        for t in fans:
            per_action[t["steps"][-1]["a"][0]] += 1
        if behaviours:
            b = behaviours[len(behaviours) // 2]
            ctx.sample(dict(config=cfg, setup=b["init"]["cfg"]["setup"], actions=[s["a"] for s in b["steps"]][:25], expected_final=b["steps"][-1]["exp"]))
        tests += behaviours + fans
    res = ctx.run_harness(binary, "replay", tests, name="E2")
    ctx.evaluations += int(res["summary"]["tests"]); ctx.traces += int(res["summary"]["tests"])
    ctx.extra["replayed_steps"] = int(res["summary"]["steps"])
    vflib.report_mismatches(ctx, binary, "replay", res, adapter="transport", what_prefix="Transport: ")

    # ---- vacuity guards
    missing = [a for a in ACTIONS if not per_action[a]]
    need = ["delivered:v1-v1", "delivered:v2-v2", "delivered:v1-v2", "delivered:s2-v2", "delivered:v2-s2", "rejected:v1-v1", "v1_fallback",
            "session_ids_compared:v2-v2", "session_ids_compared:s2-v2", "session_ids_compared:v2-s2", "send_refused", "decoy",
            "failed_after_tamper:pkt/body", "failed_after_tamper:pkt/len", "failed_after_tamper:garb/any", "tampered:key/any", "tampered:v1hdr/cksum", "tampered:v1pay/payload", "failed_after_tamper:key/any", "failed_after_tamper:term/any"]
    missing += [k for k in need if not stats[k]]
    if missing:
        raise vflib.InfraError("vacuity: never exercised in the sampled behaviours: %s (have %s)" % (missing, dict(stats)))
    ctx.extra["steps_per_action"] = dict(per_action)
    ctx.extra["exercised"] = dict(stats)
    ctx.assumptions += [
        "ciphers are abstract (authentication succeeds iff nothing it covers was altered); ciphertext fidelity against an independent BIP324 implementation is not checked",
        "one flipped bit per connection; in v1 only payload / checksum bytes are altered; accidental terminator or v1-prefix matches in random bytes are ignored",
        "a v1 initiator talking to a v2 responder sends 'version' first",
        "Pump delivers bytes straight from GetBytesToSend() of one side to ReceivedBytes() of the other and marks as sent what was consumed (no bytes in flight)",
        "bounded: exhaustive instances with 1-2 messages per side and few fragment sizes; realistic sizes only in sampled behaviours"]
    return ctx.finish(level="model_checking", exhaustive=False,
                      rule="TLC -simulate behaviours of five endpoint configurations replayed whole, plus for sampled visited states the path to the state and "
                           "one alternative call the specification offers there; non-trivial = distinct behaviours in which a message is delivered or a flipped bit ends in a failed connection")
