"""C42 — wallet encryption protects keys (specs/WalletCrypt/WalletCrypt + WalletCryptObs, crash images of real runs)."""
import collections, concurrent.futures, json, os, re, sys
sys.path.insert(0, os.path.dirname(os.path.abspath(__file__)))
sys.path.insert(0, os.path.join(os.path.dirname(os.path.dirname(os.path.abspath(__file__))), "tools"))
import vflib, _walletdb as W

META = dict(
    engine="E2",
    level="fault_enumeration",
    text="Design level: WalletCrypt.tla models the wallet object (plain / encrypting / locked / unlocked), the key records of the database (plain, "
         "crypted), the master-key record, plaintext remnants in free pages, EncryptWallet in the code's three phases (one DB transaction replacing the "
         "plain key records and adding the master key; generation of new descriptors; Rewrite), Lock, Unlock, ChangeWalletPassphrase, signing, clean "
         "reload and a crash at any point. TLC checks exhaustively that a locked wallet cannot sign, a wrong passphrase does not unlock, the correct "
         "one (also after a change) gives back every key, every reachable file is fully plain or fully encrypted with the original keys present, and "
         "that no plaintext is left once EncryptWallet has returned; four broken variants (no rewrite, non-atomic conversion, plain records kept, any "
         "passphrase accepted) are found. Code level: behaviours simulated by TLC plus a fixed one run on a real SQLite wallet under strace with an "
         "empty, a long non-ASCII and an ordinary passphrase; every call's result is compared with the specification's; at every write/fsync boundary "
         "of EncryptWallet (and sampled boundaries elsewhere) the kill image and three power-loss images are reloaded and probed (signing cold, a "
         "never-used passphrase, the passphrases the specification admits at that point, signing for pre-encryption addresses), and TLC evaluates the "
         "specification's clauses on every probe.",
    note="'No plaintext private key or seed material in the database file' is a harness monitor, not a model property: the adapter searches the bytes of "
         "wallet.dat (and reports the journal separately) for every private-key scalar the plain wallet held, on the live file after EncryptWallet has "
         "returned and on every crash image taken after that return; it is not required of images taken inside EncryptWallet. The cipher itself "
         "(AES-256-CBC, SHA-512 key derivation) is covered by wallet_crypto_tests' vectors and not modelled. Power-loss model as in C16/C43.",
    technique="TLA+ spec of the encryption state machine model-checked with TLC; simulated behaviours replayed on a real SQLite wallet under strace, crash images of EncryptWallet reloaded, probed and judged by TLC; byte scan of the file as harness monitor",
)

KEYPOOL = 3
PASS = {"p1": "", "p2": "pässwörd✓ пароль " * 12, "p3": "correct horse battery staple"}
WRONG = "never-set-passphrase"
PRELUDE = [["new", "bech32", "k1"], ["change", "legacy", "k2"], ["secrets"], ["scan"]]
FIXED = [["sign", "k1"], ["encrypt", "p2"], ["e2"], ["e3"], ["sign", "k1"], ["unlock", "p1"], ["sign", "k2"], ["unlock", "p2"], ["sign", "k1"], ["sign", "n1"], ["lock"],
         ["changepass", "p3", "p1"], ["changepass", "p2", "p1"], ["unlock", "p2"], ["unlock", "p1"], ["sign", "k2"], ["reload"], ["sign", "k1"], ["unlock", "p1"], ["sign", "n1"],
         ["changepass", "p1", "p3"], ["sign", "k1"], ["lock"], ["sign", "k1"], ["reload"], ["unlock", "p3"], ["sign", "k2"]]


def build_script(steps):
    """model steps -> adapter steps; returns (ops, index of the adapter op of each model step or None)"""
    ops = list(PRELUDE); at = []
    encrypted = False
    for s in steps:
        a = s["a"]
        if a[0] in ("e2", "e1key"):
            at.append(None); continue
        if a[0] == "e3":
            at.append(None); continue
        if a[0] == "encrypt":
            at.append(len(ops)); ops.append(["encrypt", PASS[a[1]]]); ops.append(["new", "bech32", "n1"]); ops.append(["scan"]); encrypted = True
        elif a[0] == "lock":
            at.append(len(ops)); ops.append(["lock"])
        elif a[0] == "unlock":
            at.append(len(ops)); ops.append(["unlock", PASS[a[1]]])
        elif a[0] == "changepass":
            at.append(len(ops)); ops.append(["changepass", PASS[a[1]], PASS[a[2]]])
            if encrypted:
                ops.append(["scan"])
        elif a[0] == "sign":
            at.append(len(ops)); ops.append(["sign", "@" + a[1]])
        elif a[0] == "reload":
            at.append(len(ops)); ops.append(["reload"])
            if encrypted:
                ops.append(["scan"])
        else:
            raise vflib.InfraError("unknown model action %s" % a)
    return ops, at


def probe_steps(addrs, passes):
    st = [["sign", addrs["k1"]], ["unlock", WRONG], ["sign", addrs["k1"]], ["lock"]]
    for p in passes:
        st += [["unlock", p], ["sign", addrs["k1"]], ["sign", addrs["k2"]], ["lock"]]
    st += [["scan"]]
    return st


def probe_line(o, orig_ids, npass, act, where, scan):
    line = dict(act=act, where=where, load=o["load"], enc=False, kinds=[], orig=False, sign_cold=False, unlock_wrong=False, sign_after_wrong=False,
                unlock_ok=[], sign_unlocked=[], scan=scan, found_db=0, found_journal=0)
    if o["load"] != "ok":
        return line
    obs = o["obs0"]; st = o["steps"]
    line["enc"] = obs["enc"]
    line["kinds"] = [("crypted" if d["crypted"] else "plain") for d in obs["desc"] if d["priv"]]
    line["orig"] = orig_ids <= {d["id"] for d in obs["desc"]}
    line["sign_cold"] = bool(st[0]["r"].get("ok")); line["unlock_wrong"] = bool(st[1]["r"].get("ok")); line["sign_after_wrong"] = bool(st[2]["r"].get("ok")) and obs["enc"]
    for i in range(npass):
        b = 4 + 4 * i
        line["unlock_ok"].append(bool(st[b]["r"].get("ok")))
        line["sign_unlocked"].append([bool(st[b + 1]["r"].get("ok")), bool(st[b + 2]["r"].get("ok"))])
    sc = st[-1]["r"]
    line["found_db"] = sc.get("where", []).count("wallet.dat"); line["found_journal"] = sc.get("where", []).count("wallet.dat-journal")
    return line


def run_behaviour(ctx, binary, bi, beh, quick, stride):
    lines, mism, stats = [], [], collections.Counter()
    steps = beh["steps"]
    ops, at = build_script(steps)
    tag = "b%d" % bi
    # the addresses are only known at run time: "sign" steps name them ("@k1"), the adapter resolves the name
    sess = W.Session(ctx, binary, dict(keypool=KEYPOOL, steps=ops), tag)
    ctx.log("%s: session done (%d syscalls)" % (tag, len(sess.calls)))
    try:
        if sess.abort and "step" in sess.abort:
            mism.append(dict(beh=bi, step=sess.abort["step"], a=sess.abort.get("action"), why="the process aborted inside the call (%s)" % sess.abort.get("why", "")[-80:]))
            return lines, mism, stats
        if sess.out["load"] != "ok" or sess.aborted or len(sess.out.get("steps", [])) != len(ops):
            raise vflib.InfraError("workload session failed: %s" % sess.out["load"])
        mut = sess.mutating_points()
        if sess.model_bad:
            raise vflib.InfraError("file model does not reproduce the wallet directory (%s differ)" % sess.model_bad)
        out = sess.out["steps"]
        addrs = {"k1": out[0]["r"]["addr"], "k2": out[1]["r"]["addr"]}
        secrets = out[2]["r"]["secrets"]
        if out[3]["r"].get("found", 0) < 1:
            raise vflib.InfraError("the byte scan does not find the plain wallet's secrets in the plain file: the monitor is blind")
        orig_ids = {d["id"] for d in sess.out["obs0"]["desc"]}
        # ---- replay comparison: every call's result against the specification's
        mkey = None          # model passphrase that opens the wallet, by adapter step
        pass_at = {}         # adapter step index -> set of passphrases admissible for a crash inside / after that step
        done_at = {}         # adapter step index -> EncryptWallet had returned before this step began
        cur_pass, done = None, False
        for k, s in enumerate(steps):
            j = at[k]
            if j is None:
                continue
            a = s["a"]; r = out[j]["r"]; stats["steps"] += 1
            done_at[j] = done
            if a[0] == "encrypt":
                pass_at[j] = {a[1]}; cur_pass = a[1]; done = True
                addrs["n1"] = out[j + 1]["r"].get("addr")
                exp_ok = True
            elif a[0] == "changepass":
                ok_model = (s["r"] == "ok") if "r" in s else (a[1] == cur_pass)
                pass_at[j] = {cur_pass, a[2]} if ok_model else {cur_pass}
                if ok_model:
                    cur_pass = a[2]
                exp_ok = ok_model
            else:
                pass_at[j] = {cur_pass} if cur_pass else set()
                exp_ok = None if "r" not in s else (s["r"] == "ok")
                if a[0] in ("lock", "reload"):
                    exp_ok = True
            have_ok = bool(r.get("ok"))
            if exp_ok is not None and have_ok != exp_ok:
                mism.append(dict(beh=bi, step=k, a=a, why="result %s, specification %s (%s)" % ("ok" if have_ok else "fail", "ok" if exp_ok else "fail", json.dumps(r)[:160])))
            if not (orig_ids <= {d["id"] for d in out[j]["obs"].get("desc", [])}):
                mism.append(dict(beh=bi, step=k, a=a, why="an original descriptor disappeared" if "desc" in out[j]["obs"] else "no wallet is loaded after the call"))
        # the monitor on the live file: every scan after EncryptWallet returned
        for j, op in enumerate(ops):
            if op[0] == "scan" and j > 3:
                sc = out[j]["r"]
                lines.append(dict(act=["scan", bi, j], where="live file after step %d %s" % (j - 1, ops[j - 1][0]), load="ok", enc=True, kinds=[], orig=True, sign_cold=False,
                                  unlock_wrong=False, sign_after_wrong=False, unlock_ok=[True], sign_unlocked=[[True]], scan=True,
                                  found_db=sc.get("where", []).count("wallet.dat"), found_journal=sc.get("where", []).count("wallet.dat-journal")))
        # ---- crash images: every boundary inside EncryptWallet and ChangeWalletPassphrase, sampled elsewhere, every return
        owner = {}
        for j in range(len(ops)):
            owner[j] = max([x for x in pass_at if x <= j], default=None)
        ends = sorted(sess.step_end.values())
        dense = [p for p in mut if (lambda c: c is not None and ops[c][0] in ("encrypt", "changepass"))(sess.steps_done(p)[1])]
        if quick:
            dense = dense[(ctx.seed + bi) % 2::2]
        sparse = mut[(ctx.seed + bi) % stride::stride]
        first = sess.step_end[3]
        points = sorted(p for p in set(ends + dense + sparse) if p >= first)
        groups = collections.defaultdict(lambda: dict(imgs=[], seen={}, meta=[]))
        for pt, mode, rel in sess.images(points):
            done_steps, cur = sess.steps_done(pt)
            j = cur if cur is not None else (done_steps[-1] if done_steps else 0)
            o = owner.get(j)
            passes = tuple(sorted(pass_at[o])) if o is not None else ()
            if cur is None and o is not None and ops[o][0] == "changepass" and j >= o:
                passes = tuple(sorted({p for p in pass_at[o]}))    # after the return both are still tried; exactly one must work
            scan = bool(o is not None and (done_at.get(o) or (ops[o][0] == "encrypt" and (cur is None or cur > o))))
            g = groups[passes]
            dg = W.image_digest(rel)
            if dg not in g["seen"]:
                g["seen"][dg] = len(g["imgs"]); g["imgs"].append(rel)
            where = ("inside step %d %s" % (cur, ops[cur][0]) if cur is not None else "after the return of step %d %s" % (j, ops[j][0]))
            g["meta"].append((pt, mode, g["seen"][dg], where, scan))
        for passes, g in groups.items():
            plist = [PASS[p] for p in passes] or [WRONG + "2"]
            rec = W.recover_batch(ctx, binary, g["imgs"], probe_steps(addrs, plist), KEYPOOL, secrets=secrets, tag="%s_%d" % (tag, len(passes)))
            for pt, mode, n, where, scan in g["meta"]:
                lines.append(probe_line(rec[n], orig_ids, len(plist), ["crash", bi, pt, W.MODE_NAMES[mode], where.split()[-1]], where, scan))
            stats["images"] += len(g["meta"]); stats["distinct_images"] += len(g["imgs"])
        ctx.log("%s: %d steps, %d crash points, %d images reloaded and probed" % (tag, len(ops), len(points), stats["images"]))
        stats["sessions"] += 1; stats["mutating_syscalls"] += len(mut)
    finally:
        sess.cleanup()
    return lines, mism, stats


def run(ctx):
    binary = ctx.build_adapter("walletdb")
    quick = ctx.tier == "quick"
    with concurrent.futures.ThreadPoolExecutor(max_workers=6) as ex:
        f_ok = ex.submit(ctx.tlc, "WalletCrypt", "WalletCrypt", "MC_crypt.cfg" if quick else "MC_crypt_t.cfg", workers=2, xmx="2g")
        negs = {"norewrite": "NoPlaintextAfterEncrypt", "nonatomic": "FileWhole", "keepplain": "FileWhole", "anypass": "WrongPassFails"}
        f_neg = {v: ex.submit(ctx.tlc, "WalletCrypt", "WalletCrypt", "MC_crypt_%s.cfg" % v, expect_violation=True, workers=1, xmx="1g") for v in negs}
        f_sim = ex.submit(ctx.tlc, "WalletCrypt", "WalletCrypt", "Sim_crypt.cfg", name="sim_crypt", simulate=(60 if quick else 300, 14), xmx="2g")
        f_ok.result()
        for v, f in f_neg.items():
            if f.result().violated != negs[v]:
                raise vflib.InfraError("negative control %s of the specification was not caught by TLC (violated: %s)" % (v, f.result().violated))
        r = f_sim.result()
    behs = vflib.sim_behaviours(r.emit_path)

    def score(b):
        acts = [(s["a"][0], s.get("r")) for s in b["steps"]]
        return (("encrypt", "running") in acts) * 4 + (("unlock", "ok") in acts) * 3 + (("sign", "ok") in acts) * 2 + (("changepass", "ok") in acts) * 2 + (("unlock", "fail") in acts) + (("reload", "ok") in acts)
    sim_actions = collections.Counter((s["a"][0], s.get("r", "?")) for b in behs for s in b["steps"])    # vacuity guard on everything TLC simulated
    behs.sort(key=lambda b: -score(b))
    # the fixed behaviour gets its predicted results from the specification as well (WalletCryptRun)
    bpath = os.path.join(ctx.work, "fixed.ndjson")
    open(bpath, "w").write(json.dumps(dict(acts=FIXED)) + "\n")
    rr = ctx.tlc("WalletCrypt", "WalletCryptRun", "Run_crypt.cfg", name="run_crypt", env={"BEHS": bpath}, workers=1, xmx="1g")
    rows = {row["k"]: row for row in vflib.load_emitted(rr.emit_path)}
    if len(rows) != len(FIXED) or any(rows[k + 1]["a"] != a for k, a in enumerate(FIXED)):
        raise vflib.InfraError("the fixed behaviour is not a behaviour of WalletCrypt (stops after step %d)" % len(rows))
    behs = [dict(steps=[dict(a=a, r=rows[k + 1]["r"]) for k, a in enumerate(FIXED)])] + [b for b in behs if score(b) >= 9][: (1 if quick else 8)]
    per_action = collections.Counter((s["a"][0], s.get("r", "?")) for b in behs for s in b["steps"])
    for need in (("encrypt", "running"), ("unlock", "ok"), ("unlock", "fail"), ("sign", "ok"), ("sign", "fail"), ("changepass", "ok"), ("changepass", "fail"), ("lock", "ok"), ("reload", "ok")):
        if not per_action[need] or not sim_actions[need]:
            raise vflib.InfraError("no %s behaviour has %s" % ("replayed" if sim_actions[need] else "simulated", need))
    stride = 6 if quick else 1
    lines, mism, stats = [], [], collections.Counter()
    with concurrent.futures.ThreadPoolExecutor(max_workers=max(1, min(len(behs), vflib.free_cpus() // 2))) as ex:
        futs = [ex.submit(run_behaviour, ctx, binary, bi, b, quick, stride) for bi, b in enumerate(behs)]
        for f in futs:
            l, m, s = f.result()
            lines += l; mism += m; stats.update(s)
    ctx.traces = stats["sessions"]; ctx.evaluations = len(lines) + stats["steps"]
    for l in lines:
        ctx.nontrivial.add(vflib.digest(l["act"][:4]))
    ctx.extra["workload"] = dict(stats); ctx.extra["model_actions_replayed"] = {"%s %s" % k: v for k, v in per_action.items()}
    ctx.extra["probe_outcomes"] = {"%s | %s | %s" % k: v for k, v in collections.Counter((l["act"][0], "encrypted" if l["enc"] else "plain", "ok" if l["load"] == "ok" else l["load"][:50]) for l in lines).items()}
    ctx.extra["secrets_found_in_journal_after_encryption"] = sum(1 for l in lines if l["scan"] and l.get("found_journal"))
    for l in lines[:: max(1, len(lines) // 3)][:3]:
        ctx.sample(dict(observation=l["act"], where=l["where"], load=l["load"], encrypted=l["enc"], unlock_ok=l["unlock_ok"], secrets_found_in_wallet_dat=l["found_db"]))
    seen = set()
    for m in mism:
        key = "replay:%s:%s" % (m["a"][0], vflib.digest(m["why"].split("(")[0]))
        if key in seen:
            continue
        seen.add(key)
        ctx.violation(key, "behaviour %d step %d %s: %s" % (m["beh"], m["step"], json.dumps(m["a"]), m["why"]), dict(mismatch=m, behaviour=[s["a"] for s in behs[m["beh"]]["steps"]]))
    reported = collections.Counter()
    for k, inv in vflib.judge(ctx, "WalletCrypt", "WalletCryptObs", "Obs_crypt.cfg", lines, name="observed"):
        l = lines[k]
        sig = (inv, l["act"][0], l["act"][3] if l["act"][0] == "crash" else "", l["act"][4] if l["act"][0] == "crash" else "", re.sub(r"'[^']*'", "<path>", l["load"])[:80] if l["load"] != "ok" else "")
        reported[sig] += 1
        if reported[sig] == 1:
            ctx.violation("crypt:%s:%s:%s:%s:%s" % (inv, sig[1], sig[2], sig[3], vflib.digest(sig[4])),
                          "%s (%s) breaks %s: load=%s encrypted=%s key records=%s signs cold=%s wrong passphrase unlocks=%s admitted passphrases unlock=%s sign after unlock=%s secrets in wallet.dat=%s" % (
                              " ".join(str(x) for x in l["act"][:4]), l["where"], inv, l["load"], l["enc"], sorted(set(l["kinds"])), l["sign_cold"], l["unlock_wrong"], l["unlock_ok"], l["sign_unlocked"], l["found_db"]),
                          dict(observation=l, invariant=inv))
    ctx.extra["observations_breaking_an_invariant"] = {"%s | %s | %s | %s | %s" % k: v for k, v in reported.items()}
    ctx.assumptions += ["power loss: per-file durability = content at last fsync; no torn writes or intra-file reordering",
                        "crash points: %s write/fsync boundary inside EncryptWallet and ChangeWalletPassphrase, every return, and every %d-th boundary elsewhere" % ("every second" if quick else "every", stride),
                        "plaintext monitor: byte search of wallet.dat for the 32-byte private-key scalars of the plain wallet (all descriptors of a new wallet share one master key)"]
    return ctx.finish(level="fault_enumeration", exhaustive=False,
                      rule="TLC-simulated behaviours of WalletCrypt plus one fixed behaviour run as wallet sessions under strace with three passphrases; evaluation = one compared result per call, "
                           "one probed reload per (behaviour, syscall index, image kind) and one byte scan per call after encryption")


def replay(ctx, path):
    o = json.load(open(path))
    print("REPLAY: observations are re-derived by running the check again with the same VERIF_SEED; stored case:")
    print(json.dumps(o.get("observation") or o.get("mismatch"), indent=1)[:3000])
    return 1
