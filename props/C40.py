"""C40 — coin selection returns a valid, sufficient subset of the offered coins (specs/CoinSelection, engine E4)."""
import json, os, re
import vflib

META = dict(
    engine="E4",
    level="model_checking",
    text="The TLA+ module CoinSelection defines, for one call algorithm(pool of output groups, target, change parameters, max weight), which "
         "subsets the property admits (from the pool, amount covers the target - for branch-and-bound inside [target, target + cost of change], "
         "for CoinGrinder target + change target -, weight within the cap) and computes by brute force over all subsets the minimum waste "
         "(branch-and-bound) / minimum weight (CoinGrinder). TLC enumerates calls over pools of up to 6 groups (equal effective values with "
         "different weights and fees, a two-coin group, an ancestor bump fee, zero / negative effective values for the knapsack solver, "
         "subtract-fee-from-outputs), targets at -1/0/+1 around every subset sum shifted by each algorithm's offsets, weight caps at -1/0 around "
         "subset weights, three feerate regimes, and checks the table's own consistency as invariants. Every row is replayed on the real "
         "SelectCoinsBnB / CoinGrinder / SelectCoinsSRD / KnapsackSolver with real COutput / OutputGroup objects in several input orders and RNG "
         "seeds; the returned input set is looked up in the row's table: it must be a union of offered groups that the specification admits, "
         "GetSelectedEffectiveValue / GetSelectedValue / GetWeight / GetWaste (after RecalculateWaste) must equal the table's sums, and a result "
         "with GetAlgoCompleted() must carry the table's 'no feasible subset is strictly better' flag. Which coins are picked is never predicted. "
         "The attempt bound (TOTAL_TRIES; a variable in the BITCOIN_VERIF build) is part of the call: the module also contains SelectCoinsBnB and "
         "CoinGrinder as coded, one operator application per loop iteration with the bound checked where the code checks it; TLC decides on that model "
         "that whatever a completed search returns is optimal per the exhaustive definition and every intermediate best is admitted, and the real "
         "searches are run with EVERY bound 1 .. 2^(n+1)+1 on every small pool: each result must be admitted, a result claiming completion optimal "
         "(verdicts), and completed flag / attempt count / weight / amount are compared with the model's run (reported as deviations).",
    note="Relation mode: a heuristic that fails although a feasible subset exists is counted, not reported (SRD, knapsack, branch-and-bound); "
         "CoinGrinder failing on these tiny pools (search space far below its attempt limit) is reported. Bounded domain: <= 6 groups, catalogue "
         "of 12 group types. The production value of the attempt bound (100000) is not reached at these sizes; the bound is lowered through the "
         "verification hook g_verif_total_tries instead, so that it hits at every position of the search.",
    technique="TLA+ feasibility relation + brute-force optimum, TLC-enumerated oracle table, lookup of the implementation's answer",
)

ALGOS = ("bnb", "cg", "srd", "knap")
KNOWN_KEY = "bnb-cloneskip-weightcap"


def init_states(log_path):
    txt = open(log_path, errors="replace").read()
    m = re.search(r"Finished computing initial states: (\d+) states generated, with (\d+) of them distinct", txt)
    if m:
        return int(m.group(2))
    m = re.search(r"Finished computing initial states: (\d+) distinct states? generated", txt)
    return int(m.group(1)) if m else None


def run(ctx):
    binary = ctx.build_adapter("coinselection")
    cfgs = ["MC_quick.cfg"] if ctx.tier == "quick" else ["MC_thorough.cfg", "MC_big.cfg", "MC_cross.cfg"]
    only = os.environ.get("VERIF_C40_ONLY")          # selftests: restrict to one configuration
    if only:
        cfgs = [c for c in cfgs if only in c] or cfgs
    reps = 3 if ctx.tier == "quick" else 4
    total = {}
    known = []
    devs = []
    for cfg in cfgs:
        r = ctx.tlc("CoinSelection", "CoinSelection", cfg, timeout=2400)
        n0 = init_states(r.log_path)
        if n0 is not None and r.emitted != r.distinct - 2 * n0:
            raise vflib.InfraError("%s: emitted %d rows for %d row states" % (cfg, r.emitted, r.distinct - 2 * n0))
        if not r.emitted:
            raise vflib.InfraError("%s: no rows" % cfg)
        res = ctx.run_harness(binary, "table", r.emit_path, args=[ctx.seed, reps], name="table-" + cfg[3:-4])
        sm = res["summary"]
        for k, v in sm.items():
            total[k] = total.get(k, 0) + int(v)
        ctx.traces += int(sm["tests"])
        for i in (0, len(res["lines"]) // 2):
            ctx.sample(json.loads(res["lines"][i]))
        known += [o for o in res["infos"] if o.get("kind") == "known_pattern"]
        devs += [dict(cfg=cfg, why=d.get("why")) for d in res["deviations"][:3]]
        vflib.report_mismatches(ctx, binary, "table", res, args=[ctx.seed, reps], adapter="coinselection", what_prefix="CoinSelection (%s): " % cfg,
                                key_fn=lambda m, case: "row:" + vflib.digest(re.sub(r"-?\d+", "N", m.get("why") or "")))
        res["lines"] = None
        if res["mismatches"] or res["aborts"]:
            continue          # a verdict exists; the counters below are meaningless on a failing run
        # vacuity: every algorithm has satisfiable and unsatisfiable calls, calls with a real choice, and (for the two searches)
        # calls whose table admits a non-optimal subset - otherwise the optimality clause would be checked on nothing
        for al in ALGOS:
            for k in ("rows_feasible_", "rows_infeasible_", "rows_choice_", "success_"):
                if not sm.get(k + al):
                    raise vflib.InfraError("vacuity (%s): counter %s%s is zero" % (cfg, k, al))
        for al in ("bnb", "cg"):
            if not sm.get("rows_with_nonoptimal_admitted_" + al) or not sm.get("completed_" + al):
                raise vflib.InfraError("vacuity (%s): no %s call where optimality discriminates" % (cfg, al))
    ctx.evaluations = sum(total.get("calls_" + al, 0) for al in ALGOS)
    ctx.nontrivial = sum(total.get("rows_choice_" + al, 0) for al in ALGOS)
    ctx.extra["harness_counters"] = {k: v for k, v in sorted(total.items()) if k not in ("tests", "steps", "mismatches", "deviations")}
    ctx.extra["heuristic_failures_with_feasible_subset"] = {al: total.get("fail_but_feasible_" + al, 0) for al in ALGOS}
    ctx.extra["as_coded_model"] = dict(compared_calls={al: total.get("as_coded_compared_" + al, 0) for al in ("bnb", "cg")},
                                       deviations=total.get("deviations", 0), deviation_samples=devs[:3])
    nk = total.get("known_bnb_cloneskip", 0)
    ctx.extra["bnb_complete_but_not_optimal_cloneskip_rows"] = nk
    if nk:
        o = known[0]
        ctx.violation(KNOWN_KEY,
                      "SelectCoinsBnB reports a completed search with a result that is not waste-optimal on %d calls: after omitting a UTXO it skips "
                      "every following UTXO with the same effective value, also when the omitted one was rejected for exceeding "
                      "max_selection_weight and the skipped one is lighter; first instance: %s" % (nk, o["why"]),
                      dict(adapter="coinselection", mode="table", args=[ctx.seed, reps, "strict"], case=o["row"]))
    ctx.assumptions += ["groups outside the 12-entry catalogue and pools of more than 6 groups behave like the enumerated ones",
                        "change parameters are related as CreateTransactionInternal derives them (cost_of_change = change_fee + change spend fee, "
                        "min_viable_change = change spend fee + 1, change target = CHANGE_LOWER + change_fee)"]
    return ctx.finish(level="model_checking", exhaustive=True,
                      rule="every (algorithm, feerate, change parameters, pool, target, weight cap) call of the boundary-valued domain; non-trivial = "
                           "calls whose table admits at least two different subsets (the implementation has a choice the property constrains)")
