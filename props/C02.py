"""C02 — an output can be spent at most once and only if it exists (specs/UtxoChain, engine E1 on a real node)."""
import os, sys
sys.path.insert(0, os.path.dirname(os.path.abspath(__file__)))
import vflib, _utxochain

META = dict(
    engine="E1",
    level="model_checking",
    text="UtxoChain models blocks over a fixed transaction universe (spend, conflicting spend, child, child-before-parent, duplicate input, "
         "never-existing input, re-included confirmed transaction = BIP30) with ConnectBlock's rules in code order, incremental UTXO "
         "maintenance with undo, and most-work activation. TLC proves on the bounded model that the active chain is always valid by the "
         "declarative rules, that utxo = replay(chain), and that rejected blocks leave tip and UTXO set unchanged. Every transition is replayed on a "
         "real regtest node with real signed transactions; tip, stored/failed flags and the UTXO set over the universe (value, height, "
         "coinbase flag) are compared, and where the node deviates TLC evaluates chain validity and utxo = replay on the observed state.",
    note="Bounded: 3-4 new blocks on a 101-block base chain, a 7-transaction universe. Reject *reasons* are compared only as a deviation trigger: "
         "a different reason with the same accept/reject outcome and state is benign. A node that rejects more than the rules require is not a C02 violation.",
    technique="TLA+ spec UtxoChain + TLC exhaustive; path cover replayed on a real node; validity/replay invariants evaluated by TLC on observed states",
)
RELEVANT = {"ObsChainValid", "ObsUtxoIsReplay", "ObsNoFailedInChain"}


def run(ctx):
    binary = ctx.build_adapter("utxochain")
    nontrivial = lambda p: any(s["a"][0] == "mine" and len(s["a"][2]) > 0 for s in p["steps"])
    if ctx.tier == "quick":
        pa, pr = _utxochain.run_scenario(ctx, binary, "MC_spend", "MCO_spend", "c02q", RELEVANT, nontrivial)
    else:
        pa, pr = _utxochain.run_scenario(ctx, binary, "MC_spend", "MCO_spend", "spend4", RELEVANT, nontrivial)
    _utxochain.need(pr, ["connected", "stored", "bad-txns-inputs-missingorspent", "bad-txns-inputs-duplicate", "bad-txns-BIP30"], "C02")
    # BIP30 proper: byte-identical coinbases (possible while BIP34 is inactive) re-create an output that still exists unspent
    pa2, pr2 = _utxochain.run_scenario(ctx, binary, "MC_spend", "MCO_spend", "bip30", RELEVANT, lambda p: any(s["a"][0] == "mine" and s["a"][3] == "dup" for s in p["steps"]),
                                       extra_args=["arg=-testactivationheight=bip34@1000"])
    _utxochain.need(pr2, ["connected", "bad-txns-BIP30"], "C02/bip30")
    ctx.assumptions += ["bounded scenario: base chain of 101 blocks, 2 mature base coins, <= 3 (quick) / 4 (thorough) new blocks on any parents"]
    return ctx.finish(level="model_checking", exhaustive=True,
                      rule="path cover of every transition of the bounded UtxoChain graph; non-trivial = distinct paths mining at least one block with transactions")
