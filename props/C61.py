"""C61 — prevector, bitdeque, VecDeque and PoolResource behave like their standard counterparts (specs/Containers, engine E1)."""
import collections, json, os, re, threading
import vflib

META = dict(
    engine="E1",
    level="model_checking",
    text="Each container is specified in TLA+ twice in one module: its representation as coded (prevector: inline/heap buffer with "
         "change_capacity, memmove and fill; bitdeque: words, front/back padding, element-wise moves of insert/erase; VecDeque: ring buffer, "
         "offset, Reallocate; PoolResource: chunks, bump pointer, LIFO free lists per size class) and the plain sequence / block set it must "
         "equal. TLC proves on the bounded models that the coded representation always equals the plain one, that padding bits stay clear, "
         "capacity relations hold, live blocks are disjoint, aligned and inside a chunk, freed blocks are reused for their size class and every "
         "byte of every chunk is accounted for. Every transition of every state graph is then replayed on the real classes (template parameters "
         "chosen so that the inline/heap, word, wrap-around and chunk boundaries lie inside the bound), comparing the element sequence read "
         "through all access paths, size(), empty(), returned iterators/values, free-list sizes, chunk count and available bytes after each step.",
    note="Bounded: sizes <= 4-6, 2-3 element values, 2-3 live blocks, 2-3 chunks. Capacity growth policy and the choice of the free block are "
         "compared too, but a difference there alone is a violation only if TLC finds a documented relation (ContainersObs) false on the "
         "implementation's state. A moved-from bitdeque is treated as unspecified (only overwriting calls follow) but must be self-consistent "
         "(size() == 0 <=> empty(), reusable): the stale padding of the defaulted move operations is a known finding. prevector::operator< is "
         "modelled as coded (shortlex), which is not std::vector's lexicographic order.",
    technique="TLA+ refinement-style specs (coded representation = plain sequence / block set) + TLC exhaustive state graphs; one implementation test per transition (graph replay)",
)

# (name, module, cfg, harness mode, list of harness arg lists, container kind for ContainersObs, mutating actions that must occur)
PLAN = {
    "quick": [
        ("prevector", "Prevector", "E1_prevector_quick.cfg", "prevector", [[]], "prevector"),
        ("bitdeque", "BitDeque", "E1_bitdeque_quick.cfg", "bitdeque", [[]], None),
        ("vecdeque", "VecDeque", "E1_vecdeque_quick.cfg", "vecdeque", [["int"], ["tracked"]], "vecdeque"),
        ("pool", "PoolResource", "E1_pool_quick.cfg", "pool", [[]], "pool"),
    ],
    "thorough": [
        ("prevector", "Prevector", "E1_prevector_quick.cfg", "prevector", [[]], "prevector"),
        ("prevector4", "Prevector", "E1_prevector_n4.cfg", "prevector", [[]], "prevector"),
        ("prevector2", "Prevector", "E1_prevector_n2.cfg", "prevector", [[]], "prevector"),
        ("bitdeque", "BitDeque", "E1_bitdeque_quick.cfg", "bitdeque", [[]], None),
        ("bitdeque3", "BitDeque", "E1_bitdeque_b3.cfg", "bitdeque", [[]], None),
        ("bitdeque16", "BitDeque", "E1_bitdeque_b16.cfg", "bitdeque", [[]], None),
        ("vecdeque", "VecDeque", "E1_vecdeque_quick.cfg", "vecdeque", [["int"], ["tracked"]], "vecdeque"),
        ("vecdeque5", "VecDeque", "E1_vecdeque_len5.cfg", "vecdeque", [["int"], ["tracked"]], "vecdeque"),
        ("pool", "PoolResource", "E1_pool_quick.cfg", "pool", [[]], "pool"),
        ("pool32", "PoolResource", "E1_pool_32_8.cfg", "pool", [[]], "pool"),
        ("pool32a16", "PoolResource", "E1_pool_32_16.cfg", "pool", [[]], "pool"),
        ("pool3live", "PoolResource", "E1_pool_3live.cfg", "pool", [[]], "pool"),
    ],
}
# thorough-only model checking without replay (larger bounds)
MC_ONLY = [("Prevector", "MC_prevector_big.cfg"), ("BitDeque", "MC_bitdeque_big.cfg"), ("VecDeque", "MC_vecdeque_big.cfg"),
           ("PoolResource", "MC_pool_big.cfg")]

REQUIRED = {
    "Prevector": ["push_back", "emplace_back", "pop_back", "insert", "insert_n", "insert_range", "erase", "erase_range", "resize", "resize_uninit",
                  "assign_n", "assign_range", "clear", "reserve", "shrink_to_fit", "set", "self_assign", "copy_assign_from", "move_assign_from",
                  "swap_with", "copy_to", "move_to", "copy_construct", "move_construct", "eq", "lt", "gt"],
    "BitDeque": ["push_back", "emplace_back", "push_front", "emplace_front", "pop_back", "pop_front", "insert", "emplace", "insert_n", "insert_range",
                 "erase", "erase_range", "resize", "shrink_to_fit", "set", "at", "self_assign", "clear", "assign_n", "assign_range", "assign_ilist",
                 "copy_assign_from", "move_assign_from", "swap_with", "copy_to", "copy_construct", "move_to", "move_construct"],
    "VecDeque": ["push_back", "emplace_back", "push_front", "emplace_front", "pop_back", "pop_front", "resize", "clear", "reserve", "shrink_to_fit",
                 "set", "self_assign", "copy_assign_from", "move_assign_from", "swap_with", "copy_to", "copy_construct", "move_construct", "eq", "cmp"],
    "PoolResource": ["alloc", "dealloc"],
}
READ_ONLY = {"eq", "lt", "gt", "cmp", "at", "copy_to", "copy_construct", "self_assign"}


def check_deviations(ctx, kind, name, res):
    """Only bookkeeping the property leaves open differs (capacity policy / which free block): TLC evaluates the documented
    relations of ContainersObs on the implementation's own pre/post states; a false relation is a violation."""
    devs = res["deviations"]
    ctx.extra["policy_deviations"] = ctx.extra.get("policy_deviations", 0) + int(res["summary"].get("deviations", 0))
    if not devs or kind is None:
        if devs:
            raise vflib.InfraError("deviation reported for a container without internal keys")
        return
    recs = {}
    for d in devs:
        case = json.loads(res["lines"][d["index"]])
        step = d["step"]
        pre = case["steps"][step - 1]["exp"] if step > 0 else case["init"]
        rec = dict(k=kind, a=d["action"], pre=pre, post=d["state"])
        recs.setdefault(vflib.canon(rec), (rec, d, case))
    keys = list(recs)
    path = os.path.join(ctx.work, "obs_%s.ndjson" % name)
    bad = 0
    remaining = keys
    for _ in range(6):
        if not remaining:
            break
        with open(path, "w") as f:
            for k in remaining:
                f.write(json.dumps(recs[k][0]) + "\n")
        r = ctx.tlc("Containers", "ContainersObs", "Obs.cfg", name="obs_" + name, env={"STATES": path}, expect_violation=True, workers=1,
                    timeout=600)
        if r.error:
            raise vflib.InfraError("ContainersObs failed: %s (log %s)" % (r.error, r.log_path))
        if not r.violated:
            break
        m = re.search(r"^i = (\d+)", open(r.log_path).read(), re.M)
        i = int(m.group(1)) - 1 if m else 0
        rec, d, case = recs[remaining[i]]
        ctx.violation("deviation:%s:%s" % (kind, vflib.digest([d["action"], d["why"]])),
                      "%s: after %s the implementation's bookkeeping (%s) breaks a documented relation (ContainersObs.DocOK)" % (
                          kind, vflib.canon(d["action"]), d["why"]),
                      dict(adapter="containers", mode=res["mode"], args=res["args"], case=case, mismatch=d, invariant="DocOK"))
        bad += 1
        remaining = remaining[:i] + remaining[i + 1:]
    ctx.extra["benign_policy_deviation_states"] = ctx.extra.get("benign_policy_deviation_states", 0) + len(keys) - bad


MOVEDFROM_KEY = "bitdeque-movedfrom-inconsistent"
MOVEDFROM_WHAT = ("moved-from bitdeque is self-inconsistent: empty() is true but size() is 2^64-3 (m_pad_begin/m_pad_end keep their old values "
                  "while m_deque is emptied); a following push_back gives size 2^64-2")


def report_findings(ctx, mode, args, res):
    """`finding` lines of the adapter: a defect of the implementation outside what the model specifies (the state of a moved-from
    bitdeque), reported under one stable key whatever state it was reached from (KNOWN-FINDING if listed in known_findings.jsonl)."""
    fs = sorted((o for o in res["infos"] if o.get("kind") == "finding" and o.get("key") == MOVEDFROM_KEY), key=lambda o: o.get("index", 0))
    if not fs:
        return
    f = fs[0]
    case = json.loads(res["lines"][f["index"]])
    case["steps"] = case["steps"][:f["step"] + 1]
    ctx.violation(MOVEDFROM_KEY, MOVEDFROM_WHAT, dict(adapter="containers", mode=mode, args=list(args), case=case, mismatch=f))


def replay(ctx, path):
    """./check C61 --replay <file>: like the generic replay, but a `finding` line also counts as "still fails"."""
    o = json.load(open(path))
    binary = ctx.build_adapter(o["adapter"])
    r = ctx.run_harness(binary, o["mode"], [json.dumps(o["case"])], args=o.get("args", ()), nproc=1, name="replay")
    bad = r["mismatches"] + r["aborts"] + r["deviations"] + [x for x in r["infos"] if x.get("kind") == "finding"]
    for m in bad:
        print("REPLAY %s:" % m.get("kind"), json.dumps(m)[:2000])
    print("REPLAY result: %s" % ("still fails" if bad else "passes"))
    return 1 if bad else 0


def run(ctx):
    binary = ctx.build_adapter("containers")
    plan = PLAN[ctx.tier]
    only = [x for x in os.environ.get("VERIF_C61_ONLY", "").split(",") if x]     # selftest convenience: restrict to some containers
    if only:
        plan = [it for it in plan if it[3] in only]
        ctx.log("restricted to", only, "(not a complete check)")
    # the four state graphs are independent: generate them concurrently
    results, errors = {}, []
    per_run_workers = 4 if ctx.tier == "quick" else 8

    def gen(item):
        name, module, cfg = item[0], item[1], item[2]
        try:
            results[name] = ctx.tlc("Containers", module, cfg, name=name, workers=per_run_workers, timeout=1500)
        except Exception as e:           # noqa: BLE001 - re-raised below on the main thread
            errors.append(e)
    batch = 4
    for i in range(0, len(plan), batch):
        ths = [threading.Thread(target=gen, args=(it,)) for it in plan[i:i + batch]]
        [t.start() for t in ths]
        [t.join() for t in ths]
        if errors:
            raise errors[0]
    if ctx.tier == "thorough" and not only:
        for module, cfg in MC_ONLY:
            ctx.tlc("Containers", module, cfg, timeout=1700)
    ctx.states = sum(r["distinct"] for r in ctx.tlc_runs)
    ctx.transitions = sum(r["generated"] for r in ctx.tlc_runs)

    per_action = collections.defaultdict(collections.Counter)
    for name, module, cfg, mode, arglists, kind in plan:
        r = results[name]
        g = vflib.Graph(vflib.load_emitted(r.emit_path))
        if len(g.nodes) != r.distinct:
            raise vflib.InfraError("%s: replay graph has %d states, TLC found %d (projection key not injective?)" % (name, len(g.nodes), r.distinct))
        tests = list(g.edge_tests())
        for t in tests:
            a = t["steps"][-1]["a"]
            per_action[module][a[0]] += 1
            if a[0] not in READ_ONLY and len(t["steps"]) > 1:
                ctx.nontrivial.add(vflib.digest([name, t["init"], [s["a"] for s in t["steps"]]]))
        mid = tests[len(tests) // 2]
        ctx.sample(dict(container=name, actions=[s["a"] for s in mid["steps"]], expected_final=mid["steps"][-1]["exp"]))
        ctx.log("E1 %s: %d states, %d transitions -> %d implementation tests" % (name, len(g.nodes), g.nedges, len(tests)))
        for args in arglists:
            tag = name + ("_" + args[0] if args else "")
            res = ctx.run_harness(binary, mode, tests, args=args, name=tag)
            res["mode"], res["args"] = mode, list(args)
            ctx.evaluations += int(res["summary"]["tests"]); ctx.traces += int(res["summary"]["tests"])
            ctx.extra["replayed_steps"] = ctx.extra.get("replayed_steps", 0) + int(res["summary"]["steps"])
            for k in ("steps_indirect", "steps_wrapped", "repo_accounting_checks", "movedfrom_states", "movedfrom_size_inconsistent_with_empty"):
                if k in res["summary"]:
                    ctx.extra[k] = ctx.extra.get(k, 0) + int(res["summary"][k])
            vflib.report_mismatches(ctx, binary, mode, res, args=args, adapter="containers", what_prefix="%s: " % tag)
            report_findings(ctx, mode, args, res)
            check_deviations(ctx, kind, tag, res)
        del g, tests
    for module, req in REQUIRED.items():
        if not per_action[module] and only:
            continue
        missing = [a for a in req if not per_action[module][a]]
        if missing:
            raise vflib.InfraError("vacuity: actions of %s never taken in the bounded model: %s" % (module, missing))
    # the boundaries the bounds were chosen for must really have been crossed in the implementation
    if not ctx.violations and not only:
        for k in ("steps_indirect", "steps_wrapped", "repo_accounting_checks"):
            if not ctx.extra.get(k):
                raise vflib.InfraError("vacuity: the implementation never reached a state counted as " + k)
    ctx.extra["transitions_per_action"] = {m: dict(c) for m, c in per_action.items()}
    ctx.assumptions += [
        "bounded models: prevector<3,uint32_t> size<=5 (thorough also <4,uint8_t> size<=6 with 2 caller values and <2,uint16_t>); bitdeque<4> size<=5 "
        "(thorough also <3>, <16>); VecDeque<int> and VecDeque<non-trivial T> size<=4 (thorough <=5); PoolResource<16,8>(36) with 2 live blocks "
        "(thorough also <32,8>(64), <32,16>(64) and 3 live blocks)",
        "callers respect the preconditions the headers state (pop/front/back on non-empty containers, positions inside the container, "
        "Deallocate with the size and alignment of the Allocate, request size a multiple of the alignment)",
        "the second operand of copy / move / swap / comparison is a freshly constructed temporary, as in the repository's fuzz targets",
        "a moved-from bitdeque is unspecified: only clear / assign / assignment follow it",
        "capacity growth and free-block choice are policy: a deviation there alone is judged by the documented relations in ContainersObs.tla",
    ]
    return ctx.finish(level="model_checking", exhaustive=True,
                      rule="one implementation test per transition of each bounded state graph (BFS-tree path to the source state + the edge), "
                           "VecDeque replayed for a trivially copyable and a non-trivial element type; non-trivial = distinct tests whose last "
                           "action is not a pure read and that have at least one earlier step")
