---- MODULE CheckTx ----
(***************************************************************************)
(* C03: the context-free transaction check (src/consensus/tx_check.cpp)    *)
(* as an ordered rule list (Check), next to the declarative statement of   *)
(* the property (SpecValid).  TLC enumerates a boundary-valued domain of    *)
(* transaction shapes, proves Check = OK <=> SpecValid and that the reason *)
(* is the first violated rule in the stated order, and emits one row per   *)
(* shape that the harness replays on the real CheckTransaction.            *)
(***************************************************************************)
EXTENDS Integers, Sequences, FiniteSets, TLC, Amount, VF
CONSTANTS MaxIn, MaxOut
Val == [ neg1   |-> Amt(TRUE, 0, 0, 1),
         zero   |-> AZero,
         one    |-> Amt(FALSE, 0, 0, 1),
         maxm1  |-> Amt(FALSE, 0, 20999999, 99999999),
         max    |-> MaxMoney,
         maxp1  |-> Amt(FALSE, 0, 21000000, 1),
         half   |-> Amt(FALSE, 0, 10500000, 0),
         halfp1 |-> Amt(FALSE, 0, 10500000, 1),
         wrap0  |-> Amt(FALSE, 0, 3440737, 9551616),      \* 344073709551616 = 2^64 - 8784 * MaxMoney
         wrap1  |-> Amt(FALSE, 0, 3440737, 9551617),
         i64max |-> I64Max,
         i64min |-> I64Min ]
ValNames == DOMAIN Val
\* prevouts: 0 = the null outpoint; 1, 2 = two outputs of the SAME transaction; 3 = an output of another transaction
\* (duplicate detection must compare whole outpoints: equal txids with different indexes are not duplicates, and a duplicate
\* separated by a sibling output of the same transaction still is one)
Prevouts == 0..3
\* 4, 5: further outputs of the same transaction as 1 and 2 (only used by the bulk-input rows below)
\* non-witness serialized size: "small", or exactly 999 999 / 1 000 000 / 1 000 001 bytes (x4 vs 4 000 000)
SizeClasses == {"small", "lim_m1", "lim", "lim_p1"}
CbLens == {0, 1, 2, 100, 101}          \* scriptSig length of input 1 (matters for a coinbase)

IsCoinBase(ins) == Len(ins) = 1 /\ ins[1] = 0
HasDup(ins) == \E i, j \in 1..Len(ins) : i < j /\ ins[i] = ins[j]
HasNull(ins) == \E i \in 1..Len(ins) : ins[i] = 0

\* the harness can only realise a size class if there is something to pad (an output script, or a non-coinbase scriptSig)
Realisable(ins, outs, size, cbLen) ==
  /\ (size # "small" => (Len(outs) > 0 \/ (Len(ins) > 0 /\ ~IsCoinBase(ins))))
  /\ (~IsCoinBase(ins) => cbLen = 2)

RECURSIVE OutRule(_, _, _)
OutRule(outs, i, sum) ==
  IF i > Len(outs) THEN "ok"
  ELSE LET v == Val[outs[i]] IN
       IF v.neg THEN "bad-txns-vout-negative"
       ELSE IF AGt(v, MaxMoney) THEN "bad-txns-vout-toolarge"
       ELSE LET s2 == AAdd(sum, v) IN
            IF ~MoneyRange(s2) THEN "bad-txns-txouttotal-toolarge" ELSE OutRule(outs, i + 1, s2)

\* procedural form: the code's rule order
Check(ins, outs, size, cbLen) ==
  IF Len(ins) = 0 THEN "bad-txns-vin-empty"
  ELSE IF Len(outs) = 0 THEN "bad-txns-vout-empty"
  ELSE IF size = "lim_p1" THEN "bad-txns-oversize"
  ELSE LET o == OutRule(outs, 1, AZero) IN
       IF o # "ok" THEN o
       ELSE IF HasDup(ins) THEN "bad-txns-inputs-duplicate"
       ELSE IF IsCoinBase(ins) THEN (IF cbLen < 2 \/ cbLen > 100 THEN "bad-cb-length" ELSE "ok")
       ELSE IF HasNull(ins) THEN "bad-txns-prevout-null" ELSE "ok"

\* declarative form: the statement of property C03
RECURSIVE Sum(_, _)
Sum(outs, i) == IF i = 0 THEN AZero ELSE AAdd(Sum(outs, i - 1), Val[outs[i]])
ValuesOK(outs) == \A i \in 1..Len(outs) : MoneyRange(Val[outs[i]])
\* the sum clause only makes sense once every value is in range (the statement lists it after them)
SpecValid(ins, outs, size, cbLen) ==
  /\ Len(ins) >= 1 /\ Len(outs) >= 1
  /\ size # "lim_p1"
  /\ ValuesOK(outs)
  /\ \A k \in 1..Len(outs) : MoneyRange(Sum(outs, k))
  /\ ~HasDup(ins)
  /\ IF IsCoinBase(ins) THEN cbLen >= 2 /\ cbLen <= 100 ELSE ~HasNull(ins)

\* "the reject reason names the first violated rule in that order"
FirstViolated(ins, outs, size, cbLen) ==
  IF Len(ins) < 1 THEN "bad-txns-vin-empty"
  ELSE IF Len(outs) < 1 THEN "bad-txns-vout-empty"
  ELSE IF size = "lim_p1" THEN "bad-txns-oversize"
  ELSE IF \E i \in 1..Len(outs) : ~MoneyRange(Val[outs[i]]) \/ ~MoneyRange(Sum(outs, i))
       THEN LET i == CHOOSE i \in 1..Len(outs) : (~MoneyRange(Val[outs[i]]) \/ ~MoneyRange(Sum(outs, i)))
                                 /\ \A j \in 1..(i-1) : MoneyRange(Val[outs[j]]) /\ MoneyRange(Sum(outs, j))
            IN IF Val[outs[i]].neg THEN "bad-txns-vout-negative"
               ELSE IF AGt(Val[outs[i]], MaxMoney) THEN "bad-txns-vout-toolarge" ELSE "bad-txns-txouttotal-toolarge"
  ELSE IF HasDup(ins) THEN "bad-txns-inputs-duplicate"
  ELSE IF IsCoinBase(ins) THEN (IF cbLen < 2 \/ cbLen > 100 THEN "bad-cb-length" ELSE "ok")
  ELSE IF HasNull(ins) THEN "bad-txns-prevout-null" ELSE "ok"

\* bulk rows: `bulk` additional outputs of exactly MaxMoney placed BEFORE the listed outputs (2 or more exceed the total at the
\* second one). The counts are chosen so that a wrapping 64-bit accumulator would see 2^63 crossed (4393), or the total back inside
\* the money range (8784 with the residue output "wrap0" / "wrap1": 8784 * MaxMoney + 344073709551616 = 2^64)
BulkCounts == {0, 1, 2, 4392, 4393, 8783, 8784, 8785}
\* what the rule list sees: at most the first two bulk outputs matter (the second one already exceeds the total)
Eff(o, b) == (IF b = 0 THEN <<>> ELSE IF b = 1 THEN <<"max">> ELSE <<"max", "max">>) \o o
\* bulk-input rows: `bulkIn` additional, pairwise distinct inputs, all of them outputs of the SAME transaction as prevouts 1 and 2,
\* placed between the first listed input and the rest ("mid") or after them ("end"). They are neither null nor duplicates, so
\* the rule list sees at most two of them; the counts put the total number of inputs on both sides of small thresholds an
\* implementation might switch algorithms at (a sort-and-compare-neighbours duplicate check must order whole outpoints: with many
\* inputs sharing a txid two equal outpoints need not end up adjacent otherwise).
BulkInCounts == {0, 14, 15, 29, 30, 31, 32, 61, 62, 63, 200}
EffIns(i, b) == IF b = 0 THEN i ELSE IF b = 1 THEN <<i[1], 4>> \o Tail(i) ELSE <<i[1], 4, 5>> \o Tail(i)
VARIABLES ins, outs, size, cbLen, res, bulk, bulkIn, bulkPos
vars == <<ins, outs, size, cbLen, res, bulk, bulkIn, bulkPos>>
Init == /\ ins \in UNION {[1..k -> Prevouts] : k \in 0..MaxIn}
        /\ outs \in UNION {[1..k -> ValNames] : k \in 0..MaxOut}
        /\ size \in SizeClasses /\ cbLen \in CbLens
        /\ Realisable(ins, outs, size, cbLen)
        /\ bulk \in BulkCounts
        /\ (bulk > 0 => (size = "small" /\ Len(ins) = 1 /\ ins[1] = 1 /\ Len(outs) <= 1 /\ \A k \in 1..Len(outs) : outs[k] \in {"zero", "one", "wrap0", "wrap1", "max"}))
        /\ bulkIn \in BulkInCounts /\ bulkPos \in {"mid", "end"}
        /\ (bulkIn = 0 => bulkPos = "end")
        /\ (bulkIn > 0 => (bulk = 0 /\ size = "small" /\ Len(ins) >= 2 /\ Len(outs) = 1 /\ outs[1] = "one"))
        /\ res = Check(EffIns(ins, bulkIn), Eff(outs, bulk), size, cbLen)
Next == UNCHANGED vars
Agree == (res = "ok") <=> SpecValid(EffIns(ins, bulkIn), Eff(outs, bulk), size, cbLen)
ReasonIsFirstViolated == res = FirstViolated(EffIns(ins, bulkIn), Eff(outs, bulk), size, cbLen)
EmitRow == VFRow([ins |-> ins, outs |-> [i \in 1..Len(outs) |-> Val[outs[i]]], size |-> size, cbLen |-> cbLen, res |-> res, bulk |-> bulk,
                  bulkIn |-> bulkIn, bulkPos |-> bulkPos])
====
