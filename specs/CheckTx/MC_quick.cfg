CONSTANTS
  MaxIn = 3
  MaxOut = 2
INIT Init
NEXT Next
INVARIANTS Agree ReasonIsFirstViolated EmitRow
CHECK_DEADLOCK FALSE
