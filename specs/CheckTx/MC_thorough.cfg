CONSTANTS
  MaxIn = 3
  MaxOut = 3
INIT Init
NEXT Next
INVARIANTS Agree ReasonIsFirstViolated EmitRow
CHECK_DEADLOCK FALSE
