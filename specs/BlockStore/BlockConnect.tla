---- MODULE BlockConnect ----
(***************************************************************************)
(* C17, third clause: a block whose stored bytes were corrupted is never   *)
(* connected.  ConnectTip reads a block it does not hold in memory with    *)
(* ReadBlock(index) and hands it to ConnectBlock, whose CheckBlock         *)
(* recomputes the merkle root / witness commitment: the block is connected *)
(* iff the read returns exactly the stored block (ReadBlk of BlockStore).  *)
(* One initial state per (scenario, fault); each is a row replayed on an   *)
(* in-process regtest node: the block is stored while it cannot be         *)
(* connected (delivered before its parent, or invalidated), damaged on     *)
(* disk, then its connection is triggered.                                 *)
(***************************************************************************)
EXTENDS BlockStore
VARIABLES scenario, spot
ConfOne == [cls |-> [b1 |-> "S"], h |-> [b1 |-> 1]]
\* where inside the transaction bytes the flipped bit lies ("witness" = the coinbase witness reserved value; "any" = a seed-chosen
\* byte outside the witness section)
Spots == {"count", "version", "scriptsig", "value", "spk", "commitment", "witness", "locktime", "any"}
NodeChunk == 16777216       \* BLOCKFILE_CHUNK_SIZE: the node pre-allocates, so bytes follow the record
B == "b1"
FlipOf(r) == [t |-> "flip", k |-> "blk", b |-> B, r |-> r, sv |-> 0]
InitC ==
  /\ info = <<[ZeroInfo EXCEPT !.nb = 1, !.sz = Sz(B) + HDR, !.hf = H(B), !.hl = H(B), !.tf = Time(B), !.tl = Time(B)]>>
  /\ idx = [b \in Blocks |-> [file |-> 0, dpos |-> HDR, upos |-> 0, data |-> TRUE, undo |-> FALSE]]
  /\ cur = [file |-> 0, uh |-> 0]
  /\ rlen = <<-1>> /\ reidx = FALSE
  /\ \/ /\ scenario \in {"child_first", "reconsider"}
        /\ \/ fault = NoFault /\ spot = "-"
           \/ \E r \in BlkRegions \ {"tx"} : fault = FlipOf(r) /\ spot = "-"
           \/ \E s \in Spots : fault = FlipOf("tx") /\ spot = s
        /\ blen = <<NodeChunk>>
     \/ /\ scenario = "reconsider"      \* no later write re-extends the file in this scenario
        /\ \E bd \in BlkBounds : /\ fault = [t |-> "trunc", k |-> "blk", b |-> B, r |-> bd, sv |-> NodeChunk]
                                 /\ blen = <<BlkOff(B, bd)>>
        /\ spot = "-"
  /\ lastAct = <<"init">> /\ lastRes = "none"
NextC == UNCHANGED <<vars, scenario, spot>>

Connects == ReadBlk(B, TRUE) = B
\* any damage to the stored bytes of the block proper (or to framing the read depends on) keeps it out of the chain
NeverConnectCorrupt ==
  (Dm("blk", B, "tx") \/ Dm("blk", B, "hdr") \/ Dm("blk", B, "magic") \/ Dm("blk", B, "size_hi") \/ Dm("blk", B, "size_shrink") \/ BlkCut(B))
     => ~Connects
IntactConnects == (fault = NoFault \/ (fault.t = "trunc" /\ ~BlkCut(B))) => Connects
EmitRow == VFRow([scenario |-> scenario, fault |-> [t |-> fault.t, r |-> fault.r], spot |-> spot, connects |-> Connects,
                  read |-> ReadBlk(B, TRUE)])
====
