CONSTANTS
  Blocks = {"b1", "b2", "b3"}
  Conf <- ConfABC
  MaxFile = 2
  FaultKinds = {"flip", "trunc"}
INIT Init
NEXT Next
VIEW View0
INVARIANTS TypeOK NoOverlap InfoExact SizeLimit ReadBackIntact DamageFails NeverWrongData Isolation
PROPERTY WritePosOK
ACTION_CONSTRAINT Emit
CHECK_DEADLOCK FALSE
