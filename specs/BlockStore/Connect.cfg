CONSTANTS
  Blocks = {"b1"}
  Conf <- ConfOne
  MaxFile = 0
  FaultKinds = {"flip", "trunc"}
INIT InitC
NEXT NextC
INVARIANTS TypeOK NoOverlap InfoExact NeverConnectCorrupt IntactConnects DamageFails NeverWrongData EmitRow
CHECK_DEADLOCK FALSE
