CONSTANTS
  Blocks = {"b1", "b2", "b3", "b4"}
  Conf <- Conf4b
  MaxFile = 3
  FaultKinds = {}
INIT Init
NEXT Next
VIEW View0
INVARIANTS TypeOK NoOverlap InfoExact SizeLimit ReadBackIntact DamageFails NeverWrongData Isolation
PROPERTY WritePosOK
ACTION_CONSTRAINT Emit
CHECK_DEADLOCK FALSE
