---- MODULE BlockStore ----
(***************************************************************************)
(* C17: flat-file block and undo storage (src/node/blockstorage.cpp,       *)
(* src/flatfile.cpp) in the test-only fast-prune geometry: 64 KiB block    *)
(* files, 16 KiB / 1 MiB pre-allocation chunks.                            *)
(*                                                                         *)
(* A blk file is a sequence of records [magic(4) size(4) block(size)], a   *)
(* rev file a sequence of [magic(4) size(4) undo(size) checksum(32)].      *)
(* The block index (idx) records, per block, the file and the offsets of   *)
(* the two payloads.  One action per public call of BlockManager:          *)
(* WriteBlock, WriteBlockUndo, the explicit flush, PruneOneBlockFile +     *)
(* UnlinkPrunedFiles; the read calls (ReadBlock with and without expected  *)
(* hash, ReadRawBlock whole / part, ReadBlockUndo) are state functions and *)
(* part of the projection, i.e. compared after every step.  Faults: one    *)
(* bit flip in a region of a record, or a truncation of a file at a region *)
(* boundary of a record; Restore undoes the fault (repair from backup).    *)
(*                                                                         *)
(* Abstract blocks come in size classes; the real serialized sizes are     *)
(* measured by the adapter (mode "measure") and read from BS_MEASURE.      *)
(***************************************************************************)
EXTENDS Integers, Sequences, FiniteSets, TLC, Json, IOUtils, VF
CONSTANTS Blocks,     \* block names "b1", "b2", ...
          Conf,       \* [cls: Blocks -> size class, h: Blocks -> height]
          MaxFile,    \* bound: highest block file number
          FaultKinds  \* subset of {"flip", "trunc"}: which faults are enabled

Measure == ndJsonDeserialize(IOEnv.BS_MEASURE)[1]
Sz(b) == Measure.blk[Conf.cls[b]]       \* serialized size of block b
USz(b) == Measure.undo[b]               \* serialized size of its undo data
Time(b) == Measure.time[b]
H(b) == Conf.h[b]

HDR == 8                \* STORAGE_HEADER_BYTES: message start + size field
CHK == 32               \* undo checksum
MAXFILE == 65536        \* max_blockfile_size with fast_prune
BCHUNK == 16384         \* blk pre-allocation chunk with fast_prune
UCHUNK == 1048576       \* UNDOFILE_CHUNK_SIZE
BLKHDR == 80            \* serialized block header

Max(a, b) == IF a > b THEN a ELSE b
Min(a, b) == IF a < b THEN a ELSE b
CeilDiv(a, c) == (a + c - 1) \div c

ZeroInfo == [nb |-> 0, sz |-> 0, usz |-> 0, hf |-> 0, hl |-> 0, tf |-> 0, tl |-> 0]
NoIdx == [file |-> 0, dpos |-> 0, upos |-> 0, data |-> FALSE, undo |-> FALSE]
NoFault == [t |-> "none", k |-> "-", b |-> "-", r |-> "-", sv |-> 0]

BlkRegions == {"magic", "size_hi", "size_shrink", "size_grow", "hdr", "tx"}
UndoRegions == {"magic", "size", "body", "chk"}
BlkBounds == {"start", "size", "hdr", "tx", "last", "end"}
UndoBounds == {"start", "size", "body", "chk", "last", "end"}

VARIABLES info,   \* m_blockfile_info: sequence, file n is element n+1
          idx,    \* block index entries: Blocks -> [file, dpos, upos, data, undo]
          cur,    \* the NORMAL blockfile cursor [file, uh (undo_height)]
          blen,   \* length of blk file n on disk (element n+1), -1 = no such file
          rlen,   \* same for the rev files
          fault,  \* the single outstanding fault
          reidx,  \* the block index and file info have been rebuilt from the files (-reindex) in this behaviour
          lastAct, lastRes
vars == <<info, idx, cur, blen, rlen, fault, reidx, lastAct, lastRes>>

Init == /\ info = <<>> /\ blen = <<>> /\ rlen = <<>>
        /\ idx = [b \in Blocks |-> NoIdx]
        /\ cur = [file |-> 0, uh |-> 0]
        /\ fault = NoFault /\ reidx = FALSE
        /\ lastAct = <<"init">> /\ lastRes = "none"

Pad(s, n, v) == IF Len(s) >= n THEN s ELSE s \o [i \in 1..(n - Len(s)) |-> v]

\* CBlockFileInfo::AddBlock
AddBlock(fi, h, t) == [fi EXCEPT !.hf = IF fi.nb = 0 \/ fi.hf > h THEN h ELSE fi.hf,
                                 !.tf = IF fi.nb = 0 \/ fi.tf > t THEN t ELSE fi.tf,
                                 !.nb = fi.nb + 1,
                                 !.hl = IF h > fi.hl THEN h ELSE fi.hl,
                                 !.tl = IF t > fi.tl THEN t ELSE fi.tl]

\* FlatFileSeq::Allocate (posix_fallocate never shrinks), then the write itself
Alloc(len, pos, add, chunk) == IF CeilDiv(pos + add, chunk) > CeilDiv(pos, chunk)
                               THEN Max(len, CeilDiv(pos + add, chunk) * chunk) ELSE len
Written(len, pos, add, chunk) == Max(Alloc(len, pos, add, chunk), pos + add)

\* WriteBlock = FindNextBlockPos + the write; the caller (ReceivedBlockTransactions) records the position in the index
WriteBlock(b) ==
  /\ fault = NoFault /\ ~idx[b].data
  /\ LET add == Sz(b) + HDR
         max == IF add >= MAXFILE THEN add + 1 ELSE MAXFILE
         last == cur.file
         info0 == Pad(info, last + 1, ZeroInfo)
         blen0 == Pad(blen, last + 1, -1)
         rlen0 == Pad(rlen, last + 1, -1)
         roll == info0[last + 1].sz + add >= max
         nf == IF roll THEN last + 1 ELSE last
         finUndo == roll /\ info0[last + 1].hl = cur.uh
         info1 == Pad(info0, nf + 1, ZeroInfo)
         pos == info1[nf + 1].sz
         \* leaving a file: FlushBlockFile(last, finalize, finalize_undo) truncates to the used size
         blen1 == IF roll THEN [Pad(blen0, nf + 1, -1) EXCEPT ![last + 1] = info1[last + 1].sz] ELSE blen0
         rlen1 == IF finUndo THEN [Pad(rlen0, nf + 1, -1) EXCEPT ![last + 1] = info1[last + 1].usz] ELSE Pad(rlen0, nf + 1, -1)
         info2 == [info1 EXCEPT ![nf + 1] = [AddBlock(@, H(b), Time(b)) EXCEPT !.sz = @ + add]]
     IN /\ nf <= MaxFile
        /\ info' = info2
        /\ blen' = [blen1 EXCEPT ![nf + 1] = Written(@, pos, add, BCHUNK)]
        /\ rlen' = rlen1
        /\ cur' = IF roll THEN [file |-> nf, uh |-> 0] ELSE cur
        /\ idx' = [idx EXCEPT ![b] = [file |-> nf, dpos |-> pos + HDR, upos |-> 0, data |-> TRUE, undo |-> @.undo]]
        /\ lastRes' = <<nf, pos + HDR>>
  /\ fault' = fault /\ reidx' = reidx
  /\ lastAct' = <<"wblk", b>>

\* WriteBlockUndo (FindUndoPos + write + the flush heuristics)
WriteUndo(b) ==
  /\ fault = NoFault /\ idx[b].data
  /\ IF idx[b].undo
     THEN UNCHANGED <<info, idx, cur, blen, rlen>>
     ELSE LET f == idx[b].file
              add == USz(b) + HDR + CHK
              pos == info[f + 1].usz
              info1 == [info EXCEPT ![f + 1].usz = @ + add]
              fin == f < cur.file /\ H(b) = info[f + 1].hl
              rlen1 == [rlen EXCEPT ![f + 1] = Written(@, pos, add, UCHUNK)]
          IN /\ info' = info1
             /\ rlen' = IF fin THEN [rlen1 EXCEPT ![f + 1] = info1[f + 1].usz] ELSE rlen1
             /\ cur' = IF ~fin /\ f = cur.file /\ H(b) > cur.uh THEN [cur EXCEPT !.uh = H(b)] ELSE cur
             /\ idx' = [idx EXCEPT ![b].upos = pos + HDR, ![b].undo = TRUE]
             /\ blen' = blen
  /\ fault' = fault /\ reidx' = reidx
  /\ lastAct' = <<"wundo", b>> /\ lastRes' = "true"

\* FlushChainstateBlockFile: FlushBlockFile(cursor file, no finalize): fsync only; FlatFileSeq::Flush opens the files
\* read-write and thereby creates a missing rev file
Flush ==
  /\ fault = NoFault
  /\ IF Len(info) = 0 THEN UNCHANGED <<blen, rlen>>
     ELSE /\ blen' = [blen EXCEPT ![cur.file + 1] = Max(@, 0)]
          /\ rlen' = [rlen EXCEPT ![cur.file + 1] = Max(@, 0)]
  /\ UNCHANGED <<info, idx, cur, fault, reidx>>
  /\ lastAct' = <<"flush">> /\ lastRes' = "true"

\* PruneOneBlockFile(n) + UnlinkPrunedFiles({n}) for a file the cursor has left
Prune(n) ==
  /\ fault = NoFault /\ n < cur.file /\ info[n + 1].nb > 0
  /\ idx' = [b \in Blocks |-> IF idx[b].file = n THEN NoIdx ELSE idx[b]]
  /\ info' = [info EXCEPT ![n + 1] = ZeroInfo]
  /\ blen' = [blen EXCEPT ![n + 1] = -1]
  /\ rlen' = [rlen EXCEPT ![n + 1] = -1]
  /\ UNCHANGED <<cur, fault, reidx>>
  /\ lastAct' = <<"prune", n>> /\ lastRes' = "none"

\* -reindex: a new BlockManager (empty block index and file info, cursor at file 0) rescans blk00000.dat, blk00001.dat, ... and
\* records every block it finds with UpdateBlockInfo(block, height, pos) instead of WriteBlock (LoadExternalBlockFile ->
\* AcceptBlock(dbp)); ReceivedBlockTransactions records the position in the index.  Undo positions are forgotten (the rev
\* files stay on disk and are rewritten from offset 0 as blocks are connected again).  The scan stops at the first missing
\* file; modelled for stores without a pruned file, and once per behaviour.
RECURSIVE Rescan(_, _)
Rescan(S, fi) == IF S = {} THEN fi
                 ELSE LET b == CHOOSE x \in S : TRUE IN
                      \* UpdateBlockInfo: AddBlock; nSize = max(pos.nPos + serialized size with witness, nSize)
                      Rescan(S \ {b}, [AddBlock(fi, H(b), Time(b)) EXCEPT !.sz = Max(idx[b].dpos + Sz(b), @)])
\* ord: "fileorder" = blocks are recorded as the scan meets them; "deferred" = every block's parent was still unknown when the
\* scan met it (blocks_with_unknown_parent), so the blocks are recorded later, last found first.  The result is the same.
Reindex(ord) ==
  /\ fault = NoFault /\ ~reidx /\ Len(info) > 0 /\ \A n \in 1..Len(blen) : blen[n] # -1
  /\ info' = [n \in 1..Len(info) |-> Rescan({b \in Blocks : idx[b].data /\ idx[b].file = n - 1}, ZeroInfo)]
  /\ idx' = [b \in Blocks |-> IF idx[b].data THEN [idx[b] EXCEPT !.upos = 0, !.undo = FALSE] ELSE NoIdx]
  /\ cur' = [file |-> Len(info) - 1, uh |-> 0]          \* the cursor follows the highest file seen; undo height starts over
  /\ reidx' = TRUE
  /\ UNCHANGED <<blen, rlen, fault>>
  /\ lastAct' = <<"reindex", ord>> /\ lastRes' = Cardinality({b \in Blocks : idx[b].data})

----
\* Faults.  Offsets of the region boundaries of the record of block b, relative to the start of its file.
BlkOff(b, bd) == idx[b].dpos + CASE bd = "start" -> -8 [] bd = "size" -> -4 [] bd = "hdr" -> 0 [] bd = "tx" -> BLKHDR
                                 [] bd = "last" -> Sz(b) - 1 [] bd = "end" -> Sz(b)
UndoOff(b, bd) == idx[b].upos + CASE bd = "start" -> -8 [] bd = "size" -> -4 [] bd = "body" -> 0 [] bd = "chk" -> USz(b)
                                  [] bd = "last" -> USz(b) + CHK - 1 [] bd = "end" -> USz(b) + CHK

Flip(k, b, r) ==
  /\ "flip" \in FaultKinds /\ fault = NoFault /\ ~reidx
  /\ IF k = "blk" THEN idx[b].data /\ r \in BlkRegions ELSE idx[b].undo /\ r \in UndoRegions
  /\ fault' = [t |-> "flip", k |-> k, b |-> b, r |-> r, sv |-> 0]
  /\ UNCHANGED <<info, idx, cur, blen, rlen, reidx>>
  /\ lastAct' = <<"flip", k, b, r>> /\ lastRes' = "none"

Trunc(k, b, bd) ==
  /\ "trunc" \in FaultKinds /\ fault = NoFault /\ ~reidx
  /\ IF k = "blk"
     THEN /\ idx[b].data /\ bd \in BlkBounds
          /\ fault' = [t |-> "trunc", k |-> k, b |-> b, r |-> bd, sv |-> blen[idx[b].file + 1]]
          /\ blen' = [blen EXCEPT ![idx[b].file + 1] = BlkOff(b, bd)]
          /\ rlen' = rlen
     ELSE /\ idx[b].undo /\ bd \in UndoBounds
          /\ fault' = [t |-> "trunc", k |-> k, b |-> b, r |-> bd, sv |-> rlen[idx[b].file + 1]]
          /\ rlen' = [rlen EXCEPT ![idx[b].file + 1] = UndoOff(b, bd)]
          /\ blen' = blen
  /\ UNCHANGED <<info, idx, cur, reidx>>
  /\ lastAct' = <<"trunc", k, b, bd>> /\ lastRes' = "none"

Restore ==
  /\ fault # NoFault
  /\ blen' = IF fault.t = "trunc" /\ fault.k = "blk" THEN [blen EXCEPT ![idx[fault.b].file + 1] = fault.sv] ELSE blen
  /\ rlen' = IF fault.t = "trunc" /\ fault.k = "rev" THEN [rlen EXCEPT ![idx[fault.b].file + 1] = fault.sv] ELSE rlen
  /\ fault' = NoFault
  /\ UNCHANGED <<info, idx, cur, reidx>>
  /\ lastAct' = <<"restore">> /\ lastRes' = "none"

Next ==
  \/ \E b \in Blocks : WriteBlock(b) \/ WriteUndo(b)
  \/ Flush
  \/ \E ord \in {"fileorder", "deferred"} : Reindex(ord)
  \/ \E n \in 0..MaxFile : Prune(n)
  \/ \E b \in Blocks : (\E r \in BlkRegions : Flip("blk", b, r)) \/ (\E r \in UndoRegions : Flip("rev", b, r))
  \/ \E b \in Blocks : (\E bd \in BlkBounds : Trunc("blk", b, bd)) \/ (\E bd \in UndoBounds : Trunc("rev", b, bd))
  \/ Restore
Spec == Init /\ [][Next]_vars

----
\* The read calls as functions of the disk state.  Results: "fail", the name of the block whose bytes came back, or
\* "damaged" (success, but the bytes differ from what was written).
Dm(k, b, r) == fault.t = "flip" /\ fault.k = k /\ fault.b = b /\ fault.r = r
BL(b) == blen[idx[b].file + 1]
RL(b) == rlen[idx[b].file + 1]
RECURSIVE LowestClearBit(_)
LowestClearBit(n) == IF n % 2 = 0 THEN 1 ELSE 2 * LowestClearBit(n \div 2)
\* the size field as ReadRawBlock sees it ("size_shrink" clears a set bit of the two low bytes: any smaller value;
\* "size_grow" sets the lowest clear bit; "size_hi" sets the top bit: larger than MAX_SIZE)
RawSize(b) == IF Dm("blk", b, "size_shrink") THEN Sz(b) - 1
              ELSE IF Dm("blk", b, "size_grow") THEN Sz(b) + LowestClearBit(Sz(b)) ELSE Sz(b)
RawOK(b) == /\ idx[b].data
            /\ BL(b) >= idx[b].dpos                                  \* the storage header can be read
            /\ ~Dm("blk", b, "magic") /\ ~Dm("blk", b, "size_hi")     \* magic mismatch / blk_size > MAX_SIZE
            /\ idx[b].dpos + RawSize(b) <= BL(b)                     \* no end-of-file inside the data
ReadRaw(b) == IF ~RawOK(b) THEN "fail"
              ELSE IF RawSize(b) = Sz(b) /\ ~Dm("blk", b, "hdr") /\ ~Dm("blk", b, "tx") THEN b ELSE "damaged"
\* ReadBlock: deserialize (fails on a short buffer, ignores trailing bytes), CheckProofOfWork, expected hash
ReadBlk(b, bound) == IF ~RawOK(b) \/ RawSize(b) < Sz(b) THEN "fail"
                     ELSE IF Dm("blk", b, "hdr") THEN (IF bound THEN "fail" ELSE "damaged")
                     ELSE IF Dm("blk", b, "tx") THEN "damaged" ELSE b
\* ReadRawBlock(pos, part = everything after the block header)
ReadPart(b) == IF \/ ~idx[b].data \/ BL(b) < idx[b].dpos \/ Dm("blk", b, "magic") \/ Dm("blk", b, "size_hi")
                  \/ RawSize(b) < Sz(b)                  \* BadPartRange
                  \/ idx[b].dpos + Sz(b) > BL(b)
               THEN "fail" ELSE IF Dm("blk", b, "tx") THEN "damaged" ELSE b
\* ReadBlockUndo reads at the indexed offset: payload, then checksum over (previous block hash, payload)
ReadUndo(b) == IF \/ ~idx[b].undo \/ RL(b) < idx[b].upos + USz(b) + CHK
                  \/ Dm("rev", b, "body") \/ Dm("rev", b, "chk")
               THEN "fail" ELSE b
Reads == [b \in Blocks |-> [rb |-> ReadBlk(b, TRUE), rn |-> ReadBlk(b, FALSE), rr |-> ReadRaw(b), rp |-> ReadPart(b), ru |-> ReadUndo(b)]]

----
\* Invariants (the clauses of C17 on the bounded model)
Live(f) == {b \in Blocks : idx[b].data /\ idx[b].file = f}
Undone(f) == {b \in Blocks : idx[b].undo /\ idx[b].file = f}
RECURSIVE SumBlk(_), SumUndo(_)
SumBlk(S) == IF S = {} THEN 0 ELSE LET x == CHOOSE x \in S : TRUE IN Sz(x) + HDR + SumBlk(S \ {x})
SumUndo(S) == IF S = {} THEN 0 ELSE LET x == CHOOSE x \in S : TRUE IN USz(x) + HDR + CHK + SumUndo(S \ {x})
Files == 0..(Len(info) - 1)

TypeOK == /\ Len(blen) = Len(info) /\ Len(rlen) = Len(info)
          /\ cur.file <= MaxFile /\ (Len(info) > 0 => cur.file = Len(info) - 1)
\* records never overlap, and lie inside the used part of their file
NoOverlap ==
  /\ \A b \in Blocks : idx[b].data => idx[b].dpos >= HDR /\ idx[b].dpos + Sz(b) <= info[idx[b].file + 1].sz
  /\ \A b \in Blocks : idx[b].undo => idx[b].data /\ idx[b].upos >= HDR /\ idx[b].upos + USz(b) + CHK <= info[idx[b].file + 1].usz
  /\ \A f \in Files : \A x, y \in Live(f) : x # y =>
        (idx[x].dpos + Sz(x) <= idx[y].dpos - HDR \/ idx[y].dpos + Sz(y) <= idx[x].dpos - HDR)
  /\ \A f \in Files : \A x, y \in Undone(f) : x # y =>
        (idx[x].upos + USz(x) + CHK <= idx[y].upos - HDR \/ idx[y].upos + USz(y) + CHK <= idx[x].upos - HDR)
\* file-info accounting is exact: counts, byte totals (records are packed without gaps), height and time ranges
InfoExact == \A f \in Files :
  /\ info[f + 1].nb = Cardinality(Live(f))
  /\ info[f + 1].sz = SumBlk(Live(f))
  /\ info[f + 1].usz = SumUndo(Undone(f))
  /\ Live(f) # {} => /\ info[f + 1].hf = CHOOSE h \in {H(b) : b \in Live(f)} : \A b \in Live(f) : h <= H(b)
                     /\ info[f + 1].hl = CHOOSE h \in {H(b) : b \in Live(f)} : \A b \in Live(f) : h >= H(b)
                     /\ info[f + 1].tf = CHOOSE t \in {Time(b) : b \in Live(f)} : \A b \in Live(f) : t <= Time(b)
                     /\ info[f + 1].tl = CHOOSE t \in {Time(b) : b \in Live(f)} : \A b \in Live(f) : t >= Time(b)
  /\ Live(f) = {} => info[f + 1] = ZeroInfo
\* no block file outgrows the limit unless a single record is larger than the limit
SizeLimit == \A f \in Files : info[f + 1].sz < MAXFILE \/ info[f + 1].nb = 1
\* every record reads back byte for byte at the position the index records
ReadBackIntact == fault = NoFault => \A b \in Blocks :
  /\ idx[b].data => ReadBlk(b, TRUE) = b /\ ReadBlk(b, FALSE) = b /\ ReadRaw(b) = b /\ ReadPart(b) = b
  /\ idx[b].undo => ReadUndo(b) = b
\* a record cut by a truncation
BlkCut(b) == idx[b].data /\ BL(b) < idx[b].dpos + Sz(b)
UndoCut(b) == idx[b].undo /\ RL(b) < idx[b].upos + USz(b) + CHK
\* damaged framing, a header that no longer hashes to the indexed block, a bad undo checksum: failure, never data
DamageFails == \A b \in Blocks :
  /\ (Dm("blk", b, "magic") \/ Dm("blk", b, "size_hi") \/ Dm("blk", b, "size_shrink") \/ BlkCut(b))
        => ReadBlk(b, TRUE) = "fail" /\ ReadBlk(b, FALSE) = "fail" /\ ReadPart(b) = "fail"
  /\ (Dm("blk", b, "magic") \/ Dm("blk", b, "size_hi") \/ BlkCut(b)) => ReadRaw(b) = "fail"
  /\ Dm("blk", b, "hdr") => ReadBlk(b, TRUE) = "fail"
  /\ (Dm("rev", b, "body") \/ Dm("rev", b, "chk") \/ UndoCut(b)) => ReadUndo(b) = "fail"
\* an indexed read never returns anything but the indexed block, except when only transaction bytes are damaged
\* (that case is the third clause: such a block is never connected, see BlockConnect)
NeverWrongData == \A b \in Blocks :
  /\ ReadBlk(b, TRUE) \in {"fail", b} \/ Dm("blk", b, "tx")
  /\ ReadUndo(b) \in {"fail", b}
\* a fault damages only the records it touches
Isolation == \A b \in Blocks :
  /\ (idx[b].data /\ ~BlkCut(b) /\ ~(fault.t = "flip" /\ fault.k = "blk" /\ fault.b = b)) => ReadBlk(b, TRUE) = b /\ ReadRaw(b) = b
  /\ (idx[b].undo /\ ~UndoCut(b) /\ ~(fault.t = "flip" /\ fault.k = "rev" /\ fault.b = b)) => ReadUndo(b) = b
\* WriteBlock returns the position the index then holds, directly behind the previous record of the file
WritePosOK == [][lastAct'[1] = "wblk" => LET b == lastAct'[2] IN
                   /\ lastRes' = <<idx'[b].file, idx'[b].dpos>>
                   /\ idx'[b].dpos + Sz(b) = info'[idx'[b].file + 1].sz]_vars

----
\* projection compared with the implementation; `disk` (file lengths: pre-allocation / finalization) is bookkeeping, `hid`
\* (cursor, outstanding fault) is not observable and only makes the projection injective
Proj == [conf |-> Conf, info |-> info, idx |-> idx, reads |-> Reads, disk |-> [blk |-> blen, rev |-> rlen],
         hid |-> [cur |-> cur, fault |-> fault, reidx |-> reidx]]
View0 == <<info, idx, cur, blen, rlen, fault, reidx>>
Emit == VFEdge(Proj, lastAct', lastRes', Proj')

\* named configurations (size classes: record = block + 8; A = 0x8000, B = 0x7fff, C = 0x8001, F = 0xffff, X = 0x10000, Y > 64 KiB, S small)
ConfABC == [cls |-> [b1 |-> "A", b2 |-> "B", b3 |-> "C"], h |-> [b1 |-> 2, b2 |-> 1, b3 |-> 3]]
ConfSXA == [cls |-> [b1 |-> "S", b2 |-> "X", b3 |-> "A"], h |-> [b1 |-> 1, b2 |-> 2, b3 |-> 2]]
ConfSFS == [cls |-> [b1 |-> "S", b2 |-> "F", b3 |-> "S"], h |-> [b1 |-> 0, b2 |-> 1, b3 |-> 2]]
ConfSXF == [cls |-> [b1 |-> "S", b2 |-> "X", b3 |-> "F"], h |-> [b1 |-> 0, b2 |-> 2, b3 |-> 1]]
Conf4a == [cls |-> [b1 |-> "A", b2 |-> "B", b3 |-> "C", b4 |-> "S"], h |-> [b1 |-> 2, b2 |-> 1, b3 |-> 3, b4 |-> 4]]

====
