CONSTANTS
  Enabled = {"R1", "R2", "R2x", "S1", "S1x", "S2", "M1", "S3", "S4", "R3", "W2", "C1", "Z3"}
  MaxBlocks = 6
  MaxBulk = 1
  MaxSteps = 18
INIT Init
NEXT Next
VIEW View
ACTION_CONSTRAINT Emit
INVARIANTS TypeOK
CHECK_DEADLOCK FALSE
