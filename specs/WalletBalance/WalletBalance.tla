---- MODULE WalletBalance ----
(***************************************************************************************************************************)
(* C44: the wallet's balances and its list of spendable coins are functions of the active chain, the mempool and the       *)
(* wallet's own transaction set.                                                                                           *)
(*                                                                                                                         *)
(* World: a fixed universe of transactions over a few confirmed outputs of other people (Base); every output is tagged     *)
(* `mine` or not. Blocks are created by the behaviour (on the tip), each with a coinbase that may pay the wallet; one      *)
(* block may be a "bulk" of 100 empty blocks (coinbase maturation). Reorganisations happen through InvalidateBlock /       *)
(* mining on the shorter branch / ReconsiderBlock. The node side (which chain is active, what the mempool holds after a    *)
(* block or a reorganisation) is modelled as the node does it for this universe (no replacements: conflicting              *)
(* transactions only meet through blocks).                                                                                 *)
(* Wallet side, as coded (wallet.cpp, receive.cpp, spend.cpp): the wallet knows a transaction once it saw it in the        *)
(* mempool or in a connected block and it pays the wallet or spends an output of it; a known unconfirmed transaction is    *)
(* block-conflicted if it or one of its known ancestors has an input that a different transaction of the active chain      *)
(* spends; abandoned is the user's mark on an inactive transaction (and its descendants); an output is spent if a known    *)
(* transaction spending it is confirmed, in the mempool, or inactive and neither abandoned nor conflicted (by the chain    *)
(* or by the mempool). Balances: immature = confirmed coinbase less than 101 deep; trusted = confirmed, or in the          *)
(* mempool with every input an output of ours from a trusted transaction; untrusted pending = other mempool outputs.       *)
(***************************************************************************************************************************)
EXTENDS Integers, Sequences, FiniteSets, TLC
CONSTANTS Enabled,        \* subset of the universe's transactions used by this configuration
          MaxBlocks,      \* blocks a behaviour may create
          MaxBulk,        \* how many of them may be bulks of 100 blocks
          MaxSteps

ToSet(s) == {s[i] : i \in 1..Len(s)}
RECURSIVE SumSet(_, _)
SumSet(f, S) == IF S = {} THEN 0 ELSE LET x == CHOOSE x \in S : TRUE IN f[x] + SumSet(f, S \ {x})

\* ------------------------------------------------------------------------------------------------------------ the universe
Base == {"F1", "F2", "F3", "F4"}                   \* confirmed outputs of other people (one output each, index 1)
O(t, i) == <<t, i>>
TxDef == [
  R1  |-> [ins |-> {O("F1", 1)}, outs |-> <<[v |-> 50, mine |-> TRUE], [v |-> 49, mine |-> FALSE]>>],       \* payment to the wallet
  R2  |-> [ins |-> {O("F2", 1)}, outs |-> <<[v |-> 30, mine |-> TRUE], [v |-> 69, mine |-> FALSE]>>],       \* another one
  R2x |-> [ins |-> {O("F2", 1)}, outs |-> <<[v |-> 98, mine |-> FALSE]>>],                                  \* the payer double-spends R2
  S1  |-> [ins |-> {O("R1", 1)}, outs |-> <<[v |-> 20, mine |-> FALSE], [v |-> 29, mine |-> TRUE]>>],       \* wallet pays, gets change
  S1x |-> [ins |-> {O("R1", 1)}, outs |-> <<[v |-> 44, mine |-> FALSE], [v |-> 5, mine |-> TRUE]>>],        \* conflicting spend of the same coin
  S2  |-> [ins |-> {O("S1", 2)}, outs |-> <<[v |-> 10, mine |-> FALSE], [v |-> 18, mine |-> TRUE]>>],       \* spends the change of S1
  M1  |-> [ins |-> {O("R2", 1), O("F3", 1)}, outs |-> <<[v |-> 120, mine |-> TRUE], [v |-> 9, mine |-> FALSE]>>],   \* joint spend with a foreign input
  S3  |-> [ins |-> {O("R2", 1), O("S1", 2)}, outs |-> <<[v |-> 58, mine |-> TRUE]>>],                      \* consolidation; conflicts with S2 and M1
  S4  |-> [ins |-> {O("R1", 1), O("R2", 1)}, outs |-> <<[v |-> 78, mine |-> TRUE], [v |-> 1, mine |-> FALSE]>>],  \* spends both payments; conflicts with S1, S1x, M1, S3
  \* a wallet transaction with several wallet parents that can be conflicted independently, at different heights:
  R3  |-> [ins |-> {O("F4", 1)}, outs |-> <<[v |-> 40, mine |-> TRUE], [v |-> 59, mine |-> FALSE]>>],       \* a third payment (coin k)
  W2  |-> [ins |-> {O("R2", 1)}, outs |-> <<[v |-> 29, mine |-> TRUE]>>],                                   \* wallet moves coin b = R2:1 to itself (output o)
  C1  |-> [ins |-> {O("W2", 1), O("R1", 1), O("R3", 1)}, outs |-> <<[v |-> 100, mine |-> FALSE], [v |-> 18, mine |-> TRUE]>>],  \* spends o, a = R1:1 and k = R3:1
  Z3  |-> [ins |-> {O("F3", 1)}, outs |-> <<[v |-> 99, mine |-> FALSE]>>] ]                                 \* the owner of F3 spends it elsewhere (kills M1 for good)
AllTx == DOMAIN TxDef
Tx == Enabled
CbValue == 7
BlockIds == 1..MaxBlocks
CbId(b) == "cb" \o ToString(b)
CbIds == {CbId(b) : b \in BlockIds}
IsCb(t) == t \in CbIds
CbBlock(t) == CHOOSE b \in BlockIds : CbId(b) = t
MATURITY == 100

VARIABLES nb,         \* number of blocks created
          parent,     \* block -> parent block (0 = the base chain)
          btxs,       \* block -> sequence of its non-coinbase transactions
          cbm,        \* block -> its coinbase pays the wallet
          span,       \* block -> 1, or 100 for a bulk
          invalid,    \* blocks marked invalid by InvalidateBlock (at most one)
          tip,        \* the active tip (0 = base)
          pool,       \* the mempool
          known,      \* transactions in the wallet
          aband,      \* of those, the abandoned ones
          wv, proj,   \* the wallet view WV and what the adapter compares (functions of the other variables, computed once per state)
          nsteps, lastAct, lastRes
vars == <<nb, parent, btxs, cbm, span, invalid, tip, pool, known, aband, wv, proj, nsteps, lastAct, lastRes>>

\* ------------------------------------------------------------------------------------------------------------ chain
RECURSIVE ChainTo(_, _)
ChainTo(par, b) == IF b = 0 THEN <<>> ELSE Append(ChainTo(par, par[b]), b)        \* block ids from the base (exclusive) to b
Ins(t) == IF IsCb(t) THEN {} ELSE TxDef[t].ins
OutsOf(cm, t) == IF IsCb(t) THEN <<[v |-> CbValue, mine |-> cm[CbBlock(t)]]>> ELSE TxDef[t].outs
\* all transactions of a chain, coinbases included
ChainTxs(bt, ch) == UNION {ToSet(bt[ch[i]]) \cup {CbId(ch[i])} : i \in 1..Len(ch)}
HeightAt(sp, ch, i) == LET f == [j \in 1..Len(ch) |-> sp[ch[j]]] IN SumSet(f, 1..i)
TipHeight(sp, ch) == HeightAt(sp, ch, Len(ch))
\* confirmations of t in chain ch (0 = not in it)
Depth(bt, sp, ch, t) ==
  IF \E i \in 1..Len(ch) : t \in ToSet(bt[ch[i]]) \/ t = CbId(ch[i])
  THEN LET i == CHOOSE i \in 1..Len(ch) : t \in ToSet(bt[ch[i]]) \/ t = CbId(ch[i]) IN TipHeight(sp, ch) - HeightAt(sp, ch, i) + 1
  ELSE 0

\* ------------------------------------------------------------------------------------------------------------ node: validity
Spenders(S, o) == {u \in S : o \in Ins(u)}
\* t can join the set X (confirmed) + P (mempool): parents there, nobody else spends its inputs
ParentsIn(t, X, P) == \A o \in Ins(t) : o[1] \in Base \/ o[1] \in X \/ o[1] \in P
NoConflict(t, X, P) == \A o \in Ins(t) : Spenders((X \cup P) \ {t}, o) = {}
Joinable(t, X, P) == ParentsIn(t, X, P) /\ NoConflict(t, X, P)
RECURSIVE Descendants(_, _)
Descendants(P, S) == LET kids == {u \in P \ S : \E o \in Ins(u) : o[1] \in S} IN IF kids = {} THEN S ELSE Descendants(P, S \cup kids)
\* removeForBlock: confirmed transactions leave, conflicting ones leave with their descendants
AfterBlock(P, S) == LET confl == {u \in P \ S : \E t \in S : Ins(u) \cap Ins(t) # {}} IN (P \ S) \ Descendants(P, confl)
\* re-adding the transactions of disconnected blocks (oldest first): those that still fit; pool entries whose parents are gone leave
RECURSIVE ReAdd(_, _, _)
ReAdd(P, X, q) == IF q = <<>> THEN P
                  ELSE LET t == Head(q) IN
                       IF t \in X \/ t \in P THEN ReAdd(P, X, Tail(q))
                       ELSE IF Joinable(t, X, P) THEN ReAdd(P \cup {t}, X, Tail(q))
                       ELSE ReAdd(P, X, Tail(q))
RECURSIVE Orphaned(_, _)
Orphaned(P, X) == LET bad == {u \in P : ~ParentsIn(u, X, P)} IN IF bad = {} THEN P ELSE Orphaned(P \ bad, X)
RECURSIVE Concat(_)
Concat(ss) == IF ss = <<>> THEN <<>> ELSE Head(ss) \o Concat(Tail(ss))
\* the mempool after the chain changed from oldch to newch
PoolAfterReorg(bt, P, oldch, newch) ==
  LET common == {i \in 1..Len(oldch) : i <= Len(newch) /\ \A j \in 1..i : oldch[j] = newch[j]}
      k == IF common = {} THEN 0 ELSE CHOOSE i \in common : \A j \in common : j <= i
      disc == Concat([i \in 1..(Len(oldch) - k) |-> bt[oldch[k + i]]])
      conn == UNION {ToSet(bt[newch[i]]) : i \in (k + 1)..Len(newch)}
      X == ChainTxs(bt, newch)
  IN Orphaned(ReAdd(AfterBlock(P, conn), X, disc), X)

\* InvalidateBlock disconnects block after block and re-adds the transactions of each - but only of the first 10 disconnected blocks
\* ("not a very deep invalidation"); deeper ones are dropped together with what depends on them in the mempool
RECURSIVE PoolAfterInvalidate(_, _, _, _, _, _)
PoolAfterInvalidate(bt, sp, P, ch, keep, cnt) ==
  IF Len(ch) <= keep THEN P
  ELSE LET b == ch[Len(ch)] rest == SubSeq(ch, 1, Len(ch) - 1) X == ChainTxs(bt, rest) c2 == cnt + sp[b] IN
       IF c2 <= 10 THEN PoolAfterInvalidate(bt, sp, Orphaned(ReAdd(P, X, bt[b]), X), rest, keep, c2)
       ELSE PoolAfterInvalidate(bt, sp, Orphaned(P, X), rest, keep, c2)

\* ------------------------------------------------------------------------------------------------------------ wallet view
\* W = [bt, cm, sp, ch, P, K, A]: block contents, coinbase ownership, spans, active chain, mempool, wallet transactions, abandoned ones
MineOut(W, o) == o[1] \notin Base /\ o[2] <= Len(OutsOf(W.cm, o[1])) /\ OutsOf(W.cm, o[1])[o[2]].mine
\* known ancestors (through any input) of a set of transactions, the set included
RECURSIVE AncSelfK(_, _)
AncSelfK(K, S) == LET up == {o[1] : o \in UNION {Ins(t) : t \in S}} \cap K IN IF up \subseteq S THEN S ELSE AncSelfK(K, S \cup up)
RECURSIVE TrustedSet(_, _, _)
\* CachedTxIsTrusted as a least fixed point: confirmed, or in the mempool with every input an output of ours of a trusted known transaction
TrustedSet(W, conf, T) ==
  LET more == {t \in (W.P \cap W.K) \ T : Ins(t) # {} /\ \A o \in Ins(t) : o[1] \in W.K /\ MineOut(W, o) /\ o[1] \in T} IN
  IF more = {} THEN T ELSE TrustedSet(W, conf, T \cup more)
\* everything the balances need, computed once per state:
\*   depth: confirmations of every known transaction; conf: the confirmed ones
\*   bconf: block-conflicted = unconfirmed, and it or a known unconfirmed ancestor has an input that another transaction of the chain spends
\*   pconf: mempool-conflicted = inactive, and it or a known inactive ancestor has an input that a mempool transaction spends
\*   counts: transactions whose spends count (CWallet::IsSpent / HowSpent without include_nonmempool)
WV(W) ==
  LET X == ChainTxs(W.bt, W.ch)
      depth == [t \in W.K |-> Depth(W.bt, W.sp, W.ch, t)]
      conf == {t \in W.K : depth[t] > 0}
      dbc == {a \in W.K \ conf : \E u \in X : u # a /\ Ins(u) \cap Ins(a) # {}}
      bconf == {t \in W.K \ conf : AncSelfK(W.K, {t}) \cap dbc # {}}
      inactive == {t \in W.K : t \notin conf /\ t \notin W.P /\ t \notin bconf}
      dpc == {a \in W.K : a \notin conf /\ a \notin W.P /\ \E u \in W.P : u # a /\ Ins(u) \cap Ins(a) # {}}
      pconf == {t \in W.K : t \notin conf /\ t \notin W.P /\ AncSelfK(W.K, {t}) \cap dpc # {}}
      counts == conf \cup (W.P \cap W.K) \cup {t \in inactive : t \notin W.A /\ t \notin pconf}
      spent == UNION {Ins(t) : t \in counts}
      trusted == TrustedSet(W, conf, conf)
      immature == {t \in W.K : IsCb(t) /\ (MATURITY + 1) - depth[t] > 0}
      txos == {o \in UNION {{O(t, i) : i \in 1..Len(OutsOf(W.cm, t))} : t \in W.K} : MineOut(W, o)}
      bucket == [o \in txos |->
                   IF o \in spent THEN "none"
                   ELSE IF o[1] \in immature /\ o[1] \in conf THEN "immature"
                   ELSE IF o[1] \in trusted THEN "trusted"
                   ELSE IF o[1] \in W.P THEN "pending"
                   ELSE "none"]
      val == [o \in txos |-> OutsOf(W.cm, o[1])[o[2]].v]
      sum(b) == LET S == {o \in txos : bucket[o] = b} IN SumSet(val, S)
      \* AvailableCoins with the default coin control: safe, mature, at least in the mempool, unspent
      avail == {o \in txos : /\ o[1] \notin immature /\ o[1] \notin bconf /\ (o[1] \in conf \/ o[1] \in W.P) /\ o[1] \in trusted /\ o \notin spent}
      \* the same quantity "computed directly from the active chain and the mempool": the wallet's outputs those create and do not spend
      live == X \cup W.P
      direct == {o \in UNION {{O(t, i) : i \in 1..Len(OutsOf(W.cm, t))} : t \in live} : MineOut(W, o) /\ Spenders(live, o) = {}}
  IN [conf |-> conf, bconf |-> bconf, pconf |-> pconf, inactive |-> inactive, spent |-> spent, trusted |-> trusted, immature |-> immature,
      txos |-> txos, bucket |-> bucket, avail |-> avail,
      bal |-> [trusted |-> sum("trusted"), pending |-> sum("pending"), immature |-> sum("immature")],
      direct |-> SumSet([o \in direct |-> OutsOf(W.cm, o[1])[o[2]].v], direct),
      \* inactive wallet transactions whose spends the wallet still honours (it will not double-spend itself until they are abandoned)
      lingering |-> {t \in inactive : t \notin W.A /\ t \notin pconf /\ ~IsCb(t)},
      \* (coverage witness, not compared) block-conflicted transactions whose conflicts sit in two or more different blocks of the chain
      deep |-> {t \in bconf : Cardinality({i \in 1..Len(W.ch) : \E a \in AncSelfK(W.K, {t}) \ conf : \E u \in ToSet(W.bt[W.ch[i]]) :
                                                                   u # a /\ Ins(u) \cap Ins(a) # {}}) >= 2}]
Balances(W) == WV(W).bal
Avail(W) == WV(W).avail
OpStr(o) == o[1] \o ":" \o ToString(o[2])
\* the universe travels with the initial state so that the adapter builds exactly these transactions
UniJson == [t \in Tx |-> [ins |-> TxDef[t].ins, outs |-> TxDef[t].outs]]
ProjOf(W, v, first) ==
        [chain |-> W.ch, pool |-> W.P, bal |-> v.bal, coins |-> {OpStr(o) : o \in v.avail},
         known |-> W.K, aband |-> W.A, conflicted |-> v.bconf, pconflicted |-> v.pconf, deep |-> v.deep, uni |-> IF first THEN UniJson ELSE <<>>]

\* ------------------------------------------------------------------------------------------------------------ state
Cur == [bt |-> btxs, cm |-> cbm, sp |-> span, ch |-> ChainTo(parent, tip), P |-> pool, K |-> known, A |-> aband]
\* does the wallet take notice of t (IsMine / IsFromMe), given what it already knows
Relevant(cm, K, t) == \/ \E i \in 1..Len(OutsOf(cm, t)) : OutsOf(cm, t)[i].mine
                      \/ \E o \in Ins(t) : o[1] \in K /\ o[2] <= Len(OutsOf(cm, o[1])) /\ OutsOf(cm, o[1])[o[2]].mine
RECURSIVE Learn(_, _, _)
Learn(cm, K, q) == IF q = <<>> THEN K ELSE Learn(cm, IF Relevant(cm, K, Head(q)) THEN K \cup {Head(q)} ELSE K, Tail(q))
\* abandoned marks disappear when the transaction is active again or block-conflicted
KeepAband(W, A) == LET v == WV(W) IN {t \in A : t \notin v.conf /\ t \notin W.P /\ t \notin v.bconf}

Init == /\ nb = 0 /\ parent = [b \in BlockIds |-> 0] /\ btxs = [b \in BlockIds |-> <<>>] /\ cbm = [b \in BlockIds |-> FALSE]
        /\ span = [b \in BlockIds |-> 1] /\ invalid = {} /\ tip = 0 /\ pool = {} /\ known = {} /\ aband = {}
        /\ nsteps = 0 /\ lastAct = <<"init">> /\ lastRes = "ok"
        /\ LET W0 == [bt |-> [b \in BlockIds |-> <<>>], cm |-> [b \in BlockIds |-> FALSE], sp |-> [b \in BlockIds |-> 1], ch |-> <<>>, P |-> {}, K |-> {}, A |-> {}] IN
           wv = WV(W0) /\ proj = ProjOf(W0, wv, TRUE)

Step == nsteps < MaxSteps /\ nsteps' = nsteps + 1 /\ lastRes' = "ok"
\* a transaction reaches the mempool (sent by the wallet itself - commit, then broadcast - or relayed by someone else)
Submit(t, viawallet) ==
  LET W == Cur X == ChainTxs(btxs, W.ch) IN
  /\ Step /\ t \in Tx /\ t \notin pool /\ t \notin X /\ Joinable(t, X, pool)
  /\ (viawallet => /\ t \notin known                                 \* the wallet commits transactions it has just created
                   /\ \E o \in Ins(t) : o[1] \in known /\ MineOut(W, o)
                   /\ \A o \in Ins(t) : o[1] \in known)             \* CWallet::CommitTransaction looks every input's transaction up in the wallet
  /\ pool' = pool \cup {t}
  /\ known' = Learn(cbm, known, <<t>>)
  /\ aband' = aband \ {t}
  /\ LET W2 == [W EXCEPT !.P = pool \cup {t}, !.K = Learn(cbm, known, <<t>>), !.A = aband \ {t}] IN wv' = WV(W2) /\ proj' = ProjOf(W2, wv', FALSE)
  /\ lastAct' = <<(IF viawallet THEN "send" ELSE "submit"), t>>
  /\ UNCHANGED <<nb, parent, btxs, cbm, span, invalid, tip>>
\* the mempool drops a transaction and what depends on it (expiry, size limit): known wallet transactions become inactive
Evict(t) ==
  LET W == Cur P2 == pool \ Descendants(pool, {t}) IN
  /\ Step /\ t \in pool
  /\ pool' = P2
  /\ LET W2 == [W EXCEPT !.P = P2] IN wv' = WV(W2) /\ proj' = ProjOf(W2, wv', FALSE)
  /\ lastAct' = <<"evict", t>>
  /\ UNCHANGED <<nb, parent, btxs, cbm, span, invalid, tip, known, aband>>
\* sequences of transactions a block on the tip may contain: nothing, the whole mempool, or a single transaction (in the mempool or
\* not) - a single one that conflicts with the mempool is how a competing spend gets confirmed
RECURSIVE Topo(_, _, _)
Topo(P, X, acc) == IF P = {} THEN acc
                   ELSE LET t == CHOOSE t \in P : \A o \in Ins(t) : o[1] \notin P IN Topo(P \ {t}, X, Append(acc, t))
BlockChoices(X) == {<<>>} \cup (IF pool = {} THEN {} ELSE {Topo(pool, X, <<>>)})
                   \cup {<<t>> : t \in {t \in Tx : t \notin X /\ ParentsIn(t, X, {}) /\ NoConflict(t, X, {})}}
Mine(S, mine, bulk) ==
  LET b == nb + 1 W == Cur X == ChainTxs(btxs, W.ch)
      bt2 == [btxs EXCEPT ![b] = S] cm2 == [cbm EXCEPT ![b] = mine] sp2 == [span EXCEPT ![b] = IF bulk THEN 100 ELSE 1]
      P2 == AfterBlock(pool, ToSet(S))
      K2 == Learn(cm2, known, S \o (IF mine THEN <<CbId(b)>> ELSE <<>>))
      W2 == [bt |-> bt2, cm |-> cm2, sp |-> sp2, ch |-> Append(W.ch, b), P |-> P2, K |-> K2, A |-> aband]
  IN /\ Step /\ nb < MaxBlocks /\ S \in BlockChoices(X)
     /\ (bulk => (S = <<>> /\ ~mine /\ Cardinality({x \in 1..nb : span[x] = 100}) < MaxBulk))
     /\ nb' = b /\ parent' = [parent EXCEPT ![b] = tip] /\ btxs' = bt2 /\ cbm' = cm2 /\ span' = sp2 /\ tip' = b
     /\ pool' = P2 /\ known' = K2 /\ aband' = KeepAband(W2, aband)
     /\ LET W3 == [W2 EXCEPT !.A = KeepAband(W2, aband)] IN wv' = WV(W3) /\ proj' = ProjOf(W3, wv', FALSE)
     /\ lastAct' = <<"mine", b, tip, S, mine, bulk>>
     /\ UNCHANGED invalid
\* the best valid tip: greatest height among blocks without an invalid ancestor (or self); the action is disabled on ties
ValidBlocks(inv) == {b \in 0..nb : \A a \in ToSet(ChainTo(parent, b)) : a \notin inv}
HeightOf(b) == TipHeight(span, ChainTo(parent, b))
Best(inv) == CHOOSE b \in ValidBlocks(inv) : \A c \in ValidBlocks(inv) : HeightOf(c) <= HeightOf(b)
UniqueBest(inv) == Cardinality({b \in ValidBlocks(inv) : HeightOf(b) = HeightOf(Best(inv))}) = 1
SwitchTo(newtip, inv, act, stop) ==        \* stop: the block InvalidateBlock disconnects down to (exclusive); 0 with -1 = no such phase
  LET W == Cur newch == ChainTo(parent, newtip)
      mid == IF stop < 0 THEN W.ch ELSE ChainTo(parent, stop)
      P1 == IF stop < 0 THEN pool ELSE PoolAfterInvalidate(btxs, span, pool, W.ch, Len(mid), 0)
      P2 == PoolAfterReorg(btxs, P1, mid, newch)
      conn == Concat([i \in 1..Len(newch) |-> IF newch[i] \in ToSet(W.ch) THEN <<>> ELSE btxs[newch[i]] \o (IF cbm[newch[i]] THEN <<CbId(newch[i])>> ELSE <<>>)])
      K2 == Learn(cbm, known, conn)
      W2 == [bt |-> btxs, cm |-> cbm, sp |-> span, ch |-> newch, P |-> P2, K |-> K2, A |-> aband]
  IN /\ tip' = newtip /\ invalid' = inv /\ pool' = P2 /\ known' = K2 /\ aband' = KeepAband(W2, aband)
     /\ LET W3 == [W2 EXCEPT !.A = KeepAband(W2, aband)] IN wv' = WV(W3) /\ proj' = ProjOf(W3, wv', FALSE)
     /\ lastAct' = act
     /\ UNCHANGED <<nb, parent, btxs, cbm, span>>
Invalidate(b) == /\ Step /\ invalid = {} /\ b \in ToSet(ChainTo(parent, tip)) /\ UniqueBest({b})
                 /\ SwitchTo(Best({b}), {b}, <<"invalidate", b>>, parent[b])
Reconsider(b) == /\ Step /\ b \in invalid /\ UniqueBest({})
                 /\ SwitchTo(Best({}), {}, <<"reconsider", b>>, -1)
\* abandontransaction: an inactive wallet transaction and its inactive known descendants
RECURSIVE AbandonSet(_, _, _)
AbandonSet(W, inact, S) == LET kids == {u \in W.K \ S : (\E o \in Ins(u) : o[1] \in S) /\ u \in inact /\ u \notin W.A} IN
                           IF kids = {} THEN S ELSE AbandonSet(W, inact, S \cup kids)
Abandon(t) == LET W == Cur inact == wv.inactive IN
              /\ Step /\ t \in known /\ ~IsCb(t) /\ t \in inact /\ t \notin aband
              /\ aband' = aband \cup AbandonSet(W, inact, {t})
              /\ LET W2 == [W EXCEPT !.A = aband \cup AbandonSet(W, inact, {t})] IN wv' = WV(W2) /\ proj' = ProjOf(W2, wv', FALSE)
              /\ lastAct' = <<"abandon", t>>
              /\ UNCHANGED <<nb, parent, btxs, cbm, span, invalid, tip, pool, known>>
Next == \/ \E t \in Tx, w \in BOOLEAN : Submit(t, w)
        \/ \E S \in BlockChoices(ChainTxs(btxs, ChainTo(parent, tip))), m \in BOOLEAN : Mine(S, m, FALSE)
        \/ Mine(<<>>, FALSE, TRUE)
        \* (listed separately so that simulation takes this road often) a block confirms a transaction that conflicts with the mempool
        \/ \E t \in Tx, m \in BOOLEAN : /\ \E u \in pool : u # t /\ Ins(u) \cap Ins(t) # {}
                                        /\ Mine(<<t>>, m, FALSE)
        \/ \E b \in 1..nb : Invalidate(b) \/ Reconsider(b)
        \/ \E t \in Tx : Abandon(t)
        \/ \E t \in Tx : Evict(t)

\* ------------------------------------------------------------------------------------------------------------ the property
\* the balances never count more than chain + mempool justify, and exactly that unless the wallet still honours the spends of an
\* inactive transaction of its own (which abandoning it ends)
MatchesChainAndPool == LET v == wv total == v.bal.trusted + v.bal.pending + v.bal.immature IN
  /\ total <= v.direct
  /\ (v.lingering = {} => total = v.direct)
\* nothing of a transaction conflicted by the chain is counted, and what it spent is available again
ConflictedNotCounted == LET v == wv IN
  \A t \in v.bconf :
      /\ \A o \in v.txos : o[1] = t => v.bucket[o] = "none"
      /\ \A o \in Ins(t) : (o \in v.txos /\ o[1] \in v.conf /\ o[1] \notin v.immature /\ \A u \in known : (o \in Ins(u) => u \in v.bconf))
                             => v.bucket[o] = "trusted"
\* the spendable coins are exactly the outputs counted as trusted
AvailIsTrusted == LET v == wv IN v.avail = {o \in v.txos : v.bucket[o] = "trusted"}
\* sanity of the node model: the mempool is consistent with the chain
PoolConsistent == LET W == Cur X == ChainTxs(btxs, W.ch) IN
  /\ pool \cap X = {}
  /\ \A t \in pool : ParentsIn(t, X, pool) /\ NoConflict(t, X, pool)
TypeOK == /\ nb \in 0..MaxBlocks /\ tip \in 0..nb /\ pool \subseteq Tx /\ known \subseteq (Tx \cup CbIds) /\ aband \subseteq known /\ Cardinality(invalid) <= 1

\* ------------------------------------------------------------------------------------------------------------ projection
View == <<nb, parent, btxs, cbm, span, invalid, tip, pool, known, aband>>
VF == INSTANCE VF
Emit == VF!VFEdgeK(View, proj, lastAct', lastRes', View', proj')
\* the projection variable is what its definition says (checked in the model-checking runs)
ProjOK == wv = WV(Cur) /\ proj = ProjOf(Cur, wv, nsteps = 0)
====
