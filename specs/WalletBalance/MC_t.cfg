CONSTANTS
  Enabled = {"R1", "R2", "R2x", "S1", "S1x", "S2", "M1", "S3", "S4"}
  MaxBlocks = 3
  MaxBulk = 1
  MaxSteps = 6
INIT Init
NEXT Next
VIEW View
INVARIANTS TypeOK ProjOK PoolConsistent MatchesChainAndPool ConflictedNotCounted AvailIsTrusted
CHECK_DEADLOCK FALSE
