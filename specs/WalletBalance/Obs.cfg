CONSTANTS
  Enabled = {"R1", "R2", "R2x", "S1", "S1x", "S2", "M1", "S3", "S4", "R3", "W2", "C1", "Z3"}
  MaxBlocks = 8
  MaxBulk = 1
  MaxSteps = 20
INIT InitObs
NEXT Stutter
INVARIANTS ObsBalances ObsCoins
CHECK_DEADLOCK FALSE
