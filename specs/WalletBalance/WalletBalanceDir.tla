---- MODULE WalletBalanceDir ----
(***************************************************************************************************************************)
(* Directed scenarios for C44: behaviours of WalletBalance that follow a plan (a sequence of action patterns). Every step  *)
(* is a step of WalletBalance!Next - preconditions, successor state and expected projection come from the specification -  *)
(* the plan only selects which one. Used for history shapes that random simulation meets too rarely, e.g. (seeded change   *)
(* C44_1) a wallet transaction C1 whose wallet ancestors are double-spent by DIFFERENT blocks of the chain, followed by a  *)
(* reorganisation that removes only the upper block: C1 must stay conflicted by the lower one.                             *)
(***************************************************************************************************************************)
EXTENDS WalletBalance
VARIABLE plan
Funding == << <<"submit", "R1">>, <<"submit", "R2">>, <<"submit", "R3">>, <<"minepool">>, <<"submit", "W2">>, <<"submit", "C1">> >>
Plans == <<
  \* block 2 double-spends a (S1x: C1 conflicted there), block 3 double-spends b (M1: W2 conflicted there); block 3 goes away and M1 with it
  Funding \o << <<"mine1", "S1x">>, <<"mine1", "M1">>, <<"invalidate", 3>>, <<"evict", "M1">>, <<"reconsider", 3>> >>,
  \* same, but M1 dies because the foreign coin it also spends is spent by the replacement block
  Funding \o << <<"mine1", "S1x">>, <<"mine1", "M1">>, <<"invalidate", 3>>, <<"mine1", "Z3">>, <<"submit", "W2">> >>,
  \* the other order: the ancestor's conflict is the deeper one, the direct conflict of C1 is in the block that goes away
  Funding \o << <<"mine1", "M1">>, <<"mine1", "S1x">>, <<"invalidate", 3>>, <<"evict", "S1x">>, <<"reconsider", 3>> >>,
  \* both blocks go away: everything is inactive again, then the wallet's own transactions return to the mempool
  Funding \o << <<"mine1", "S1x">>, <<"mine1", "M1">>, <<"invalidate", 2>>, <<"evict", "M1">>, <<"evict", "S1x">>, <<"submit", "W2">>, <<"submit", "C1">> >> >>
Match(p, a) ==
  CASE p[1] = "minepool" -> a[1] = "mine" /\ a[4] # <<>> /\ Len(a[4]) = Cardinality(pool) /\ ~a[5] /\ ~a[6]
    [] p[1] = "mine1"    -> a[1] = "mine" /\ a[4] = <<p[2]>> /\ ~a[5] /\ ~a[6]
    [] OTHER             -> a = p
InitD == Init /\ plan \in 1..Len(Plans)
NextD == /\ nsteps < Len(Plans[plan])
         /\ Next
         /\ Match(Plans[plan][nsteps + 1], lastAct')
         /\ UNCHANGED plan
\* every plan can be followed to its end (checked by the driver on the emitted paths) and reaches the shape it is there for
ViewD == <<View, plan>>
EmitD == VF!VFEdgeK(ViewD, proj, lastAct', lastRes', ViewD', proj')
====
