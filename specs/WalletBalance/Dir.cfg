CONSTANTS
  Enabled = {"R1", "R2", "R2x", "S1", "S1x", "S2", "M1", "S3", "S4", "R3", "W2", "C1", "Z3"}
  MaxBlocks = 5
  MaxBulk = 0
  MaxSteps = 20
INIT InitD
NEXT NextD
VIEW ViewD
ACTION_CONSTRAINT EmitD
INVARIANTS TypeOK ProjOK PoolConsistent MatchesChainAndPool ConflictedNotCounted AvailIsTrusted
CHECK_DEADLOCK FALSE
