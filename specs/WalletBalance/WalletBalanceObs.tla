---- MODULE WalletBalanceObs ----
(***************************************************************************************************************************)
(* C44, fallback verdicts: a step after which the NODE's chain or mempool differs from what the node model of              *)
(* WalletBalance predicts is not compared with the prediction; instead TLC evaluates the wallet-view functions of          *)
(* WalletBalance on the OBSERVED chain, mempool and wallet transaction set and compares the wallet's balances and coin     *)
(* list with them. Each line of env OBS: {blocks: [{id, parent, txs, mine, span}], chain, pool, known, aband, bal, coins}. *)
(***************************************************************************************************************************)
EXTENDS WalletBalance, Json, IOUtils
ObsLines == ndJsonDeserialize(IOEnv.OBS)
VARIABLE idx
L == ObsLines[idx]
BlockRec(b) == IF \E i \in 1..Len(L.blocks) : L.blocks[i].id = b THEN L.blocks[CHOOSE i \in 1..Len(L.blocks) : L.blocks[i].id = b]
               ELSE [id |-> b, parent |-> 0, txs |-> <<>>, mine |-> FALSE, span |-> 1]
ObsW == [bt |-> [b \in BlockIds |-> BlockRec(b).txs], cm |-> [b \in BlockIds |-> BlockRec(b).mine], sp |-> [b \in BlockIds |-> BlockRec(b).span],
         ch |-> L.chain, P |-> ToSet(L.pool), K |-> ToSet(L.known), A |-> ToSet(L.aband)]
InitObs == /\ idx \in 1..Len(ObsLines)
           /\ nb = 0 /\ parent = [b \in BlockIds |-> 0] /\ btxs = [b \in BlockIds |-> <<>>] /\ cbm = [b \in BlockIds |-> FALSE]
           /\ span = [b \in BlockIds |-> 1] /\ invalid = {} /\ tip = 0 /\ pool = {} /\ known = {} /\ aband = {}
           /\ wv = WV(ObsW) /\ proj = <<>>
           /\ nsteps = 0 /\ lastAct = <<"observed", idx>> /\ lastRes = "ok"
Stutter == UNCHANGED <<vars, idx>>
ObsBalances == wv.bal = L.bal
ObsCoins == {OpStr(o) : o \in wv.avail} = ToSet(L.coins)
====
