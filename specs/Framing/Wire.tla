---- MODULE Wire ----
(***************************************************************************)
(* Byte-exact reference (de)serialisers for C48 (operators only).          *)
(* A byte string is a sequence over 0..255.  Every reader returns a record *)
(* [st, v, p]: st = "ok" or the failure class, v the decoded value, p the  *)
(* position of the next unread byte.  The definitions mirror               *)
(*   src/serialize.h (ReadCompactSize / WriteCompactSize, VARINT, vectors) *)
(*   src/primitives/transaction.h (Serialize- / UnserializeTransaction)    *)
(*   src/primitives/block.h, src/protocol.h, src/blockencodings.h          *)
(* one action per call.  64-bit quantities are four 16-bit limbs           *)
(* <<l0, l1, l2, l3>> (l0 least significant) because TLC integers are      *)
(* 32-bit.                                                                 *)
(***************************************************************************)
EXTENDS Integers, Sequences, FiniteSets, TLC

Err(e) == [st |-> e, v |-> <<>>, p |-> 0]
Ok(v, p) == [st |-> "ok", v |-> v, p |-> p]
Avail(bs, p, k) == p + k - 1 <= Len(bs)

\* ---- fixed-width integers (values below 2^31) and limbs
LE2(n) == <<n % 256, n \div 256>>
LE4(n) == <<n % 256, (n \div 256) % 256, (n \div 65536) % 256, n \div 16777216>>
BE2(n) == <<n \div 256, n % 256>>
LimbBytes(l) == LE2(l[1]) \o LE2(l[2]) \o LE2(l[3]) \o LE2(l[4])
Limb(n) == <<n % 65536, n \div 65536, 0, 0>>                 \* n < 2^31
L16(bs, p) == bs[p] + 256 * bs[p + 1]
LLt(a, b) == \/ a[4] < b[4]
             \/ (a[4] = b[4] /\ a[3] < b[3])
             \/ (a[4] = b[4] /\ a[3] = b[3] /\ a[2] < b[2])
             \/ (a[4] = b[4] /\ a[3] = b[3] /\ a[2] = b[2] /\ a[1] < b[1])
LLe(a, b) == a = b \/ LLt(a, b)
LSmall(l) == l[3] = 0 /\ l[4] = 0 /\ l[2] < 32768             \* fits a TLC integer
LInt(l) == l[1] + 65536 * l[2]
MaxSize == <<0, 512, 0, 0>>                                   \* MAX_SIZE = 0x02000000

(***************************************************************************)
(* CompactSize                                                             *)
(***************************************************************************)
\* WriteCompactSize: the shortest of the four forms
CsWidth(l) == IF LLt(l, <<253, 0, 0, 0>>) THEN 1 ELSE IF l[2] = 0 /\ l[3] = 0 /\ l[4] = 0 THEN 3 ELSE IF l[3] = 0 /\ l[4] = 0 THEN 5 ELSE 9
\* the form of a given width (the value must fit: w = 1 needs l < 253, w = 3 needs l < 2^16, w = 5 needs l < 2^32)
CsForm(w, l) == IF w = 1 THEN <<l[1]>> ELSE IF w = 3 THEN <<253>> \o LE2(l[1]) ELSE IF w = 5 THEN <<254>> \o LE2(l[1]) \o LE2(l[2]) ELSE <<255>> \o LimbBytes(l)
WriteCS(l) == CsForm(CsWidth(l), l)
WriteCSInt(n) == WriteCS(Limb(n))

CsFin(l, p, rc) == IF rc /\ LLt(MaxSize, l) THEN Err("toolarge") ELSE Ok(l, p)
ReadCS(bs, p, rc) ==
  IF ~Avail(bs, p, 1) THEN Err("eof")
  ELSE LET c == bs[p] IN
       IF c < 253 THEN CsFin(<<c, 0, 0, 0>>, p + 1, rc)
       ELSE IF c = 253 THEN
            IF ~Avail(bs, p + 1, 2) THEN Err("eof")
            ELSE LET l == <<L16(bs, p + 1), 0, 0, 0>> IN IF LLt(l, <<253, 0, 0, 0>>) THEN Err("noncanonical") ELSE CsFin(l, p + 3, rc)
       ELSE IF c = 254 THEN
            IF ~Avail(bs, p + 1, 4) THEN Err("eof")
            ELSE LET l == <<L16(bs, p + 1), L16(bs, p + 3), 0, 0>> IN IF LLt(l, <<0, 1, 0, 0>>) THEN Err("noncanonical") ELSE CsFin(l, p + 5, rc)
       ELSE IF ~Avail(bs, p + 1, 8) THEN Err("eof")
            ELSE LET l == <<L16(bs, p + 1), L16(bs, p + 3), L16(bs, p + 5), L16(bs, p + 7)>> IN
                 IF LLt(l, <<0, 0, 1, 0>>) THEN Err("noncanonical") ELSE CsFin(l, p + 9, rc)
\* a length / count: range checked, hence a small integer
ReadCount(bs, p) == LET r == ReadCS(bs, p, TRUE) IN IF r.st # "ok" THEN r ELSE Ok(LInt(r.v), r.p)

(***************************************************************************)
(* VARINT (MSB base-128 with the "minus one" twist), for an integer type   *)
(* whose largest value is max                                              *)
(***************************************************************************)
RECURSIVE VarIntDigits(_)
\* the 7-bit groups, least significant first, continuation bits not yet set
VarIntDigits(n) == IF n <= 127 THEN <<n>> ELSE <<n % 128>> \o VarIntDigits((n \div 128) - 1)
RECURSIVE Rev(_)
Rev(s) == IF Len(s) = 0 THEN <<>> ELSE Rev(Tail(s)) \o <<Head(s)>>
WriteVarInt(n) == LET d == Rev(VarIntDigits(n)) IN [k \in 1..Len(d) |-> IF k < Len(d) THEN d[k] + 128 ELSE d[k]]
RECURSIVE ReadVarIntFrom(_, _, _, _)
ReadVarIntFrom(bs, p, n, max) ==
  IF ~Avail(bs, p, 1) THEN Err("eof")
  ELSE IF n > max \div 128 THEN Err("toolarge")
  ELSE LET n2 == n * 128 + (bs[p] % 128) IN
       IF bs[p] >= 128 THEN (IF n2 = max THEN Err("toolarge") ELSE ReadVarIntFrom(bs, p + 1, n2 + 1, max))
       ELSE Ok(n2, p + 1)
ReadVarInt(bs, p, max) == ReadVarIntFrom(bs, p, 0, max)

(***************************************************************************)
(* Raw bytes, byte vectors, vectors                                        *)
(***************************************************************************)
ReadBytes(bs, p, k) == IF Avail(bs, p, k) THEN Ok(SubSeq(bs, p, p + k - 1), p + k) ELSE Err("eof")
\* std::vector<unsigned char> / CScript: count, then the bytes
ReadVarBytes(bs, p) == LET c == ReadCount(bs, p) IN IF c.st # "ok" THEN c ELSE ReadBytes(bs, c.p, c.v)
WriteVarBytes(b) == WriteCSInt(Len(b)) \o b

ReadTxIn(bs, p) ==
  LET a == ReadBytes(bs, p, 36) IN IF a.st # "ok" THEN a ELSE
  LET s == ReadVarBytes(bs, a.p) IN IF s.st # "ok" THEN s ELSE
  LET q == ReadBytes(bs, s.p, 4) IN IF q.st # "ok" THEN q ELSE
  Ok([prev |-> a.v, script |-> s.v, seq |-> q.v, wit |-> <<>>], q.p)
ReadTxOut(bs, p) ==
  LET a == ReadBytes(bs, p, 8) IN IF a.st # "ok" THEN a ELSE
  LET s == ReadVarBytes(bs, a.p) IN IF s.st # "ok" THEN s ELSE
  Ok([val |-> a.v, script |-> s.v], s.p)
ReadHash(bs, p) == ReadBytes(bs, p, 32)
ReadShortId(bs, p) == ReadBytes(bs, p, 6)

RECURSIVE ReadElems(_, _, _, _, _)
ReadElem(bs, p, kind) ==
  CASE kind = "txin" -> ReadTxIn(bs, p)
    [] kind = "txout" -> ReadTxOut(bs, p)
    [] kind = "bytes" -> ReadVarBytes(bs, p)
    [] kind = "hash" -> ReadHash(bs, p)
    [] kind = "shortid" -> ReadShortId(bs, p)
ReadElems(bs, p, n, kind, acc) ==
  IF n = 0 THEN Ok(acc, p)
  ELSE LET e == ReadElem(bs, p, kind) IN IF e.st # "ok" THEN e ELSE ReadElems(bs, e.p, n - 1, kind, Append(acc, e.v))
\* std::vector<T>: count, then the elements; every element takes at least one byte, so a count beyond the remaining input
\* runs into the end of the data (the implementation allocates in batches and fails the same way)
ReadVec(bs, p, kind) ==
  LET c == ReadCount(bs, p) IN
  IF c.st # "ok" THEN c
  ELSE IF c.v > Len(bs) - c.p + 1 THEN Err("eof")
  ELSE ReadElems(bs, c.p, c.v, kind, <<>>)

RECURSIVE Concat(_)
Concat(ss) == IF Len(ss) = 0 THEN <<>> ELSE Head(ss) \o Concat(Tail(ss))
WriteVec(items) == WriteCSInt(Len(items)) \o Concat(items)

(***************************************************************************)
(* Transactions (BIP144).  tx = [ver, vin, vout, lock]; ver / lock 4 raw   *)
(* bytes; vin[i] = [prev (36 bytes), script, seq (4 bytes), wit (sequence  *)
(* of byte strings)]; vout[j] = [val (8 bytes), script].                   *)
(***************************************************************************)
HasWitness(tx) == \E i \in 1..Len(tx.vin) : tx.vin[i].wit # <<>>
StripWitness(tx) == [tx EXCEPT !.vin = [i \in 1..Len(tx.vin) |-> [tx.vin[i] EXCEPT !.wit = <<>>]]]
SerTxIn(in) == in.prev \o WriteVarBytes(in.script) \o in.seq
SerTxOut(out) == out.val \o WriteVarBytes(out.script)
SerWitStack(w) == WriteVec([k \in 1..Len(w) |-> WriteVarBytes(w[k])])
\* SerializeTransaction
SerTx(tx, aw) ==
  LET flags == IF aw /\ HasWitness(tx) THEN 1 ELSE 0 IN
     tx.ver
  \o (IF flags # 0 THEN <<0, flags>> ELSE <<>>)            \* marker (an empty vin) and flag
  \o WriteVec([i \in 1..Len(tx.vin) |-> SerTxIn(tx.vin[i])])
  \o WriteVec([j \in 1..Len(tx.vout) |-> SerTxOut(tx.vout[j])])
  \o (IF flags % 2 = 1 THEN Concat([i \in 1..Len(tx.vin) |-> SerWitStack(tx.vin[i].wit)]) ELSE <<>>)
  \o tx.lock

RECURSIVE ReadWits(_, _, _, _)
ReadWits(bs, p, n, acc) ==
  IF n = 0 THEN Ok(acc, p)
  ELSE LET w == ReadVec(bs, p, "bytes") IN IF w.st # "ok" THEN w ELSE ReadWits(bs, w.p, n - 1, Append(acc, w.v))

\* UnserializeTransaction, statement by statement; the state s = [st, p, ver, vin, vout, flags, lock]
TxFail(s, e) == [s EXCEPT !.st = e]
StVer(bs, s) == IF s.st # "ok" THEN s ELSE LET r == ReadBytes(bs, s.p, 4) IN IF r.st # "ok" THEN TxFail(s, r.st) ELSE [s EXCEPT !.ver = r.v, !.p = r.p]
StVin(bs, s) == IF s.st # "ok" THEN s ELSE LET r == ReadVec(bs, s.p, "txin") IN IF r.st # "ok" THEN TxFail(s, r.st) ELSE [s EXCEPT !.vin = r.v, !.p = r.p]
StVout(bs, s) == IF s.st # "ok" THEN s ELSE LET r == ReadVec(bs, s.p, "txout") IN IF r.st # "ok" THEN TxFail(s, r.st) ELSE [s EXCEPT !.vout = r.v, !.p = r.p]
StBody(bs, s, aw) ==
  IF s.st # "ok" THEN s
  ELSE IF Len(s.vin) = 0 /\ aw THEN                         \* a dummy or an empty vin
         LET r == ReadBytes(bs, s.p, 1) IN
         IF r.st # "ok" THEN TxFail(s, r.st)
         ELSE IF r.v[1] # 0 THEN StVout(bs, StVin(bs, [s EXCEPT !.flags = r.v[1], !.p = r.p]))
         ELSE [s EXCEPT !.p = r.p]
       ELSE StVout(bs, s)
StWit(bs, s, aw) ==
  IF s.st # "ok" \/ ~(s.flags % 2 = 1 /\ aw) THEN s
  ELSE LET r == ReadWits(bs, s.p, Len(s.vin), <<>>) IN
       IF r.st # "ok" THEN TxFail(s, r.st)
       ELSE IF \A i \in 1..Len(s.vin) : r.v[i] = <<>> THEN TxFail(s, "superfluous")    \* "Superfluous witness record"
       ELSE [s EXCEPT !.vin = [i \in 1..Len(s.vin) |-> [s.vin[i] EXCEPT !.wit = r.v[i]]], !.flags = @ - 1, !.p = r.p]
StFlags(s) == IF s.st = "ok" /\ s.flags # 0 THEN TxFail(s, "unknownflag") ELSE s        \* "Unknown transaction optional data"
StLock(bs, s) == IF s.st # "ok" THEN s ELSE LET r == ReadBytes(bs, s.p, 4) IN IF r.st # "ok" THEN TxFail(s, r.st) ELSE [s EXCEPT !.lock = r.v, !.p = r.p]
DeserTxAt(bs, p, aw) ==
  LET s0 == [st |-> "ok", p |-> p, ver |-> <<>>, vin |-> <<>>, vout |-> <<>>, flags |-> 0, lock |-> <<>>]
      s == StLock(bs, StFlags(StWit(bs, StBody(bs, StVin(bs, StVer(bs, s0)), aw), aw)))
  IN IF s.st # "ok" THEN Err(s.st) ELSE Ok([ver |-> s.ver, vin |-> s.vin, vout |-> s.vout, lock |-> s.lock], s.p)
DeserTx(bs, aw) == DeserTxAt(bs, 1, aw)

RECURSIVE ReadTxs(_, _, _, _, _)
ReadTxs(bs, p, n, aw, acc) ==
  IF n = 0 THEN Ok(acc, p)
  ELSE LET t == DeserTxAt(bs, p, aw) IN IF t.st # "ok" THEN t ELSE ReadTxs(bs, t.p, n - 1, aw, Append(acc, t.v))
ReadTxVec(bs, p, aw) ==
  LET c == ReadCount(bs, p) IN
  IF c.st # "ok" THEN c ELSE IF c.v > Len(bs) - c.p + 1 THEN Err("eof") ELSE ReadTxs(bs, c.p, c.v, aw, <<>>)

(***************************************************************************)
(* Headers, blocks and a few P2P payloads                                  *)
(***************************************************************************)
\* CBlockHeader: version, prev, merkle root, time, bits, nonce - 80 raw bytes, kept as six byte strings
SerHeader(h) == h.ver \o h.prev \o h.root \o h.time \o h.bits \o h.nonce
DeserHeaderAt(bs, p) ==
  IF ~Avail(bs, p, 80) THEN Err("eof")
  ELSE Ok([ver |-> SubSeq(bs, p, p + 3), prev |-> SubSeq(bs, p + 4, p + 35), root |-> SubSeq(bs, p + 36, p + 67),
           time |-> SubSeq(bs, p + 68, p + 71), bits |-> SubSeq(bs, p + 72, p + 75), nonce |-> SubSeq(bs, p + 76, p + 79)], p + 80)
\* CBlock: header, vector of transactions
SerBlock(b, aw) == SerHeader(b.header) \o WriteVec([k \in 1..Len(b.vtx) |-> SerTx(b.vtx[k], aw)])
DeserBlock(bs, aw) ==
  LET h == DeserHeaderAt(bs, 1) IN IF h.st # "ok" THEN h ELSE
  LET t == ReadTxVec(bs, h.p, aw) IN IF t.st # "ok" THEN t ELSE Ok([header |-> h.v, vtx |-> t.v], t.p)
\* CInv: type (4 bytes), hash
SerInv(i) == i.type \o i.hash
DeserInv(bs) == IF ~Avail(bs, 1, 36) THEN Err("eof") ELSE Ok([type |-> SubSeq(bs, 1, 4), hash |-> SubSeq(bs, 5, 36)], 37)
\* CBlockLocator: a version that is written as 70016 and ignored when read, then the hashes
DummyVersion == LE4(70016)
SerLocator(have) == DummyVersion \o WriteVec(have)
DeserLocator(bs) ==
  LET v == ReadBytes(bs, 1, 4) IN IF v.st # "ok" THEN v ELSE ReadVec(bs, v.p, "hash")
\* BlockTransactionsRequest: block hash, then the strictly increasing 16-bit indexes as differences (DifferenceFormatter)
RECURSIVE SerDiffs(_, _)
SerDiffs(ix, shift) == IF Len(ix) = 0 THEN <<>> ELSE WriteCSInt(Head(ix) - shift) \o SerDiffs(Tail(ix), Head(ix) + 1)
Increasing(ix) == \A k \in 1..(Len(ix) - 1) : ix[k] < ix[k + 1]
SerGetBlockTxn(r) == r.hash \o WriteCSInt(Len(r.ix)) \o SerDiffs(r.ix, 0)           \* defined for Increasing(r.ix)
RECURSIVE ReadDiffs(_, _, _, _, _)
\* shift is the running m_shift; the differences are range-checked compact sizes (at most MAX_SIZE), so the sum of a few of
\* them stays a TLC integer
ReadDiffs(bs, p, n, shift, acc) ==
  IF n = 0 THEN Ok(acc, p)
  ELSE LET d == ReadCount(bs, p) IN
       IF d.st # "ok" THEN d
       ELSE IF shift + d.v > 65535 THEN Err("overflow")                                   \* "differential value overflow"
       ELSE ReadDiffs(bs, d.p, n - 1, shift + d.v + 1, Append(acc, shift + d.v))
DeserGetBlockTxn(bs) ==
  LET h == ReadHash(bs, 1) IN IF h.st # "ok" THEN h ELSE
  LET c == ReadCount(bs, h.p) IN IF c.st # "ok" THEN c ELSE
  IF c.v > Len(bs) - c.p + 1 THEN Err("eof") ELSE
  LET d == ReadDiffs(bs, c.p, c.v, 0, <<>>) IN IF d.st # "ok" THEN d ELSE Ok([hash |-> h.v, ix |-> d.v], d.p)
\* CBlockHeaderAndShortTxIDs: header, nonce (8 bytes), 6-byte short ids, prefilled transactions (compact-size 16-bit index,
\* transaction with witness)
SerPrefilled(pf) == WriteCSInt(pf.index) \o SerTx(pf.tx, TRUE)
SerCmpct(c) == SerHeader(c.header) \o c.nonce \o WriteVec(c.shortids) \o WriteVec([k \in 1..Len(c.prefilled) |-> SerPrefilled(c.prefilled[k])])
RECURSIVE ReadPrefilled(_, _, _, _)
ReadPrefilled(bs, p, n, acc) ==
  IF n = 0 THEN Ok(acc, p)
  ELSE LET i == ReadCount(bs, p) IN
       IF i.st # "ok" THEN i
       ELSE IF i.v > 65535 THEN Err("typelimit")                                          \* "CompactSize exceeds limit of type"
       ELSE LET t == DeserTxAt(bs, i.p, TRUE) IN IF t.st # "ok" THEN t ELSE ReadPrefilled(bs, t.p, n - 1, Append(acc, [index |-> i.v, tx |-> t.v]))
DeserCmpct(bs) ==
  LET h == DeserHeaderAt(bs, 1) IN IF h.st # "ok" THEN h ELSE
  LET n == ReadBytes(bs, h.p, 8) IN IF n.st # "ok" THEN n ELSE
  LET s == ReadVec(bs, n.p, "shortid") IN IF s.st # "ok" THEN s ELSE
  LET c == ReadCount(bs, s.p) IN IF c.st # "ok" THEN c ELSE
  IF c.v > Len(bs) - c.p + 1 THEN Err("eof") ELSE
  LET f == ReadPrefilled(bs, c.p, c.v, <<>>) IN IF f.st # "ok" THEN f ELSE
  Ok([header |-> h.v, nonce |-> n.v, shortids |-> s.v, prefilled |-> f.v], f.p)
\* CAddress in network format, IPv4 only: time (4 bytes), services (v1: 8 bytes; v2: compact size without range check),
\* v1: the IPv4-mapped IPv6 address (16 bytes); v2: network id 1, length 4, the four bytes; port big endian
V4Mapped == <<0, 0, 0, 0, 0, 0, 0, 0, 0, 0, 255, 255>>
SerAddr(a, v2) ==
  a.time \o (IF v2 THEN WriteCS(a.services) ELSE LimbBytes(a.services))
         \o (IF v2 THEN <<1, 4>> \o a.ip ELSE V4Mapped \o a.ip) \o BE2(a.port)
DeserAddr(bs, v2) ==
  LET t == ReadBytes(bs, 1, 4) IN IF t.st # "ok" THEN t ELSE
  LET s == IF v2 THEN ReadCS(bs, t.p, FALSE)
           ELSE IF Avail(bs, t.p, 8) THEN Ok(<<L16(bs, t.p), L16(bs, t.p + 2), L16(bs, t.p + 4), L16(bs, t.p + 6)>>, t.p + 8) ELSE Err("eof")
  IN IF s.st # "ok" THEN s ELSE
  LET ip == IF v2 THEN (IF ~Avail(bs, s.p, 2) THEN Err("eof")
                        ELSE IF bs[s.p] # 1 \/ bs[s.p + 1] # 4 THEN Err("notipv4")          \* outside this model (see NetAddr)
                        ELSE ReadBytes(bs, s.p + 2, 4))
            ELSE (IF ~Avail(bs, s.p, 16) THEN Err("eof")
                  ELSE IF SubSeq(bs, s.p, s.p + 11) # V4Mapped THEN Err("notipv4")
                  ELSE ReadBytes(bs, s.p + 12, 4))
  IN IF ip.st # "ok" THEN ip ELSE
  IF ~Avail(bs, ip.p, 2) THEN Err("eof") ELSE
  Ok([time |-> t.v, services |-> s.v, ip |-> ip.v, port |-> 256 * bs[ip.p] + bs[ip.p + 1]], ip.p + 2)
====
