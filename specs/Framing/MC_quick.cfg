CONSTANT Deep = FALSE
INIT Init
NEXT Next
INVARIANTS CompactSizeOK VarIntOK TxFramingOK P2pOK MoneyOK FormatMoneyOK IntegerOK EmitRow
CHECK_DEADLOCK FALSE
