---- MODULE Framing ----
(***************************************************************************)
(* C48: serialisation round trips and the reference format (engine E4).    *)
(*                                                                         *)
(* Wire.tla is the byte-exact reference (de)serialiser, Codecs.tla the     *)
(* case analyses of the text codecs.  This module enumerates the inputs,   *)
(* states the property's clauses as invariants (decided by TLC on every    *)
(* row) and emits one row per input for the harness:                       *)
(*   cs       every CompactSize length class x canonical / non-canonical   *)
(*            x range_check x truncation                                   *)
(*   varint   VARINT byte strings for 8 / 16 / 31-bit integer types        *)
(*   tx       BIP144 framing: serialisations of 0-2 input transactions     *)
(*            with / without / empty witnesses under both parameter sets,  *)
(*            hand-made extended encodings with every flag byte class,     *)
(*            trailing garbage, truncation; txid / wtxid preimages         *)
(*   p2p      header, block, inv, locator, getblocktxn (differential        *)
(*            indexes), cmpctblock, addr v1 / v2                           *)
(*   money, fmtmoney, int, b58   text codec decision tables                *)
(***************************************************************************)
EXTENDS Wire, Codecs, VF
CONSTANT Deep          \* FALSE: quick tier; TRUE: longer VARINT strings, more transaction shapes and flag bytes, truncation at every position

(***************************************************************************)
(* cs                                                                      *)
(***************************************************************************)
CsValues == { <<0, 0, 0, 0>>, <<1, 0, 0, 0>>, <<252, 0, 0, 0>>, <<253, 0, 0, 0>>, <<254, 0, 0, 0>>, <<255, 0, 0, 0>>, <<256, 0, 0, 0>>,
              <<65535, 0, 0, 0>>, <<0, 1, 0, 0>>, <<1, 1, 0, 0>>,
              <<65535, 511, 0, 0>>, <<0, 512, 0, 0>>, <<1, 512, 0, 0>>,                 \* MAX_SIZE - 1, MAX_SIZE, MAX_SIZE + 1
              <<65535, 32767, 0, 0>>, <<0, 32768, 0, 0>>, <<65535, 65535, 0, 0>>,       \* 2^31 - 1, 2^31, 2^32 - 1
              <<0, 0, 1, 0>>, <<1, 0, 1, 0>>, <<0, 0, 0, 32768>>, <<65535, 65535, 65535, 65535>> }   \* 2^32, 2^32 + 1, 2^63, 2^64 - 1
CsFits(w, l) == IF w = 1 THEN LLt(l, <<253, 0, 0, 0>>) ELSE IF w = 3 THEN l[2] = 0 /\ l[3] = 0 /\ l[4] = 0 ELSE IF w = 5 THEN l[3] = 0 /\ l[4] = 0 ELSE TRUE
CsRows == { [w |-> w, val |-> l, rc |-> rc, cut |-> cut] :
              w \in {1, 3, 5, 9}, l \in CsValues, rc \in BOOLEAN, cut \in {0, 1, 2, 8, 9} }
CsRowOk(r) == CsFits(r.w, r.val) /\ r.cut <= r.w
CsBytes(r) == SubSeq(CsForm(r.w, r.val), 1, r.w - r.cut)
\* declarative: exactly the complete, shortest encodings of values within the limit are accepted
CsAccept(r) == r.cut = 0 /\ r.w = CsWidth(r.val) /\ (r.rc => LLe(r.val, MaxSize))
CsInv(r) == LET d == ReadCS(CsBytes(r), 1, r.rc) IN
            /\ (d.st = "ok") <=> CsAccept(r)
            /\ d.st = "ok" => (d.v = r.val /\ d.p = r.w + 1)
            /\ (r.cut > 0 => d.st = "eof")
            /\ (r.cut = 0 /\ r.w # CsWidth(r.val)) => d.st = "noncanonical"
            /\ (r.cut = 0 /\ r.w = CsWidth(r.val)) => WriteCS(r.val) = CsBytes(r)           \* the writer produces the accepted form
CsEmit(r) == LET d == ReadCS(CsBytes(r), 1, r.rc) IN
             [kind |-> "cs", bytes |-> CsBytes(r), rc |-> r.rc, st |-> d.st, val |-> IF d.st = "ok" THEN d.v ELSE <<0, 0, 0, 0>>,
              used |-> IF d.st = "ok" THEN d.p - 1 ELSE 0, canonical |-> r.cut = 0 /\ r.w = CsWidth(r.val), full |-> r.val]

(***************************************************************************)
(* varint                                                                  *)
(***************************************************************************)
VarMax(T) == IF T = "u8" THEN 255 ELSE IF T = "u16" THEN 65535 ELSE 2147483647
VarAlphabet == {0, 1, 126, 127, 128, 129, 254, 255}
VarSeqs == UNION {[1..k -> VarAlphabet] : k \in 1..(IF Deep THEN 4 ELSE 3)}
VarBoundary == {0, 1, 127, 128, 255, 256, 16511, 16512, 65535, 65536, 2113663, 2113664, 270549119, 270549120, 2147483646, 2147483647}
VarRows == { [T |-> T, bytes |-> b, src |-> -1] : T \in {"u8", "u16"}, b \in VarSeqs }
      \cup { [T |-> "i32", bytes |-> pre \o SubSeq(WriteVarInt(n), 1, Len(WriteVarInt(n)) - cut), src |-> IF pre = <<>> /\ cut = 0 THEN n ELSE -1] :
               n \in VarBoundary, pre \in {<<>>, <<128>>, <<255>>, <<129>>}, cut \in {0, 1} }
      \cup { [T |-> T, bytes |-> WriteVarInt(n), src |-> n] : T \in {"u8", "u16"}, n \in {x \in VarBoundary : x <= 65535} }
VarInv(r) == LET d == ReadVarInt(r.bytes, 1, VarMax(r.T)) IN
             /\ d.st = "ok" => (d.v <= VarMax(r.T) /\ WriteVarInt(d.v) = SubSeq(r.bytes, 1, d.p - 1))     \* one encoding per value
             /\ (r.src >= 0 /\ r.src <= VarMax(r.T)) => (d.st = "ok" /\ d.v = r.src /\ d.p = Len(r.bytes) + 1)   \* round trip
             /\ (r.src > VarMax(r.T)) => d.st = "toolarge"
VarEmit(r) == LET d == ReadVarInt(r.bytes, 1, VarMax(r.T)) IN
              [kind |-> "varint", T |-> r.T, bytes |-> r.bytes, st |-> d.st, val |-> IF d.st = "ok" THEN d.v ELSE 0, used |-> IF d.st = "ok" THEN d.p - 1 ELSE 0]

(***************************************************************************)
(* tx                                                                      *)
(***************************************************************************)
Rep(k, b) == [j \in 1..k |-> b]
Hash32(k) == Rep(32, k)
MkIn(k, wit) == [prev |-> Hash32(16 + k) \o LE4(k - 1), script |-> <<80 + k>>, seq |-> <<253, 255, 255, 255>>, wit |-> wit]
MkOut(k) == [val |-> <<k, 2, 0, 0, 0, 0, 0, 0>>, script |-> <<81, k>>]
W0 == <<>>                          \* no witness
W1 == << <<170>> >>                 \* one item
W2 == << <<>> >>                    \* one empty item (the stack is not empty)
W3 == << <<1, 2>>, <<>> >>
MkTx(wits, nout) == [ver |-> <<2, 0, 0, 0>>, vin |-> [i \in 1..Len(wits) |-> MkIn(i, wits[i])], vout |-> [j \in 1..nout |-> MkOut(j)], lock |-> <<7, 0, 0, 0>>]
WitChoices == {<<>>, <<W0>>, <<W1>>, <<W2>>, <<W3>>, <<W0, W0>>, <<W0, W1>>, <<W1, W0>>, <<W1, W3>>}
              \cup (IF Deep THEN {<<W2, W1>>, <<W3, W3>>, <<W0, W0, W0>>, <<W0, W0, W1>>, <<W1, W1, W1>>} ELSE {})
MaxOut == IF Deep THEN 3 ELSE 2
EmptyTx == [ver |-> <<>>, vin |-> <<>>, vout |-> <<>>, lock |-> <<>>]
Mod(bs, m) == IF m = "trail" THEN bs \o <<153>> ELSE IF m = "cut1" THEN SubSeq(bs, 1, Len(bs) - 1)
              ELSE IF m = "cuthalf" THEN SubSeq(bs, 1, Len(bs) \div 2) ELSE bs
\* (A) what SerializeTransaction writes, read back under either parameter set
TxSerRows == { [src |-> "ser", wits |-> w, nout |-> nout, aws |-> aws, aw |-> aw, mod |-> m] :
                 w \in WitChoices, nout \in 0..MaxOut, aws \in BOOLEAN, aw \in BOOLEAN, m \in {"none", "trail", "cut1", "cuthalf"} }
\* (A') Deep: the same serialisations cut after every byte
TxCutRows == IF Deep THEN { [src |-> "ser", wits |-> w, nout |-> nout, aws |-> aws, aw |-> aws, mod |-> "cutk", k |-> k] :
                              w \in WitChoices, nout \in 0..MaxOut, aws \in BOOLEAN, k \in 1..250 }
             ELSE {}
TxCutRowOk(r) == r.k < Len(SerTx(MkTx(r.wits, r.nout), r.aws))
\* (B) hand-made extended encodings: marker, any flag byte, witness section absent / all stacks empty / first stack non-empty
ExtWits(nin, sec) == [i \in 1..nin |-> IF sec = "some" /\ i = 1 THEN W1 ELSE W0]
ExtBytes(r) ==
  LET tx == MkTx(ExtWits(r.nin, r.sec), r.nout) IN
     tx.ver \o <<0, r.flag>>
  \o WriteVec([i \in 1..r.nin |-> SerTxIn(tx.vin[i])]) \o WriteVec([j \in 1..r.nout |-> SerTxOut(tx.vout[j])])
  \o (IF r.sec = "absent" THEN <<>> ELSE Concat([i \in 1..r.nin |-> SerWitStack(tx.vin[i].wit)]))
  \o tx.lock
TxExtRows == { [src |-> "ext", flag |-> f, nin |-> nin, nout |-> nout, sec |-> sec, aw |-> aw, mod |-> m] :
                 f \in {0, 1, 2, 3, 128, 129} \cup (IF Deep THEN {4, 5, 127, 254, 255} ELSE {}), nin \in 0..2, nout \in 0..1, sec \in {"absent", "empty", "some"}, aw \in BOOLEAN, m \in {"none", "trail"} }
TxExtRowOk(r) == r.sec = "some" => r.nin >= 1
TxBase(r) == IF r.src = "ser" THEN SerTx(MkTx(r.wits, r.nout), r.aws) ELSE ExtBytes(r)
TxBytes(r) == IF r.mod = "cutk" THEN SubSeq(TxBase(r), 1, r.k) ELSE Mod(TxBase(r), r.mod)

TxInv(r) ==
  LET bs == TxBytes(r)
      d == DeserTx(bs, r.aw)
      d0 == DeserTx(TxBase(r), r.aw)            \* the same input without trailing byte / truncation
  IN /\ r.src = "ser" =>
          LET tx == MkTx(r.wits, r.nout) IN
          \* what the txid and the wtxid commit to
          /\ SerTx(StripWitness(tx), TRUE) = SerTx(tx, FALSE)
          /\ (SerTx(tx, TRUE) = SerTx(tx, FALSE)) <=> ~HasWitness(tx)
          \* round trip without witness: always, and the witness is dropped
          /\ (r.mod = "none" /\ ~r.aws /\ ~r.aw) => (d.st = "ok" /\ d.v = StripWitness(tx) /\ d.p = Len(bs) + 1)
          \* round trip with witness: every transaction with an input, and the transaction without inputs and outputs
          /\ (r.mod = "none" /\ r.aws /\ r.aw /\ (Len(tx.vin) >= 1 \/ Len(tx.vout) = 0)) => (d.st = "ok" /\ d.v = tx /\ d.p = Len(bs) + 1)
          \* the BIP144 ambiguity: no inputs but outputs - the vin count is taken for the marker and the object does not survive
          /\ (r.mod = "none" /\ r.aws /\ r.aw /\ Len(tx.vin) = 0 /\ Len(tx.vout) >= 1) => ~(d.st = "ok" /\ d.v = tx)
          \* a truncated serialisation is rejected
          /\ (r.mod \in {"cut1", "cuthalf", "cutk"} /\ r.aws = r.aw /\ Len(tx.vin) >= 1) => d.st # "ok"
     \* trailing bytes are left unread, the object is the same
     /\ (r.mod = "trail" /\ d0.st = "ok") => (d.st = "ok" /\ d.v = d0.v /\ d.p = d0.p)
     /\ (r.src = "ext" /\ r.aw /\ r.mod = "none") =>
          LET tx == MkTx(ExtWits(r.nin, r.sec), r.nout) IN
          IF r.flag = 0 THEN
               \* not an extended encoding at all: the empty transaction, everything after its ten bytes unread
               (d.st = "ok" /\ d.v.vin = <<>> /\ d.v.vout = <<>> /\ d.p = 11)
          ELSE \* BIP144: flag exactly 1, witness section present, not all stacks empty
               /\ (d.st = "ok") <=> (r.flag = 1 /\ r.sec = "some")
               /\ d.st = "ok" => (d.v = tx /\ d.p = Len(bs) + 1)
               /\ (r.flag = 1 /\ r.sec = "empty") => d.st = "superfluous"
               /\ (r.flag % 2 = 0 /\ r.sec # "absent") => d.st = "unknownflag"
               /\ (r.flag % 2 = 1 /\ r.flag # 1 /\ r.sec = "some") => d.st = "unknownflag"
TxEmit(r) ==
  LET bs == TxBytes(r)
      d == DeserTx(bs, r.aw)
      plain == r.src = "ser" /\ r.mod = "none"
      tx == IF r.src = "ser" THEN MkTx(r.wits, r.nout) ELSE EmptyTx
  IN [kind |-> "tx", src |-> r.src, mod |-> r.mod, bytes |-> bs, aw |-> r.aw, st |-> d.st,
      tx |-> IF d.st = "ok" THEN d.v ELSE EmptyTx, rest |-> IF d.st = "ok" THEN Len(bs) - d.p + 1 ELSE 0,
      \* rows that are the serialisation of a known object: the harness builds the object and compares the bytes and the hashes
      plain |-> plain, aws |-> IF r.src = "ser" THEN r.aws ELSE FALSE, obj |-> tx,
      txidpre |-> IF plain THEN SerTx(tx, FALSE) ELSE <<>>,
      wtxidpre |-> IF plain THEN (IF HasWitness(tx) THEN SerTx(tx, TRUE) ELSE SerTx(tx, FALSE)) ELSE <<>>]

(***************************************************************************)
(* p2p                                                                     *)
(***************************************************************************)
Hdr == [ver |-> <<1, 0, 0, 32>>, prev |-> Hash32(3), root |-> Hash32(4), time |-> <<41, 171, 95, 73>>, bits |-> <<255, 255, 0, 29>>, nonce |-> <<42, 0, 0, 0>>]
T1 == MkTx(<<W0>>, 1)
T2 == MkTx(<<W1, W0>>, 2)
Mods3 == {"none", "trail", "cut1"}
P2pRows ==
       { [obj |-> "header", mod |-> m] : m \in Mods3 }
  \cup { [obj |-> "block", vtx |-> v, aws |-> aws, aw |-> aw, mod |-> m] : v \in {<<>>, <<T1>>, <<T1, T2>>}, aws \in BOOLEAN, aw \in BOOLEAN, m \in Mods3 }
  \cup { [obj |-> "inv", type |-> t, mod |-> m] : t \in {<<1, 0, 0, 0>>, <<2, 0, 0, 64>>}, m \in Mods3 }
  \cup { [obj |-> "locator", have |-> h, ver |-> v, mod |-> m] : h \in {<<>>, <<Hash32(5)>>, <<Hash32(5), Hash32(6)>>}, v \in {DummyVersion, <<1, 0, 0, 0>>}, m \in Mods3 }
  \cup { [obj |-> "getblocktxn", diffs |-> d, mod |-> m] : d \in UNION {[1..k -> {0, 1, 65534, 65535, 65536}] : k \in 0..3}, m \in {"none"} }
  \cup { [obj |-> "getblocktxn", diffs |-> d, mod |-> m] : d \in {<<0, 1>>, <<65535>>}, m \in {"trail", "cut1"} }
  \cup { [obj |-> "cmpctblock", nids |-> n, pf |-> p, mod |-> m] : n \in 0..2, p \in {<<>>, <<0>>, <<0, 65535>>, <<65536>>, <<1, 65536>>}, m \in Mods3 }
  \cup { [obj |-> "addr", v2 |-> v2, services |-> s, mod |-> m] :
           v2 \in BOOLEAN, s \in {<<0, 0, 0, 0>>, <<1, 0, 0, 0>>, <<1033, 0, 0, 0>>, <<252, 0, 0, 0>>, <<253, 0, 0, 0>>, <<0, 1, 0, 0>>, <<1033, 0, 1, 0>>, <<65535, 65535, 65535, 65535>>}, m \in Mods3 }
\* the differences as they are on the wire (BlockTransactionsRequest)
GbtBytes(d) == Hash32(9) \o WriteCSInt(Len(d)) \o Concat([k \in 1..Len(d) |-> WriteCSInt(d[k])])
RECURSIVE DiffsToIx(_, _)
DiffsToIx(d, shift) == IF Len(d) = 0 THEN <<>> ELSE <<shift + Head(d)>> \o DiffsToIx(Tail(d), shift + Head(d) + 1)
CmpctObj(r) == [header |-> Hdr, nonce |-> <<1, 2, 3, 4, 5, 6, 7, 8>>, shortids |-> [k \in 1..r.nids |-> Rep(6, 96 + k)],
                prefilled |-> [k \in 1..Len(r.pf) |-> [index |-> r.pf[k], tx |-> IF k = 1 THEN T1 ELSE T2]]]
AddrObj(r) == [time |-> <<0, 144, 206, 101>>, services |-> r.services, ip |-> <<1, 2, 3, 4>>, port |-> 8333]
P2pBase(r) ==
  CASE r.obj = "header" -> SerHeader(Hdr)
    [] r.obj = "block" -> SerBlock([header |-> Hdr, vtx |-> r.vtx], r.aws)
    [] r.obj = "inv" -> SerInv([type |-> r.type, hash |-> Hash32(7)])
    [] r.obj = "locator" -> r.ver \o WriteVec(r.have)
    [] r.obj = "getblocktxn" -> GbtBytes(r.diffs)
    [] r.obj = "cmpctblock" -> SerCmpct(CmpctObj(r))
    [] r.obj = "addr" -> SerAddr(AddrObj(r), r.v2)
P2pBytes(r) == Mod(P2pBase(r), r.mod)
P2pDeser(r, bs) ==
  CASE r.obj = "header" -> DeserHeaderAt(bs, 1)
    [] r.obj = "block" -> DeserBlock(bs, r.aw)
    [] r.obj = "inv" -> DeserInv(bs)
    [] r.obj = "locator" -> DeserLocator(bs)
    [] r.obj = "getblocktxn" -> DeserGetBlockTxn(bs)
    [] r.obj = "cmpctblock" -> DeserCmpct(bs)
    [] r.obj = "addr" -> DeserAddr(bs, r.v2)
\* the object the bytes were made from (where there is one), as the reader should return it
P2pObject(r) ==
  CASE r.obj = "header" -> Hdr
    [] r.obj = "block" -> [header |-> Hdr, vtx |-> IF r.aws /\ r.aw THEN r.vtx ELSE [k \in 1..Len(r.vtx) |-> StripWitness(r.vtx[k])]]
    [] r.obj = "inv" -> [type |-> r.type, hash |-> Hash32(7)]
    [] r.obj = "locator" -> r.have
    [] r.obj = "getblocktxn" -> [hash |-> Hash32(9), ix |-> DiffsToIx(r.diffs, 0)]
    [] r.obj = "cmpctblock" -> CmpctObj(r)
    [] r.obj = "addr" -> AddrObj(r)
\* declarative: which inputs are readable
P2pReadable(r) ==
  CASE r.obj = "block" -> r.aws = r.aw \/ \A k \in 1..Len(r.vtx) : ~HasWitness(r.vtx[k])   \* a witness serialisation needs the witness parameters
    [] r.obj = "getblocktxn" -> LET ix == DiffsToIx(r.diffs, 0) IN \A k \in 1..Len(ix) : ix[k] <= 65535     \* indexes are 16 bit
    [] r.obj = "cmpctblock" -> \A k \in 1..Len(r.pf) : r.pf[k] <= 65535
    [] OTHER -> TRUE
P2pInv(r) ==
  LET bs == P2pBytes(r)
      d == P2pDeser(r, bs)
      d0 == P2pDeser(r, P2pBase(r))
  IN /\ (r.mod = "none" /\ (r.obj # "block" \/ r.aws = r.aw)) => ((d.st = "ok") <=> P2pReadable(r))
     /\ (r.mod = "none" /\ d.st = "ok" /\ (r.obj # "block" \/ r.aws = r.aw)) => (d.v = P2pObject(r) /\ d.p = Len(bs) + 1)    \* round trip
     /\ (r.mod = "trail" /\ d0.st = "ok") => (d.st = "ok" /\ d.v = d0.v /\ d.p = d0.p)                  \* trailing bytes stay unread
     /\ (r.mod = "cut1" /\ (r.obj # "block" \/ r.aws = r.aw)) => d.st # "ok"                             \* truncation is rejected
     /\ (r.obj = "getblocktxn" /\ d.st = "ok") => (Increasing(d.v.ix) /\ SerGetBlockTxn(d.v) = SubSeq(bs, 1, d.p - 1))
     /\ (r.obj = "getblocktxn" /\ r.mod = "none" /\ ~P2pReadable(r)) => d.st = "overflow"
P2pCanon(r) == r.mod = "none" /\ (r.obj = "locator" => r.ver = DummyVersion) /\ (r.obj = "block" => (r.aws = r.aw))
               /\ (r.obj = "cmpctblock" => \A k \in 1..Len(r.pf) : r.pf[k] <= 65535)
               /\ (r.obj = "getblocktxn" => \A k \in 1..Len(DiffsToIx(r.diffs, 0)) : DiffsToIx(r.diffs, 0)[k] <= 65535)
P2pEmit(r) ==
  LET bs == P2pBytes(r)
      d == P2pDeser(r, bs)
  IN [kind |-> "p2p", obj |-> r.obj, mod |-> r.mod, bytes |-> bs,
      aw |-> IF r.obj = "block" THEN r.aw ELSE TRUE, v2 |-> IF r.obj = "addr" THEN r.v2 ELSE FALSE,
      st |-> d.st, v |-> IF d.st = "ok" THEN <<d.v>> ELSE <<>>, rest |-> IF d.st = "ok" THEN Len(bs) - d.p + 1 ELSE 0,
      \* canon: the bytes are what the writer produces for the decoded object
      canon |-> P2pCanon(r) /\ d.st = "ok"]

(***************************************************************************)
(* text codecs                                                             *)
(***************************************************************************)
RECURSIVE Zeros(_)
Zeros(n) == IF n <= 0 THEN <<>> ELSE <<0>> \o Zeros(n - 1)
MoneyWholes == { <<>>, <<0>>, <<1>>, <<0, 0, 7>>, <<2, 0, 9, 9, 9, 9, 9, 9>>, <<2, 1, 0, 0, 0, 0, 0, 0>>, <<2, 1, 0, 0, 0, 0, 0, 1>>,
                 <<0, 0, 2, 1, 0, 0, 0, 0, 0, 0>>, <<0, 0, 0, 2, 1, 0, 0, 0, 0, 0, 0>>, <<9, 9, 9, 9, 9, 9, 9, 9, 9, 9>>, <<0, 0, 0, 0, 0, 0, 0, 0, 0, 0, 1>> }
MoneyFracs == { <<>>, <<5>>, <<0, 0, 0, 0, 0, 0, 0, 1>>, <<9, 9, 9, 9, 9, 9, 9, 9>>, <<0, 0, 0, 0, 0, 0, 0, 0>>, <<0, 0, 0, 0, 0, 0, 0, 0, 1>>, <<0, 0, 0, 0, 0, 0, 0, 0, 0>> }
MoneyDefects == {"none", "lead", "trail", "both", "minus", "plus", "inner", "letter", "nul", "tailminus", "dot2", "innerfrac"}
MoneyStr(w, dot, f, defect) ==
  LET core == w \o (IF defect = "inner" THEN <<SP>> ELSE <<>>) \o (IF dot THEN <<DOT>> \o (IF defect = "innerfrac" THEN <<SP>> ELSE <<>>) \o f ELSE <<>>) IN
  CASE defect = "lead" -> <<SP, TAB>> \o core
    [] defect = "trail" -> core \o <<SP>>
    [] defect = "both" -> <<TAB>> \o core \o <<SP, SP>>
    [] defect = "minus" -> <<MINUS>> \o core
    [] defect = "plus" -> <<PLUS>> \o core
    [] defect = "letter" -> core \o <<LETTER>>
    [] defect = "nul" -> core \o <<NUL>>
    [] defect = "tailminus" -> core \o <<MINUS>>
    [] defect = "dot2" -> core \o <<DOT>>
    [] OTHER -> core
MoneyRows == { [w |-> w, dot |-> dot, f |-> f, defect |-> x] : w \in MoneyWholes, dot \in BOOLEAN, f \in MoneyFracs, x \in MoneyDefects }
\* a blank counts as "inside" only with something on both sides of it (otherwise it is trimmed)
MoneyRowOk(r) == (~r.dot => r.f = <<>>) /\ (r.defect = "inner" => (r.w # <<>> /\ r.dot)) /\ (r.defect = "innerfrac" => (r.dot /\ r.f # <<>>))
MoneyInv(r) ==
  LET s == MoneyStr(r.w, r.dot, r.f, r.defect) p == ParseMoney(s) IN
  /\ p.ok <=> MoneyWellFormed(s)
  /\ p.ok => p.v = MoneyDenoted(s)
  /\ r.defect \in {"minus", "plus", "letter", "nul", "tailminus", "inner", "innerfrac"} => ~p.ok       \* malformed input is rejected
MoneyEmit(r) == LET s == MoneyStr(r.w, r.dot, r.f, r.defect) p == ParseMoney(s) IN [kind |-> "money", str |-> s, ok |-> p.ok, v |-> p.v]

FmtAmounts == { AZero, Amt(FALSE, 0, 0, 1), Amt(FALSE, 0, 0, 10), Amt(FALSE, 0, 0, 12345678), Amt(FALSE, 0, 0, 50000000), Amt(FALSE, 0, 1, 0), Amt(FALSE, 0, 1, 23456789),
                Amt(FALSE, 0, 1, 50000000), Amt(FALSE, 0, 12345678, 90000000), Amt(FALSE, 0, 20999999, 99999999), MaxMoney, Amt(FALSE, 0, 21000000, 1),
                Amt(FALSE, 1, 0, 0), I64Max, Amt(TRUE, 0, 0, 1), Amt(TRUE, 0, 1, 0), Amt(TRUE, 0, 21000000, 50000000), I64Min }
FmtInv(a) == LET s == FormatMoney(a) p == ParseMoney(s) IN
             /\ MoneyRange(a) => (p.ok /\ p.v = a)                 \* non-negative money amounts round-trip
             /\ ~MoneyRange(a) => ~p.ok
FmtEmit(a) == LET s == FormatMoney(a) p == ParseMoney(s) IN [kind |-> "fmtmoney", amt |-> a, str |-> s, ok |-> p.ok, v |-> p.v]

Nines == <<9, 9, 9, 9, 9, 9, 9, 9, 9, 9, 9, 9, 9, 9, 9, 9, 9, 9, 9, 9, 9, 9, 9>>
IntMags(T) == { <<>>, <<0>>, <<1>>, MaxDigits(T), PlusOne(MaxDigits(T)), PlusOne(PlusOne(MaxDigits(T))), Nines }
IntDefects == {"none", "lead", "trail", "letter", "dot0", "nul", "innerminus"}
IntStr(sign, nz, mag, defect) ==
  LET core == sign \o Zeros(nz) \o mag IN
  CASE defect = "lead" -> <<SP>> \o core
    [] defect = "trail" -> core \o <<SP>>
    [] defect = "letter" -> core \o <<LETTER>>
    [] defect = "dot0" -> core \o <<DOT, 0>>
    [] defect = "nul" -> core \o <<NUL>>
    [] defect = "innerminus" -> sign \o Zeros(nz) \o <<MINUS>> \o mag
    [] OTHER -> core
IntRows == { [T |-> T, sign |-> sg, nz |-> nz, mag |-> mag, defect |-> x] :
               T \in IntTypes, sg \in {<<>>, <<MINUS>>, <<PLUS>>}, nz \in {0, 2}, mag \in UNION {IntMags(TT) : TT \in IntTypes}, x \in IntDefects }
IntRowOk(r) == r.mag \in IntMags(r.T) /\ (r.defect = "innerminus" => (r.sign # <<>> \/ r.nz > 0))
\* declarative: an optional minus (signed types only), then at least one digit and nothing else, denoting a value of the type
IntWellFormed(T, s) ==
  LET neg == Len(s) > 0 /\ s[1] = MINUS
      ds == IF neg THEN Tail(s) ELSE s
  IN /\ (neg => Signed(T)) /\ Len(ds) >= 1 /\ AllDigits(ds)
     /\ DLe(StripZeros(ds), IF neg THEN MinMagDigits(T) ELSE MaxDigits(T))
IntInv(r) ==
  LET s == IntStr(r.sign, r.nz, r.mag, r.defect) p == ToIntegral(r.T, s) IN
  /\ p.ok <=> IntWellFormed(r.T, s)
  /\ p.ok => (ToIntegral(r.T, FormatInt(p.neg, p.mag)) = p)                        \* the canonical string of the value reads back
  /\ r.defect # "none" => ~p.ok
  /\ r.sign = <<PLUS>> => ~p.ok
IntEmit(r) == LET s == IntStr(r.sign, r.nz, r.mag, r.defect) p == ToIntegral(r.T, s) IN
              [kind |-> "int", T |-> r.T, str |-> s, ok |-> p.ok, neg |-> p.neg, mag |-> p.mag]

B58Payloads == { <<>>, <<0>>, <<0, 0, 7>>, <<5, 1, 2, 3, 4, 5>>, <<111>> \o Rep(20, 171) }
B58Rows == { [payload |-> p, checksum |-> c, ws |-> ws, inner |-> inn, nul |-> nul, maxlen |-> ml] :
               p \in B58Payloads, c \in {"right", "wrong", "short"}, ws \in {"none", "lead", "trail", "both"}, inn \in {"none", "space", "badchar"},
               nul \in BOOLEAN, ml \in {"less", "exact", "more"} }
B58RowOk(r) == (r.checksum = "short" => r.payload = <<>>) /\ (r.maxlen = "less" => Len(r.payload) > 0)
B58Emit(r) == [kind |-> "b58", payload |-> r.payload, checksum |-> r.checksum, ws |-> r.ws, inner |-> r.inner, nul |-> r.nul, maxlen |-> r.maxlen,
               ok |-> Base58CheckAccepts(r)]

(***************************************************************************)
(* Enumeration: one state per row                                          *)
(***************************************************************************)
VARIABLES kind, row
vars == <<kind, row>>
Init == \/ (kind = "cs" /\ row \in CsRows /\ CsRowOk(row))
        \/ (kind = "varint" /\ row \in VarRows)
        \/ (kind = "tx" /\ row \in TxSerRows)
        \/ (kind = "tx" /\ row \in TxExtRows /\ TxExtRowOk(row))
        \/ (kind = "tx" /\ row \in TxCutRows /\ TxCutRowOk(row))
        \/ (kind = "p2p" /\ row \in P2pRows)
        \/ (kind = "money" /\ row \in MoneyRows /\ MoneyRowOk(row))
        \/ (kind = "fmtmoney" /\ row \in FmtAmounts)
        \/ (kind = "int" /\ row \in IntRows /\ IntRowOk(row))
        \/ (kind = "b58" /\ row \in B58Rows /\ B58RowOk(row))
Next == UNCHANGED vars

CompactSizeOK == kind = "cs" => CsInv(row)
VarIntOK == kind = "varint" => VarInv(row)
TxFramingOK == kind = "tx" => TxInv(row)
P2pOK == kind = "p2p" => P2pInv(row)
MoneyOK == kind = "money" => MoneyInv(row)
FormatMoneyOK == kind = "fmtmoney" => FmtInv(row)
IntegerOK == kind = "int" => IntInv(row)
EmitRow == VFRow(CASE kind = "cs" -> CsEmit(row) [] kind = "varint" -> VarEmit(row) [] kind = "tx" -> TxEmit(row) [] kind = "p2p" -> P2pEmit(row)
                   [] kind = "money" -> MoneyEmit(row) [] kind = "fmtmoney" -> FmtEmit(row) [] kind = "int" -> IntEmit(row) [] kind = "b58" -> B58Emit(row))
====
