---- MODULE Codecs ----
(***************************************************************************)
(* Secondary decision tables of C48 (operators only): the accept / reject  *)
(* case analyses of ParseMoney / FormatMoney (src/util/moneystr.cpp),      *)
(* ToIntegral<T> (src/util/strencodings.h) and DecodeBase58Check           *)
(* (src/base58.cpp).  A string is a sequence of character codes:           *)
(*   0..9 the digits, DOT, SP (space), TAB, MINUS, PLUS, LETTER ('x'),     *)
(*   NUL (an embedded zero byte).  The harness renders them.               *)
(* The byte-level fidelity of the hex / base58 / base64 / base32 alphabets *)
(* is not decided by this model (stated in the manifest).                  *)
(***************************************************************************)
EXTENDS Integers, Sequences, FiniteSets, TLC, Amount

DOT == 10  SP == 11  TAB == 12  MINUS == 13  PLUS == 14  LETTER == 15  NUL == 16
IsDigitC(t) == t \in 0..9
IsSpaceC(t) == t \in {SP, TAB}
AllDigits(s) == \A k \in 1..Len(s) : IsDigitC(s[k])
HasNul(s) == \E k \in 1..Len(s) : s[k] = NUL

RECURSIVE TrimL(_)
TrimL(s) == IF Len(s) > 0 /\ IsSpaceC(Head(s)) THEN TrimL(Tail(s)) ELSE s
RECURSIVE TrimR(_)
TrimR(s) == IF Len(s) > 0 /\ IsSpaceC(s[Len(s)]) THEN TrimR(SubSeq(s, 1, Len(s) - 1)) ELSE s
Trim(s) == TrimR(TrimL(s))

RECURSIVE DigitsInt(_)
DigitsInt(ds) == IF Len(ds) = 0 THEN 0 ELSE 10 * DigitsInt(SubSeq(ds, 1, Len(ds) - 1)) + ds[Len(ds)]     \* at most 9 digits
RECURSIVE Digits(_)
Digits(n) == IF n < 10 THEN <<n>> ELSE Digits(n \div 10) \o <<n % 10>>
RECURSIVE ZeroDigits(_)
ZeroDigits(n) == IF n <= 0 THEN <<>> ELSE <<0>> \o ZeroDigits(n - 1)
Pad8(n) == LET d == Digits(n) IN ZeroDigits(8 - Len(d)) \o d
RECURSIVE StripZeros(_)
StripZeros(ds) == IF Len(ds) > 1 /\ Head(ds) = 0 THEN StripZeros(Tail(ds)) ELSE ds

(***************************************************************************)
(* Money                                                                   *)
(***************************************************************************)
\* whole (at most 10 digits) and units (0 .. 10^8 - 1) as an exact amount: the limb base of module Amount is 10^8 = COIN
MoneyVal(whole, units) ==
  LET n == Len(whole)
      lo == IF n <= 8 THEN whole ELSE SubSeq(whole, n - 7, n)
      hi == IF n <= 8 THEN <<>> ELSE SubSeq(whole, 1, n - 8)
  IN Amt(FALSE, DigitsInt(hi), DigitsInt(lo), units)

Reject == [ok |-> FALSE, v |-> AZero]
Accept(v) == [ok |-> TRUE, v |-> v]

\* procedural: the scanning loop of ParseMoney
RECURSIVE ScanFrac(_, _, _, _)
ScanFrac(s, p, mult, units) ==
  IF p <= Len(s) /\ IsDigitC(s[p]) /\ mult > 0 THEN ScanFrac(s, p + 1, mult \div 10, units + mult * s[p]) ELSE [units |-> units, p |-> p]
RECURSIVE ScanWhole(_, _, _)
ScanWhole(s, p, whole) ==
  IF p > Len(s) THEN [ok |-> TRUE, whole |-> whole, units |-> 0, p |-> p]
  ELSE IF s[p] = DOT THEN LET f == ScanFrac(s, p + 1, 10000000, 0) IN [ok |-> TRUE, whole |-> whole, units |-> f.units, p |-> f.p]
  ELSE IF ~IsDigitC(s[p]) THEN [ok |-> FALSE, whole |-> whole, units |-> 0, p |-> p]
  ELSE ScanWhole(s, p + 1, Append(whole, s[p]))
ParseMoney(str) ==
  IF HasNul(str) THEN Reject
  ELSE LET s == Trim(str) IN
       IF s = <<>> THEN Reject
       ELSE LET r == ScanWhole(s, 1, <<>>) IN
            IF ~r.ok \/ r.p <= Len(s) THEN Reject                  \* a character that is neither digit nor the one dot, or a 9th decimal
            ELSE IF Len(r.whole) > 10 THEN Reject                  \* "guard against 63 bit overflow"
            ELSE LET v == MoneyVal(r.whole, r.units) IN IF MoneyRange(v) THEN Accept(v) ELSE Reject

\* declarative: after trimming blanks the string is W or W.F with W at most 10 and F at most 8 digits (both may be empty, the
\* string may not), nothing else, and the amount W.F coins lies in the money range
FirstDot(s) == IF \E k \in 1..Len(s) : s[k] = DOT THEN CHOOSE k \in 1..Len(s) : s[k] = DOT /\ \A j \in 1..(k - 1) : s[j] # DOT ELSE Len(s) + 1
MoneyWellFormed(str) ==
  /\ ~HasNul(str)
  /\ LET s == Trim(str) k == FirstDot(s) W == SubSeq(s, 1, k - 1) F == SubSeq(s, k + 1, Len(s)) IN
     /\ s # <<>> /\ AllDigits(W) /\ AllDigits(F) /\ Len(W) <= 10 /\ Len(F) <= 8
     /\ MoneyRange(MoneyVal(W, DigitsInt(F \o ZeroDigits(8 - Len(F)))))
MoneyDenoted(str) ==
  LET s == Trim(str) k == FirstDot(s) W == SubSeq(s, 1, k - 1) F == SubSeq(s, k + 1, Len(s)) IN MoneyVal(W, DigitsInt(F \o ZeroDigits(8 - Len(F))))

\* FormatMoney of an amount a = sign, <<lo, mid, hi>>: lo is the remainder modulo COIN, hi * 10^8 + mid the quotient
TrailingZeros(ds) == IF \E k \in 1..Len(ds) : ds[k] # 0 THEN Len(ds) - (CHOOSE k \in 1..Len(ds) : ds[k] # 0 /\ \A j \in (k + 1)..Len(ds) : ds[j] = 0) ELSE Len(ds)
FormatMoney(a) ==
  LET q == IF a.d[3] > 0 THEN Digits(a.d[3]) \o Pad8(a.d[2]) ELSE Digits(a.d[2])
      r == Pad8(a.d[1])
      tz == TrailingZeros(r)
      keep == IF 8 - tz < 2 THEN 2 ELSE 8 - tz             \* excess zeros are trimmed, two decimals always stay
  IN (IF a.neg THEN <<MINUS>> ELSE <<>>) \o q \o <<DOT>> \o SubSeq(r, 1, keep)

(***************************************************************************)
(* Integer strings: ToIntegral<T>(str), base 10 (std::from_chars, whole     *)
(* string must be consumed)                                                *)
(***************************************************************************)
IntTypes == {"u8", "i8", "u16", "i32", "u32", "i64", "u64"}
Signed(T) == T \in {"i8", "i32", "i64"}
MaxDigits(T) == CASE T = "u8" -> <<2, 5, 5>> [] T = "i8" -> <<1, 2, 7>> [] T = "u16" -> <<6, 5, 5, 3, 5>>
                  [] T = "i32" -> <<2, 1, 4, 7, 4, 8, 3, 6, 4, 7>> [] T = "u32" -> <<4, 2, 9, 4, 9, 6, 7, 2, 9, 5>>
                  [] T = "i64" -> <<9, 2, 2, 3, 3, 7, 2, 0, 3, 6, 8, 5, 4, 7, 7, 5, 8, 0, 7>>
                  [] T = "u64" -> <<1, 8, 4, 4, 6, 7, 4, 4, 0, 7, 3, 7, 0, 9, 5, 5, 1, 6, 1, 5>>
\* |min| = max + 1 for the signed types
PlusOne(ds) == [ds EXCEPT ![Len(ds)] = @ + 1]          \* the bounds used here do not end in 9
MinMagDigits(T) == PlusOne(MaxDigits(T))
\* comparison of canonical (no leading zeros) digit strings
DLe(a, b) == \/ Len(a) < Len(b)
             \/ Len(a) = Len(b) /\ (a = b \/ \E k \in 1..Len(a) : a[k] < b[k] /\ \A j \in 1..(k - 1) : a[j] = b[j])
IntReject == [ok |-> FALSE, neg |-> FALSE, mag |-> <<0>>]
ToIntegral(T, str) ==
  LET neg == Signed(T) /\ Len(str) > 0 /\ str[1] = MINUS
      ds == IF neg THEN Tail(str) ELSE str
  IN IF Len(ds) = 0 \/ ~AllDigits(ds) THEN IntReject                            \* no digit matched, or something is left over
     ELSE LET mag == StripZeros(ds) IN
          IF ~DLe(mag, IF neg THEN MinMagDigits(T) ELSE MaxDigits(T)) THEN IntReject     \* result_out_of_range
          ELSE [ok |-> TRUE, neg |-> neg /\ mag # <<0>>, mag |-> mag]
\* the canonical decimal string of a value
FormatInt(neg, mag) == (IF neg THEN <<MINUS>> ELSE <<>>) \o mag

(***************************************************************************)
(* Base58Check: the string is EncodeBase58(payload + checksum) with        *)
(* optional blanks around it.  Classes: checksum right / one byte wrong /  *)
(* fewer than four bytes in total; blanks before / after; a blank or a      *)
(* character outside the alphabet in the middle; max_ret_len relative to   *)
(* the payload length.                                                     *)
(***************************************************************************)
Base58CheckAccepts(c) ==
  /\ c.checksum = "right"
  /\ c.inner = "none"
  /\ ~c.nul
  /\ c.maxlen \in {"exact", "more"}            \* max_ret_len >= payload length
====
