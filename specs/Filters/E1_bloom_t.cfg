CONSTANTS
  Universe = {"empty", "a", "b", "c", "hash", "outpoint"}
  Configs = {"c3_01", "c10_1e6", "c1000", "matchall", "nohash", "one_byte"}
INIT Init
NEXT Next
VIEW View0
PROPERTY Monotone
ACTION_CONSTRAINT Emit
CHECK_DEADLOCK FALSE
