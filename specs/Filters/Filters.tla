---- MODULE Filters ----
(***************************************************************************)
(* C51: probabilistic filters never produce false negatives.  Common part  *)
(* of the three sub-models (BloomFilter, RollingFilter, GcsFilter).        *)
(*                                                                         *)
(* The model of a filter is an abstract SET.  The comparison is one-sided: *)
(* what the model says is a member, the implementation must report as a    *)
(* member; about everything else the model says nothing (false positives   *)
(* are allowed).  This is expressed in the projection itself: Must(S) is a *)
(* record with one field per element that must be reported, and the        *)
(* harness compares only the fields present in the expectation.            *)
(***************************************************************************)
EXTENDS Integers, Sequences, FiniteSets, TLC, VF
\* "_" keeps the record non-empty (an empty function would be emitted as an empty JSON array)
Must(S) == [e \in S \cup {"_"} |-> TRUE]
\* "#bulk" stands for a thousand filler elements inserted by one macro action (large sets without a large state space)
Bulk == "#bulk"
Range(s) == {s[i] : i \in 1..Len(s)}
====
