CONSTANTS
  Universe = {"empty", "a", "b", "c", "hash"}
  N = 6
INIT Init
NEXT Next
VIEW View0
INVARIANTS LastNPresent Sane
ACTION_CONSTRAINT Emit
CHECK_DEADLOCK FALSE
