---- MODULE BloomFilter ----
(* CBloomFilter (src/common/bloom.cpp): insert / contains.  One action per public call; contains() of every element of the *)
(* universe is the projection.  Configurations (element count, false positive rate, tweak) are realised by the harness,    *)
(* including the degenerate ones: an empty bit vector (match-all filter, CVE-2013-5700 guard) and zero hash functions.     *)
EXTENDS Filters
CONSTANTS Universe,      \* element names; "empty" = the zero-length element, "hash" = a 32-byte value, "outpoint" = inserted / queried through the COutPoint overloads
          Configs        \* configuration names
VARIABLES cfg, set, lastAct, lastRes
vars == <<cfg, set, lastAct, lastRes>>
View0 == <<cfg, set>>
Init == cfg \in Configs /\ set = {} /\ lastAct = <<"init">> /\ lastRes = "none"
Insert(e) == set' = set \cup {e} /\ UNCHANGED cfg /\ lastAct' = <<"insert", e>> /\ lastRes' = "none"      \* e \in set: a duplicate insertion
InsertBulk == Bulk \notin set /\ set' = set \cup {Bulk} /\ UNCHANGED cfg /\ lastAct' = <<"insertbulk">> /\ lastRes' = "none"
Next == (\E e \in Universe : Insert(e)) \/ InsertBulk
\* the property on the model: a set only grows -- whatever was inserted stays a member
Monotone == [][set \subseteq set']_vars
Proj == [cfg |-> cfg, has |-> Must(set)]
Emit == VFEdge(Proj, lastAct', lastRes', Proj')
====
