---- MODULE RollingFilter ----
(***************************************************************************)
(* CRollingBloomFilter(nElements = N) (src/common/bloom.cpp) with the      *)
(* generation mechanics as coded: entries are labelled with the current    *)
(* generation; after nEntriesPerGeneration = ceil(N / 2) insert CALLS      *)
(* (duplicates count) the generation advances and the entries that carried *)
(* the re-used label -- those of three generations ago -- are wiped.       *)
(* cur / p1 / p2 = elements labelled with the current / previous /         *)
(* before-previous generation (a lower bound of what the bit array shows:  *)
(* shared bits are relabelled to the newest generation only).              *)
(* Property clause: the last N inserted elements are present.              *)
(***************************************************************************)
EXTENDS Filters
CONSTANTS Universe, N
PerGen == (N + 1) \div 2
VARIABLES cur, n, p1, p2, hist, lastAct, lastRes
vars == <<cur, n, p1, p2, hist, lastAct, lastRes>>
View0 == <<cur, n, p1, p2, hist>>
Init == cur = {} /\ n = 0 /\ p1 = {} /\ p2 = {} /\ hist = <<>> /\ lastAct = <<"init">> /\ lastRes = "none"
LastN(s) == IF Len(s) <= N THEN s ELSE SubSeq(s, Len(s) - N + 1, Len(s))
Insert(e) ==
  /\ IF n = PerGen
     THEN p2' = p1 /\ p1' = cur /\ cur' = {e} /\ n' = 1          \* advance: the oldest generation is forgotten
     ELSE cur' = cur \cup {e} /\ n' = n + 1 /\ UNCHANGED <<p1, p2>>
  /\ hist' = LastN(Append(hist, e))
  /\ lastAct' = <<"insert", e>> /\ lastRes' = "none"
Reset == cur' = {} /\ n' = 0 /\ p1' = {} /\ p2' = {} /\ hist' = <<>> /\ lastAct' = <<"reset">> /\ lastRes' = "none"
Next == (\E e \in Universe : Insert(e)) \/ Reset
Members == cur \cup p1 \cup p2
\* the property's clause, decided on the coded mechanics
LastNPresent == Range(hist) \subseteq Members
\* the mechanics never hold fewer than the last 2 * PerGen + 1 - ... entries: the current generation is never empty after an insert
Sane == n <= PerGen /\ (hist # <<>> => n >= 1) /\ Cardinality(cur) <= n
\* observable = the clause; gens = what the coded mechanics retain (more than the clause asks for: compared as internal bookkeeping)
Proj == [n |-> N, lastn |-> Must(Range(hist)), gens |-> Must(Members)]
Emit == VFEdgeK(View0, Proj, lastAct', lastRes', View0', Proj')
====
