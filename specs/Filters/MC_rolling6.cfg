CONSTANTS
  Universe = {"empty", "a", "b", "c", "hash"}
  N = 6
INIT Init
NEXT Next
VIEW View0
INVARIANTS LastNPresent Sane
CHECK_DEADLOCK FALSE
