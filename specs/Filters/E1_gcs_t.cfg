CONSTANTS
  Universe = {"empty", "a", "b", "c", "script", "hash"}
  ParamSets = {"basic", "p1m2", "p0m1", "p32", "p10m1000"}
  Sources = {"set", "block"}
INIT Init
NEXT Next
VIEW View0
ACTION_CONSTRAINT Emit
CHECK_DEADLOCK FALSE
