---- MODULE GcsFilter ----
(* GCSFilter / BlockFilter (src/blockfilter.cpp): a filter is built in one step from an element set; Match(e) for every      *)
(* element and MatchAny(Q) for every query set are the projection.  One-sided: e in the set => Match(e); Q meets the set =>   *)
(* MatchAny(Q).  source "block": the set reaches the filter through BlockFilter(BASIC, block, undo) as output scripts and     *)
(* spent scripts (the harness adds an OP_RETURN output and an empty script, which the filter must skip -- no claim about them).*)
EXTENDS Filters
CONSTANTS Universe,
          ParamSets,     \* names of (siphash key, P, M) parameter sets realised by the harness
          Sources        \* {"set", "block"}
\* the universe as a sequence (fixes the naming of query sets; TLC configuration files cannot express tuples)
Master == <<"empty", "a", "b", "c", "script", "hash">>
USeq == SelectSeq(Master, LAMBDA x : x \in Universe)
ASSUME Universe \subseteq Range(Master)
RECURSIVE QNameFrom(_, _)
QNameFrom(Q, i) == IF i > Len(USeq) THEN "" ELSE (IF USeq[i] \in Q THEN USeq[i] \o "|" ELSE "") \o QNameFrom(Q, i + 1)
QName(Q) == QNameFrom(Q, 1)
VARIABLES built, par, src, set, bulk, lastAct, lastRes
vars == <<built, par, src, set, bulk, lastAct, lastRes>>
View0 == <<built, par, src, set, bulk>>
Init == /\ built = FALSE /\ par \in ParamSets /\ src \in Sources
        /\ (src = "block" => par = "basic")     \* BlockFilter fixes its parameters
        /\ set = {} /\ bulk = FALSE /\ lastAct = <<"init">> /\ lastRes = "none"
\* the element list handed to the constructor may repeat elements (dups = TRUE: every element twice)
Build(S, b, dups) == /\ ~built /\ built' = TRUE /\ set' = S /\ bulk' = b /\ UNCHANGED <<par, src>>
                     /\ lastAct' = <<"build", SelectSeq(USeq, LAMBDA x : x \in S), b, dups>> /\ lastRes' = "none"
Next == \E S \in SUBSET Universe, b \in BOOLEAN, dups \in BOOLEAN : Build(S, b, dups)
Queries == (SUBSET Universe) \ {{}}
\* what the filter holds: BIP158's basic filter leaves out empty scripts (BasicFilterElements), so nothing is claimed for them
Eff == IF src = "block" THEN set \ {"empty"} ELSE set
Proj == [par |-> par, src |-> src, built |-> built,
         has |-> Must(Eff \cup (IF bulk THEN {Bulk} ELSE {})),
         any |-> [k \in {QName(Q) : Q \in {R \in Queries : R \cap Eff # {}}} \cup {"_"} |-> TRUE]]
Emit == VFEdgeK(View0, Proj, lastAct', lastRes', View0', Proj')
====
