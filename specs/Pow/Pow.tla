---- MODULE Pow ----
(***************************************************************************)
(* C07: proof of work of block headers (src/pow.cpp, src/arith_uint256.cpp,*)
(* the header clauses of src/validation.cpp).                              *)
(*                                                                         *)
(* Part 1  compact encoding: SetCompact / GetCompact as the code computes  *)
(*         them next to the reference definition N = mantissa *            *)
(*         256^(exponent-3) written over unbounded digit strings.          *)
(* Part 2  DeriveTarget / CheckProofOfWork (procedural) next to the        *)
(*         statement of the property (declarative).                        *)
(* Part 3  GetNextWorkRequired / CalculateNextWorkRequired /               *)
(*         PermittedDifficultyTransition over described chains.            *)
(* Part 4  header acceptance: ordered rule list of CheckBlockHeader +      *)
(*         ContextualCheckBlockHeader next to the property's conjunction.  *)
(* Part 5  oracle tables (engine E4): INIT + NEXT per table, the invariants *)
(*         TLC decides on every row, and EmitRow.                          *)
(*                                                                         *)
(* 256-bit numbers are Limbs256 digit strings; block times are Amount      *)
(* records (they exceed 2^31); nBits is the record [e, m] = (exponent      *)
(* byte, 24-bit mantissa including the sign bit 0x800000).                 *)
(***************************************************************************)
EXTENDS Integers, Sequences, FiniteSets, TLC, Amount, Limbs256, VF
CONSTANT Tier                                   \* "quick" or "thorough": size of the enumerated domains

SIGN == \h800000
C(e, m) == [e |-> e, m |-> m]

(************************* Part 1: compact encoding *************************)
\* arith_uint256::SetCompact, line by line (the flags use the word *after* the right shift of the nSize <= 3 branch)
SetCompactV(c) ==
  LET w0 == c.m % SIGN
      sign == c.m >= SIGN
      word == IF c.e <= 3 THEN w0 \div P256(3 - c.e) ELSE w0
      tgt == IF c.e <= 3 THEN LFromSmall(word) ELSE LShl(LFromSmall(w0), c.e - 3)
  IN [target |-> tgt,
      neg |-> (word # 0 /\ sign),
      ovf |-> (word # 0 /\ (c.e > 34 \/ (word > \hff /\ c.e > 33) \/ (word > \hffff /\ c.e > 32)))]
SetCompact(c) == WithVal(c, SetCompactV)         \* (WithVal: evaluate the argument once, see Limbs256)
T(c) == SetCompact(c).target

\* arith_uint256::GetCompact(fNegative)
GetCompactV(t, size, fneg) ==
  LET c0 == IF size <= 3 THEN Low3(t) * P256(3 - size) ELSE Low3(LShr(t, size - 3))
      adj == c0 >= SIGN                       \* mantissa would look negative: drop a byte, bump the exponent
      m == IF adj THEN c0 \div 256 ELSE c0
      e == IF adj THEN size + 1 ELSE size
  IN C(e, IF fneg /\ m # 0 THEN m + SIGN ELSE m)
GetCompact(t, fneg) == WithVal(t, LAMBDA tv : WithVal(LBytes(tv), LAMBDA size : GetCompactV(tv, size, fneg)))
Enc(t) == GetCompact(t, FALSE)
Trunc(t) == T(Enc(t))                         \* what survives a round trip through nBits

\* Reference definition: |N| = floor(mantissa * 256^(exponent-3)), as an unbounded digit string (258 digits suffice)
WW == 260
RefDigit(c, i) == ByteOf(c.m % SIGN, i - (c.e - 3))
RefLow(c) == [i \in 1..W |-> RefDigit(c, i)]
RefFits(c) == \A i \in (W + 1)..WW : RefDigit(c, i) = 0
RefNonZero(c) == \E i \in 1..WW : RefDigit(c, i) # 0

(************************* Part 2: target and proof of work *****************)
DeriveTarget(c, limit) ==
  WithVal(SetCompact(c), LAMBDA s :
    IF s.neg \/ LIsZero(s.target) \/ s.ovf \/ LGt(s.target, limit)
    THEN [ok |-> FALSE, target |-> LZero] ELSE [ok |-> TRUE, target |-> s.target])
CheckPoW(hash, c, limit) == WithVal(DeriveTarget(c, limit), LAMBDA d : d.ok /\ ~LGt(hash, d.target))

\* the statement: the encoded target is positive, does not overflow, is not above the limit, and hash <= target
SpecTargetValid(c, limit) == c.m < SIGN /\ RefNonZero(c) /\ RefFits(c) /\ LLe(RefLow(c), limit)
SpecPoW(hash, c, limit) == SpecTargetValid(c, limit) /\ LLe(hash, RefLow(c))

(************************* Part 3: required work *****************************)
MainLimit    == [i \in 1..W |-> IF i <= 28 THEN 255 ELSE 0]                       \* 00000000ffff...ff
SignetLimit  == [i \in 1..W |-> IF i = 30 THEN \h03 ELSE IF i = 29 THEN \h77 ELSE IF i = 28 THEN \hae ELSE 0]  \* 00000377ae00...00
RegtestLimit == [i \in 1..W |-> IF i = 32 THEN 127 ELSE 255]                      \* 7fffff...ff
Prm(name, limit, tspan, minDiff, bip94, noRetarget, builtin) ==
  [name |-> name, limit |-> limit, T |-> tspan, spacing |-> 600, minDiff |-> minDiff, bip94 |-> bip94,
   noRetarget |-> noRetarget, builtin |-> builtin]
TwoWeeks == 1209600
\* the five built-in chains (src/kernel/chainparams.cpp; the harness compares these constants with the real objects) ...
P == [ main    |-> Prm("main",    MainLimit,    TwoWeeks, FALSE, FALSE, FALSE, TRUE),
       test3   |-> Prm("test3",   MainLimit,    TwoWeeks, TRUE,  FALSE, FALSE, TRUE),
       test4   |-> Prm("test4",   MainLimit,    TwoWeeks, TRUE,  TRUE,  FALSE, TRUE),
       signet  |-> Prm("signet",  SignetLimit,  TwoWeeks, FALSE, FALSE, FALSE, TRUE),
       regtest |-> Prm("regtest", RegtestLimit, 86400,    TRUE,  FALSE, TRUE,  TRUE),
\* ... and synthetic ones that exercise code paths no built-in chain combines: regtest's limit with retargeting (the
\* product leaves 256 bits), BIP94 without the min-difficulty exception, and an 8-block interval for the walk-back
       wide    |-> Prm("wide",    RegtestLimit, TwoWeeks, FALSE, FALSE, FALSE, FALSE),
       wide94  |-> Prm("wide94",  RegtestLimit, TwoWeeks, FALSE, TRUE,  FALSE, FALSE),
       main94  |-> Prm("main94",  MainLimit,    TwoWeeks, FALSE, TRUE,  FALSE, FALSE),
       mini    |-> Prm("mini",    MainLimit,    4800,     FALSE, FALSE, FALSE, FALSE),
       minimd  |-> Prm("minimd",  MainLimit,    4800,     TRUE,  FALSE, FALSE, FALSE),
       minimd94|-> Prm("minimd94",MainLimit,    4800,     TRUE,  TRUE,  FALSE, FALSE),
       mininr  |-> Prm("mininr",  RegtestLimit, 4800,     TRUE,  FALSE, TRUE,  FALSE) ]
Interval(p) == p.T \div p.spacing
LimitBits(p) == Enc(p.limit)
Cap(p, x) == WithVal(x, LAMBDA xv : IF LGt(xv, p.limit) THEN p.limit ELSE xv)

\* A chain of n blocks (heights 0..n-1) in described form: default nBits and times t0 + h*dt, a run of heights with
\* other nBits, and explicit overrides <<[h, bits, t]>> (override > run > default). The harness builds real CBlockIndex
\* objects from the same description.
NoRun == [from |-> 1, to |-> 0, bits |-> C(0, 0)]
Chain(n, bits, t0, dt, run, ov) == [n |-> n, bits |-> bits, t0 |-> t0, dt |-> dt, run |-> run, ov |-> ov]
OvIdx(d, h) == {k \in 1..Len(d.ov) : d.ov[k].h = h}
OvAt(d, h) == d.ov[CHOOSE k \in OvIdx(d, h) : TRUE]
BitsAt(d, h) == IF OvIdx(d, h) # {} THEN OvAt(d, h).bits
                ELSE IF h >= d.run.from /\ h <= d.run.to THEN d.run.bits ELSE d.bits
TimeAt(d, h) == IF OvIdx(d, h) # {} THEN OvAt(d, h).t ELSE AAdd(d.t0, AFromSmall(h * d.dt))
TipH(d) == d.n - 1

\* the clamped timespan as a small integer
ClampSpan(p, span) ==
  LET lo == p.T \div 4
      hi == p.T * 4
  IN IF ALt(span, AFromSmall(lo)) THEN lo ELSE IF AGt(span, AFromSmall(hi)) THEN hi ELSE span.d[1] + span.d[2] * AB

\* bnNew.SetCompact(bits); bnNew *= span (carry out of bit 255 lost); bnNew /= T; clamp to the limit; GetCompact
RetargetBits(p, baseBits, span) == Enc(Cap(p, LDivSmall(LMulSmall(T(baseBits), span), p.T)))

\* CalculateNextWorkRequired(pindexLast = last block of d, nFirstBlockTime, params)
Calc(p, d, firstTime) ==
  IF p.noRetarget THEN BitsAt(d, TipH(d))
  ELSE LET span == ClampSpan(p, ASub(TimeAt(d, TipH(d)), firstTime))
           base == IF p.bip94 THEN BitsAt(d, TipH(d) - (Interval(p) - 1)) ELSE BitsAt(d, TipH(d))
       IN RetargetBits(p, base, span)

\* the min-difficulty walk-back: first height at or below h that has no parent, starts a period, or has real difficulty
WalkStops(p, d, h, lb) == ~(h > 0 /\ h % Interval(p) # 0 /\ BitsAt(d, h) = lb)
WalkBack(p, d, h) ==
  LET lo == (h \div Interval(p)) * Interval(p)
  IN WithVal(LimitBits(p), LAMBDA lb :
       CHOOSE x \in lo..h : WalkStops(p, d, x, lb) /\ \A y \in (x + 1)..h : ~WalkStops(p, d, y, lb))

\* GetNextWorkRequired(pindexLast = last block of d, pblock with nTime = newTime, params)
NextWork(p, d, newTime) ==
  IF (TipH(d) + 1) % Interval(p) # 0
  THEN IF p.minDiff
       THEN IF AGt(newTime, AAdd(TimeAt(d, TipH(d)), AFromSmall(p.spacing * 2))) THEN LimitBits(p)
            ELSE BitsAt(d, WalkBack(p, d, TipH(d)))
       ELSE BitsAt(d, TipH(d))
  ELSE Calc(p, d, TimeAt(d, TipH(d) - (Interval(p) - 1)))

\* PermittedDifficultyTransition(params, height, old_nbits, new_nbits)
Permitted(p, height, old, new) ==
  IF p.minDiff THEN TRUE
  ELSE IF height % Interval(p) = 0
  THEN LET obs == T(new)
           maxT == Trunc(Cap(p, LDivSmall(LMulSmall(T(old), p.T * 4), p.T)))
           minT == Trunc(Cap(p, LDivSmall(LMulSmall(T(old), p.T \div 4), p.T)))
       IN ~LLt(maxT, obs) /\ ~LGt(minT, obs)
  ELSE old = new

(************************* Part 4: header acceptance *************************)
\* CBlockIndex::GetMedianTimePast of the block at height `last`: element [n/2] of the sorted times of the last <= 11 blocks
MedianV(ts) ==
  LET n == Len(ts)
      k == n \div 2                             \* 0-based position in the sorted array
  IN ts[CHOOSE i \in 1..n : /\ Cardinality({j \in 1..n : ALt(ts[j], ts[i])}) <= k
                            /\ k < Cardinality({j \in 1..n : ALe(ts[j], ts[i])})]
MTPAt(d, last) == WithVal([j \in 1..(IF last < 10 THEN last + 1 ELSE 11) |-> TimeAt(d, last + 1 - j)], MedianV)
MTP(d) == MTPAt(d, TipH(d))
MaxFuture == 7200

\* hdr = [time, bits, pow] where pow says how the header hash relates to the target of hdr.bits ("le" / "gt")
HdrPowOK(p, hdr) == DeriveTarget(hdr.bits, p.limit).ok /\ hdr.pow = "le"
\* the code's rule order (CheckBlockHeader, then ContextualCheckBlockHeader on the previous block = last of d)
AcceptHeader(p, d, now, hdr) ==
  IF ~HdrPowOK(p, hdr) THEN "high-hash"
  ELSE IF hdr.bits # NextWork(p, d, hdr.time) THEN "bad-diffbits"
  ELSE IF ALe(hdr.time, MTP(d)) THEN "time-too-old"
  ELSE IF AGt(hdr.time, AAdd(now, AFromSmall(MaxFuture))) THEN "time-too-new"
  ELSE "ok"
\* the statement of the property
SpecAcceptable(p, d, now, hdr) ==
  /\ SpecTargetValid(hdr.bits, p.limit) /\ hdr.pow = "le"
  /\ hdr.bits = NextWork(p, d, hdr.time)
  /\ AGt(hdr.time, MTP(d))
  /\ ALe(hdr.time, AAdd(now, AFromSmall(MaxFuture)))

(************************* Part 5: the tables ********************************)
\* Every table is generated in two levels so that TLC's workers share the evaluation: the initial states are cheap
\* "seed" records (one slice of the domain each), their successors are the rows of that slice, rows are final.
VARIABLES in, out
vars == <<in, out>>
Seed(tab, pn, c, n) == [kind |-> "seed", tab |-> tab, pn |-> pn, c |-> c, n |-> n]
NoOut == [none |-> TRUE]
IsRow == in.kind # "seed"
K(kind) == IsRow /\ in.kind = kind                    \* the state is a row of that table
Final == IsRow /\ UNCHANGED vars
EmitRow == VFRow([in |-> in, out |-> out])
Thorough == Tier = "thorough"

\* ---- table "compact" ----
Pow2pm == UNION {{b - 1, b, b + 1, 256 * b - 1, 256 * b, 256 * b + 1, 65536 * b - 1, 65536 * b, 65536 * b + 1} :
                 b \in {1, 2, 4, 8, 16, 32, 64, 128}}
CompactM == IF Thorough
            THEN {m \in Pow2pm \cup {\h123456, \h0377ae, \h7fffff, \h800000, \hffffff, \h92340f, \hfedcba, \h00c0de} : m >= 0 /\ m <= \hffffff}
            ELSE {0, 1, \h7f, \h80, \hff, \h100, \h7fff, \h8000, \hffff, \h10000, \h123456, \h0377ae, \h7fffff,
                  \h800000, \h800001, \h8000ff, \h800100, \h80ffff, \h810000, \h923456, \hffffff}
CompactE == IF Thorough THEN 0..255 ELSE (0..37) \cup {64, 127, 128, 254, 255}
CompactOut(c) ==
  LET s == SetCompact(c) IN
  [target |-> s.target, neg |-> s.neg, ovf |-> s.ovf,
   enc |-> GetCompact(s.target, FALSE), encN |-> GetCompact(s.target, TRUE),
   encM1 |-> Enc(LDec(s.target)), encP1 |-> Enc(LInc(s.target))]
InitCompact == \E e \in CompactE : in = Seed("compact", "-", C(e, 0), 0) /\ out = NoOut
RowsCompact == \E m \in CompactM :
                 /\ in' = [kind |-> "compact", c |-> C(in.c.e, m)]
                 /\ out' = CompactOut(C(in.c.e, m))

\* decoding follows the reference definition; the flags mean what their names say
DecodeIsReference == K("compact") =>
  WithVal(SetCompact(in.c), LAMBDA s :
    /\ s.target = RefLow(in.c)
    /\ s.ovf = ~RefFits(in.c)
    /\ s.neg = (in.c.m >= SIGN /\ RefNonZero(in.c)))
\* encoding: never a sign bit, canonical mantissa range, keeps exactly the top bytes, loses only what is below them
EncodeOfV(t, c, back) ==
  /\ c.m < SIGN /\ ~back.neg /\ ~back.ovf
  /\ (LIsZero(t) => c = C(0, 0))
  /\ (~LIsZero(t) => c.m >= \h008000 /\ c.e >= 1 /\ c.e <= 33)
  /\ LLe(back.target, t)
  /\ back.target = [i \in 1..W |-> IF i > c.e - 3 THEN t[i] ELSE 0]
EncodeOf(t) == WithVal(t, LAMBDA tv : WithVal(Enc(tv), LAMBDA c : WithVal(SetCompactV(c), LAMBDA back : EncodeOfV(tv, c, back))))
Neighbours(t) == WithVal(t, LAMBDA tv : {tv, LDec(tv), LInc(tv)})
EncodeIsReference == K("compact") => \A t \in Neighbours(out.target) : EncodeOf(t)
\* decode . encode . decode = decode and encode . decode . encode = encode (canonical / idempotent)
RoundTrip == K("compact") =>
  /\ Trunc(out.target) = out.target
  /\ \A t \in Neighbours(out.target) : WithVal(Enc(t), LAMBDA c : Enc(T(c)) = c)
\* the fNegative variant only adds the sign bit to a non-zero mantissa
EncodeNegative == K("compact") => out.encN = (IF out.enc.m # 0 THEN C(out.enc.e, out.enc.m + SIGN) ELSE out.enc)

\* ---- table "pow" ----
PowParams == {"main", "signet", "regtest"}
PowM == IF Thorough THEN CompactM
        ELSE {0, 1, \hff, \h100, \h8000, \hffff, \h10000, \h0377ad, \h0377ae, \h0377af, \h7fffff, \h800000, \h800001, \hffffff}
PowE == IF Thorough THEN (0..40) \cup {127, 128, 255} ELSE (0..4) \cup (28..35)
HashKinds == {"tm1", "t", "tp1", "zero", "ones"}
HashOf(k, t) == CASE k = "tm1" -> LDec(t) [] k = "t" -> t [] k = "tp1" -> LInc(t) [] k = "zero" -> LZero [] k = "ones" -> LOnes
InitPow == \E pn \in PowParams, e \in PowE : in = Seed("pow", pn, C(e, 0), 0) /\ out = NoOut
RowsPow == (\E m \in PowM, hk \in HashKinds :
             LET c == C(in.c.e, m)
                 p == P[in.pn]
                 h == HashOf(hk, T(c))
                 d == DeriveTarget(c, p.limit)
             IN /\ in' = [kind |-> "pow", p |-> p, c |-> c, hk |-> hk, hash |-> h]
                /\ out' = [valid |-> d.ok, target |-> d.target, ok |-> CheckPoW(h, c, p.limit)])
PowIsStatement == K("pow") =>
  /\ out.valid = SpecTargetValid(in.c, in.p.limit)
  /\ (out.valid => out.target = RefLow(in.c) /\ ~LIsZero(out.target) /\ LLe(out.target, in.p.limit))
  /\ out.ok = SpecPoW(in.hash, in.c, in.p.limit)

\* ---- table "next" (GetNextWorkRequired / CalculateNextWorkRequired / required => permitted) ----
T0 == Amt(FALSE, 0, 12, 31006505)              \* 1231006505
U32Max == Amt(FALSE, 0, 42, 94967295)          \* 4294967295
OldM == IF Thorough THEN {\h00ffff, \h008000, \h7fffff, \h010000, \h0377ae, \h123456, \h000001, \h00ff00, \h400000, \h3fffff, \h200000, \h1fffff, \h020000, \h01ffff}
        ELSE {\h00ffff, \h008000, \h7fffff, \h123456, \h000001}
OldE == IF Thorough THEN (1..5) \cup {8, 16, 20, 23, 24} \cup (26..32) ELSE {1, 3, 4, 23, 28, 29, 30, 32}
OldSet(p) == {c \in {C(e, m) : e \in OldE, m \in OldM} : DeriveTarget(c, p.limit).ok}
Spans(p) == LET t == p.T IN
            {0, 1, t \div 4 - 1, t \div 4, t \div 4 + 1, t \div 2, t - 1, t, t + 1, 2 * t + 7, 4 * t - 1, 4 * t, 4 * t + 1, 16 * t, -1, -t}
            \cup (IF Thorough THEN {t \div 4 + 2, t \div 3, t - 2, t + 2, 3 * t, 4 * t - 2, 5 * t, -(4 * t)} ELSE {})
\* (first-of-period time, last time) pairs: a base time plus every boundary span, and the extremes of uint32
TimePairs(p) == {<<T0, AAdd(T0, AFromSmall(s))>> : s \in Spans(p)}
                \cup {<<AZero, U32Max>>, <<U32Max, AZero>>, <<U32Max, U32Max>>, <<AZero, AZero>>,
                      <<ASub(U32Max, AFromSmall(p.T)), U32Max>>}
\* another valid nBits for the first block of the period (BIP94 retargets from it; everybody else must ignore it)
AltFirst(c) == Enc(LDivSmall(T(c), 3))
BoundaryParams == {"main", "signet", "test4", "regtest", "wide", "main94", "mini"} \cup (IF Thorough THEN {"test3", "wide94", "minimd94"} ELSE {})
\* the chain: `periods` whole periods; everything has nBits old except the first block of the last period
BoundaryChain(p, periods, old, first, tFirst, tLast) ==
  LET n == periods * Interval(p) IN
  Chain(n, old, T0, 600, NoRun, << [h |-> n - Interval(p), bits |-> first, t |-> tFirst], [h |-> n - 1, bits |-> old, t |-> tLast] >>)
NextOut(p, d, newTime, firstTime) ==
  LET boundary == (TipH(d) + 1) % Interval(p) = 0 IN
  WithVal(NextWork(p, d, newTime), LAMBDA req :
     [req |-> req,
      boundary |-> boundary,
      \* a direct CalculateNextWorkRequired call with this nFirstBlockTime (boundary rows only)
      calc |-> IF boundary THEN Calc(p, d, firstTime) ELSE req,
      lastBits |-> BitsAt(d, TipH(d)),
      permitted |-> Permitted(p, TipH(d) + 1, BitsAt(d, TipH(d)), req)])
NextRow(p, d, newTime, firstTime) ==
  /\ in' = [kind |-> "next", p |-> p, d |-> d, newTime |-> newTime, firstTime |-> firstTime]
  /\ out' = NextOut(p, d, newTime, firstTime)
RowsBoundary ==
  LET p == P[in.pn]
      old == in.c
  IN \E tp \in TimePairs(p), periods \in {1, 2}, alt \in BOOLEAN :
       LET first == IF alt THEN AltFirst(old) ELSE old
           d == BoundaryChain(p, periods, old, first, tp[1], tp[2])
       IN /\ (periods = 2 => (old = LimitBits(p) \/ (Thorough /\ old.m = \h00ffff)))
          /\ (alt => (p.bip94 \/ old.m \in {\h00ffff, \h123456}))
          /\ NextRow(p, d, T0, tp[1])
\* direct CalculateNextWorkRequired calls with an nFirstBlockTime no block carries
RowsCalc ==
  LET p == P[in.pn] IN
  \E old \in {c \in OldSet(p) : c.m \in {\h00ffff, \h123456}}, ft \in {I64Max, AZero, Amt(FALSE, 0, 1, 0)}, tl \in {AZero, T0, U32Max} :
    NextRow(p, BoundaryChain(p, 1, old, old, T0, tl), T0, ft)
\* heights that are not a retarget boundary: previous nBits, or the min-difficulty exception and its walk-back
WalkParams == {"main", "test3", "test4", "regtest", "mini", "minimd", "minimd94", "mininr"}
RealBits == C(\h1c, \h00ffff)
WalkLens(p) == LET iv == Interval(p) IN
               {n \in {2, 4, iv - 1, iv + 1, iv + 2, iv + 3, 2 * iv - 1} : iv > 100 => (Thorough \/ n \in {4, iv + 1, iv + 3, 2 * iv - 1})}
RowsWalk ==
  LET p == P[in.pn]
      iv == Interval(p)
      n == in.n
      last == n - 1
      ps == (last \div iv) * iv
  IN \E dflt \in {RealBits, LimitBits(p)}, rk \in 0..7, gap \in {p.spacing * 2 - 1, p.spacing * 2, p.spacing * 2 + 1} :
       LET run == CASE rk = 0 -> NoRun
                    [] rk = 1 -> [from |-> last, to |-> last, bits |-> LimitBits(p)]
                    [] rk = 2 -> [from |-> last - 1, to |-> last, bits |-> LimitBits(p)]
                    [] rk = 3 -> [from |-> ps + 1, to |-> last, bits |-> LimitBits(p)]
                    [] rk = 4 -> [from |-> ps, to |-> last, bits |-> LimitBits(p)]
                    [] rk = 5 -> [from |-> IF ps >= 2 THEN ps - 2 ELSE 0, to |-> last, bits |-> LimitBits(p)]
                    [] rk = 6 -> [from |-> last - 1, to |-> last - 1, bits |-> LimitBits(p)]
                    [] rk = 7 -> [from |-> ps, to |-> last, bits |-> RealBits]
           d == Chain(n, dflt, T0, 600, run, <<>>)
           nt == AAdd(TimeAt(d, last), AFromSmall(gap))
       IN /\ (rk = 0 \/ run.from <= run.to)
          /\ (iv > 100 => (Thorough \/ gap # p.spacing * 2 - 1))
          /\ NextRow(p, d, nt, T0)
\* quick tier: the full set of previous targets on the chains whose arithmetic differs, two of them elsewhere
QuickOld(pn, old) == pn \in {"main", "signet", "test4", "wide"} \/ old.m \in {\h00ffff, \h123456}
InitNext == \/ \E pn \in BoundaryParams : \E old \in OldSet(P[pn]) :
                 (Thorough \/ QuickOld(pn, old)) /\ in = Seed("b", pn, old, 0) /\ out = NoOut
            \/ \E pn \in {"main", "test4", "wide"} : in = Seed("c", pn, C(0, 0), 0) /\ out = NoOut
            \/ \E pn \in WalkParams : \E n \in WalkLens(P[pn]) : in = Seed("w", pn, C(0, 0), n) /\ out = NoOut

IsBoundaryRow == K("next") /\ out.boundary /\ ~in.p.noRetarget
\* base target of the retarget and the clamped span of this row
RowBase == LET d == in.d IN T(IF in.p.bip94 THEN BitsAt(d, TipH(d) - (Interval(in.p) - 1)) ELSE BitsAt(d, TipH(d)))
RowSpan == LET d == in.d IN ClampSpan(in.p, ASub(TimeAt(d, TipH(d)), TimeAt(d, TipH(d) - (Interval(in.p) - 1))))
\* "On every built-in chain, any difficulty the node computes as required is also accepted by the permitted-transition check"
RequiredIsPermitted == (K("next") /\ in.p.builtin) => out.permitted
\* on the built-in chains no product leaves 256 bits (so the wrap of *= is unobservable there) ...
NoWrapOnBuiltin == (IsBoundaryRow /\ in.p.builtin) =>
                     /\ ~LMulOverflows(RowBase, RowSpan)
                     /\ ~LMulOverflows(T(out.lastBits), in.p.T * 4)
\* ... and the required target is the previous one changed by at most a factor of four, never above the limit
ClampedByFour == (IsBoundaryRow /\ in.p.builtin) =>
                   LET r == T(out.req) IN
                   /\ LLe(r, in.p.limit)
                   /\ LLe(r, Cap(in.p, LMulSmall(RowBase, 4)))
                   /\ LLe(Trunc(LDivSmall(RowBase, 4)), r)
                   /\ (RowSpan = in.p.T => r = Trunc(RowBase))
\* the result of a retarget is always a canonical encoding
ReqCanonical == IsBoundaryRow => Enc(T(out.req)) = out.req
\* GetNextWorkRequired at a boundary is CalculateNextWorkRequired with the first block's time
CalcAgrees == (K("next") /\ out.boundary /\ in.firstTime = TimeAt(in.d, TipH(in.d) - (Interval(in.p) - 1))) => out.calc = out.req

\* ---- table "permit" (PermittedDifficultyTransition on arbitrary pairs; informational) ----
Bump(c, k) == C(c.e, c.m + k)
InitPermit == \E pn \in {"main", "signet", "test3", "mini"} :
                \E old \in {c \in OldSet(P[pn]) : c.m \in {\h00ffff, \h123456, \h008000, \h7fffff}} : in = Seed("permit", pn, old, 0) /\ out = NoOut
RowsPermit == (\E hk \in (IF Thorough THEN {0, 1, 2} ELSE {0, 1}), nk \in 0..9 :
      LET p == P[in.pn]
          old == in.c
          hi == RetargetBits(p, old, p.T * 4)
          lo == RetargetBits(p, old, p.T \div 4)
          new == CASE nk = 0 -> old [] nk = 1 -> hi [] nk = 2 -> lo
                   [] nk = 3 -> Bump(hi, 1) [] nk = 4 -> Bump(hi, -1) [] nk = 5 -> Bump(lo, 1) [] nk = 6 -> Bump(lo, -1)
                   [] nk = 7 -> LimitBits(p) [] nk = 8 -> C(old.e + 1, old.m) [] nk = 9 -> C(old.e - 1, old.m)
          height == CASE hk = 0 -> Interval(p) [] hk = 1 -> Interval(p) + 1 [] hk = 2 -> 3 * Interval(p)
      IN /\ new.m >= 0 /\ new.m <= \hffffff /\ new.e >= 0
         /\ in' = [kind |-> "permit", p |-> p, height |-> height, old |-> old, new |-> new]
         /\ out' = [ok |-> Permitted(p, height, old, new)])

\* ---- table "header" (CheckBlockHeader + ContextualCheckBlockHeader through a regtest node) ----
G == 1296688602                                   \* regtest genesis time
GBits == C(\h20, \h7fffff)
\* block times of heights 1.. as offsets from the genesis time; every one is later than the median of its predecessors
TimePatterns == << <<>>,
                   <<600>>,
                   <<600, 1200>>,
                   <<600, 1200, 1800, 2400, 3000, 3600, 4200, 4800, 5400, 6000, 6600>>,
                   <<600, 1200, 1800, 2400, 3000, 3600, 4200, 4800, 5400, 6000, 3100, 3200>>,
                   <<10, 20, 12, 13, 13>>,
                   <<600, 1200, 1800, 2400, 3000, 3600, 4200, 4800, 5400, 6000>>,
                   <<100, 200, 150, 160, 300, 170, 180, 400, 190, 200, 500, 210, 220>> >>
HdrChain(offs) == Chain(Len(offs) + 1, GBits, AFromSmall(G), 600, NoRun,
                        IF offs = <<>> THEN <<>> ELSE [k \in 1..Len(offs) |-> [h |-> k, bits |-> GBits, t |-> AFromSmall(G + offs[k])]])
ChainTimesValid(d) == \A h \in 1..TipH(d) : AGt(TimeAt(d, h), MTPAt(d, h - 1))
HdrBits == {GBits, C(\h20, \h7ffffe), C(\h1f, \h7fffff), C(\h20, \h00ffff), C(\h21, \h00ffff),
            C(\h20, \hffffff), C(\h21, \h010000), C(\h20, 0), C(\h21, \h008000)}
InitHeader == \E k \in 1..Len(TimePatterns), bits \in HdrBits : in = Seed("header", "regtest", bits, k) /\ out = NoOut
RowsHeader == (
  \E toff \in {-1, 0, 1, 2, 1300}, noff \in {-MaxFuture - 1, -MaxFuture, -MaxFuture + 1, 0, 50000}, pow \in {"le", "gt"} :
    LET p == P.regtest
        bits == in.c
        d == HdrChain(TimePatterns[in.n])
        time == AAdd(MTP(d), AFromSmall(toff))
        now == AAdd(time, AFromSmall(noff))
        hdr == [time |-> time, bits |-> bits, pow |-> pow]
    IN \* the time boundaries in full for otherwise acceptable headers; a corner of them combined with every other defect
       /\ ((bits # GBits \/ pow = "gt") => (toff \in {0, 1} /\ noff \in {-MaxFuture - 1, -MaxFuture}))
       /\ (pow = "gt" => bits \in {GBits, C(\h20, \h00ffff), C(\h20, \hffffff)})
       /\ in' = [kind |-> "header", p |-> p, d |-> d, now |-> now, hdr |-> hdr, mtp |-> MTP(d)]
       /\ out' = [res |-> AcceptHeader(p, d, now, hdr)])
\* accepted <=> every clause of the property's statement holds; the model's own chains are acceptable chains
HeaderIsStatement == K("header") => ((out.res = "ok") <=> SpecAcceptable(in.p, in.d, in.now, in.hdr))
HeaderChainValid == (~IsRow /\ in.tab = "header") => ChainTimesValid(HdrChain(TimePatterns[in.n]))

\* ---- all tables in one run ----
Init == InitCompact \/ InitPow \/ InitNext \/ InitPermit \/ InitHeader
Next == Final \/ (~IsRow /\ CASE in.tab = "compact" -> RowsCompact [] in.tab = "pow" -> RowsPow
                              [] in.tab = "b" -> RowsBoundary [] in.tab = "c" -> RowsCalc [] in.tab = "w" -> RowsWalk
                              [] in.tab = "permit" -> RowsPermit [] in.tab = "header" -> RowsHeader)
====
