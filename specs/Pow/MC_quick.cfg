CONSTANT Tier = "quick"
INIT Init
NEXT Next
INVARIANTS
  DecodeIsReference EncodeIsReference RoundTrip EncodeNegative
  PowIsStatement
  RequiredIsPermitted NoWrapOnBuiltin ClampedByFour ReqCanonical CalcAgrees
  HeaderIsStatement HeaderChainValid
  EmitRow
CHECK_DEADLOCK FALSE
