---- MODULE Limbs256 ----
(***************************************************************************)
(* Exact 256-bit unsigned arithmetic for TLC (whose integers are 32-bit):  *)
(* a number is a little-endian sequence of W = 32 base-256 digits          *)
(* (index 1 = least significant byte), i.e. exactly the byte layout of     *)
(* uint256 / arith_uint256.  Only the operations src/pow.cpp needs:        *)
(* compare, byte shifts, multiply by a small integer with the carry out of *)
(* bit 255 dropped (arith_uint256::operator*=(uint32_t)), floor division   *)
(* by a small integer, +1 / -1, significant byte count.                    *)
(* All intermediate products stay below 2^31 as long as the small operand  *)
(* is < 2^23 (255 * m + carry < 256 * m).                                  *)
(*                                                                         *)
(* Evaluation note: TLC passes operator arguments by name and does not     *)
(* cache them while it evaluates initial predicates and invariants, so a   *)
(* carry chain written as a RECURSIVE operator re-evaluates its argument   *)
(* at every digit (exponentially, when a LET is used twice).  The loops    *)
(* are therefore folds (SequencesExt, evaluated eagerly by TLC's Java      *)
(* override) and every public operator first forces its digit-string       *)
(* arguments to values with WithVal.                                       *)
(***************************************************************************)
EXTENDS Integers, Sequences
LOCAL INSTANCE SequencesExt
W == 32
SmallMax == 8388607                      \* largest admissible multiplier / divisor (2^23 - 1)
\* strict let: v is evaluated once, F is applied to the value
WithVal(v, F(_)) == FoldLeft(LAMBDA acc, x : F(x), FALSE, <<v>>)
Idx == [i \in 1..W |-> i]
LZero == [i \in 1..W |-> 0]
LOnes == [i \in 1..W |-> 255]
P256(k) == <<1, 256, 65536, 16777216>>[k + 1]          \* 256^k, k in 0..3
\* byte j (1 = lowest) of a small non-negative integer n < 2^31
ByteOf(n, j) == IF j \in 1..4 THEN (n \div P256(j - 1)) % 256 ELSE 0
LFromSmall(n) == WithVal(n, LAMBDA v : [i \in 1..W |-> ByteOf(v, i)])
LIsZero(a) == a = LZero
\* value of the three lowest bytes
Low3(a) == WithVal(a, LAMBDA v : v[1] + 256 * v[2] + 65536 * v[3])

\* -1, 0, 1: the most significant differing digit decides
LCmp(a, b) == WithVal(<<a, b>>, LAMBDA ab :
                FoldLeft(LAMBDA acc, i : IF ab[1][i] = ab[2][i] THEN acc ELSE IF ab[1][i] > ab[2][i] THEN 1 ELSE -1, 0, Idx))
LLe(a, b) == LCmp(a, b) <= 0
LLt(a, b) == LCmp(a, b) < 0
LGt(a, b) == LCmp(a, b) > 0

\* shifts by whole bytes; bytes shifted beyond either end are lost (base_uint::operator<<= / >>=)
LShl(a, k) == WithVal(<<a, k>>, LAMBDA v : [i \in 1..W |-> IF i - v[2] >= 1 THEN v[1][i - v[2]] ELSE 0])
LShr(a, k) == WithVal(<<a, k>>, LAMBDA v : [i \in 1..W |-> IF i + v[2] <= W THEN v[1][i + v[2]] ELSE 0])

\* number of significant bytes = ceil(bits() / 8)
LBytes(a) == WithVal(a, LAMBDA v : FoldLeft(LAMBDA acc, i : IF v[i] # 0 THEN i ELSE acc, 0, Idx))

\* a * m: digits 1..W of the product and the carry out of the top digit
MulStep(acc, x, m) == [d |-> Append(acc.d, (x * m + acc.carry) % 256), carry |-> (x * m + acc.carry) \div 256]
LMulWide(a, m) == WithVal(m, LAMBDA mv : FoldLeft(LAMBDA acc, x : MulStep(acc, x, mv), [d |-> <<>>, carry |-> 0], a))
LMulSmall(a, m) == LMulWide(a, m).d                     \* modulo 2^256, as the implementation
LMulOverflows(a, m) == LMulWide(a, m).carry # 0

\* floor(a / d) for 0 < d <= SmallMax, schoolbook from the top digit
DivStep(x, acc, d) == [q |-> <<(acc.rem * 256 + x) \div d>> \o acc.q, rem |-> (acc.rem * 256 + x) % d]
LDivSmall(a, d) == WithVal(d, LAMBDA dv : FoldRight(LAMBDA x, acc : DivStep(x, acc, dv), a, [q |-> <<>>, rem |-> 0]).q)

\* a + 1 and a - 1 modulo 2^256
IncStep(acc, x) == IF acc.carry = 0 THEN [d |-> Append(acc.d, x), carry |-> 0]
                   ELSE IF x = 255 THEN [d |-> Append(acc.d, 0), carry |-> 1] ELSE [d |-> Append(acc.d, x + 1), carry |-> 0]
DecStep(acc, x) == IF acc.carry = 0 THEN [d |-> Append(acc.d, x), carry |-> 0]
                   ELSE IF x = 0 THEN [d |-> Append(acc.d, 255), carry |-> 1] ELSE [d |-> Append(acc.d, x - 1), carry |-> 0]
LInc(a) == FoldLeft(IncStep, [d |-> <<>>, carry |-> 1], a).d
LDec(a) == FoldLeft(DecStep, [d |-> <<>>, carry |-> 1], a).d
====
