---- MODULE T ----
EXTENDS Integers, Sequences, TLC, Json, IOUtils
VARIABLES x, l
TraceLog == ndJsonDeserialize(IOEnv.TRACE)
Init == x = [a |-> 0, b |-> 0] /\ l = 1
IsEvent(e) == l <= Len(TraceLog) /\ TraceLog[l].e = e /\ l' = l + 1
Inc == IsEvent("inc") /\ x' = [x EXCEPT !.a = (x.a + TraceLog[l].n) % 1000] /\ x'.a = TraceLog[l].x
Reset == IsEvent("reset") /\ x' = [a |-> 0, b |-> 0]
Next == Inc \/ Reset
Inv == x.a >= 0
Accepted == TLCGet("stats").diameter - 1 = Len(TraceLog)
====
