INIT Init
NEXT Next
INVARIANT Inv
POSTCONDITION Accepted
CHECK_DEADLOCK FALSE
