CONSTANTS
  MaxNodes = 0
  BitsChoices = {}
INIT TInit
NEXT TNext
INVARIANT SmallTreeInvariants
POSTCONDITION Accepted
CHECK_DEADLOCK FALSE
