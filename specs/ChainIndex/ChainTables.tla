---- MODULE ChainTables ----
(***************************************************************************)
(* C54, engine E4: oracle tables for the pure functions of ChainIndex.     *)
(*   Kind = "bits": compact targets over exponents x mantissa boundaries   *)
(*          x sign; row = the four bytes, whether the proof must be 0      *)
(*          (zero / negative / overflowing target), and the target's       *)
(*          digits.  The proof itself is specified by a relation           *)
(*          (ProofOK), so the harness hands the real GetBitsProof value    *)
(*          back as a trace line that TLC validates with that relation.    *)
(*   Kind = "loc":  the heights LocatorEntries must list for a tip height. *)
(*   Kind = "skip": GetSkipHeight (an internal: compared as a deviation).  *)
(***************************************************************************)
EXTENDS ChainIndex, VF
CONSTANTS Kinds, HMax
Heights == (0..HMax) \cup (IF HMax >= 400 THEN {1023, 1024, 1025, 2047, 2048, 2049, 3000, 4095, 4096, 4097, 4999, 5000} ELSE {})
VARIABLES k, x
tvars == <<k, x, vars>>
Exps == {0, 1, 2, 3, 4, 5, 16, 27, 29, 30, 31, 32, 33, 34, 35, 36, 128, 255}
\* mantissa boundaries as <<b2 without sign, b1, b0>>
Mants == {<<0, 0, 0>>, <<0, 0, 1>>, <<0, 0, 255>>, <<0, 1, 0>>, <<0, 255, 255>>, <<1, 0, 0>>, <<127, 255, 255>>, <<0, 128, 0>>,
          <<18, 52, 86>>, <<64, 0, 0>>}
BitsDomain == {<<e, m[1] + s, m[2], m[3]>> : e \in Exps, m \in Mants, s \in {0, 128}}
TInit == /\ k \in Kinds /\ Empty(TRUE)
         /\ x \in (IF k = "bits" THEN BitsDomain ELSE IF k = "loc" THEN Heights ELSE 0..(2 * HMax))
TNext == UNCHANGED tvars
\* SetCompact's overflow / negative flags as the code computes them, against the numeric reading of the specification
CodeWord(bits) == IF BExp(bits) <= 3 THEN SmallTarget(bits) ELSE BMant(bits)
CodeOverflow(bits) == CodeWord(bits) # 0 /\ (BExp(bits) > 34 \/ (CodeWord(bits) > 255 /\ BExp(bits) > 33) \/ (CodeWord(bits) > 65535 /\ BExp(bits) > 32))
CodeNegative(bits) == CodeWord(bits) # 0 /\ BSign(bits)
FlagsAreNumeric == k = "bits" =>
  /\ CodeOverflow(x) = ~NLt(TargetN(x), Two256)
  /\ (CodeNegative(x) \/ CodeOverflow(x) \/ NIsZero(TargetN(x))) = ZeroClass(x)
\* a zero proof only for the zero class: any representable positive target has 2^256 / (t + 1) >= 1
ZeroOnlyForZeroClass == k = "bits" => (ProofOK(x, NZero) = ZeroClass(x))
LocatorHeightsShape == k = "loc" => LocatorShape(x, LocatorHeights(x))
LocatorIsShort == k = "loc" => Len(LocatorHeights(x)) <= 12 + 31
SkipIsLower == k = "skip" => (x >= 1 => SkipHeight(x) < x) /\ SkipHeight(x) >= 0
EmitRow == IF k = "bits" THEN VFRow([kind |-> "bits", bits |-> x, zero |-> ZeroClass(x), t |-> TargetN(x)])
           ELSE IF k = "loc" THEN VFRow([kind |-> "loc", h |-> x, hs |-> LocatorHeights(x)])
           ELSE VFRow([kind |-> "skip", h |-> x, sh |-> SkipHeight(x)])
====
