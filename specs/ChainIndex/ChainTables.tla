---- MODULE ChainTables ----
(***************************************************************************)
(* C54, engine E4: oracle tables for the pure functions of ChainIndex.     *)
(*   Kind = "bits": compact targets over exponents x mantissa boundaries   *)
(*          x sign; row = the four bytes, whether the proof must be 0      *)
(*          (zero / negative / overflowing target), and the target's       *)
(*          digits.  The proof itself is specified by a relation           *)
(*          (ProofOK), so the harness hands the real GetBitsProof value    *)
(*          back as a trace line that TLC validates with that relation.    *)
(*   Kind = "loc":  the heights LocatorEntries must list for a tip height. *)
(*   Kind = "skip": GetSkipHeight (an internal: compared as a deviation).  *)
(*   Kind = "tall": size boundaries instead of small trees: tip heights    *)
(*          2^k + 8 .. 2^k + 11 for k = 1..22 (where the locator gains an  *)
(*          entry) and a few beyond; the locator heights, the skip height  *)
(*          and GetAncestor query heights.  On a linear chain the answers  *)
(*          depend on the height alone, so the harness builds ONE chain of *)
(*          millions of plain CBlockIndex entries and compares there.      *)
(***************************************************************************)
EXTENDS ChainIndex, VF
CONSTANTS Kinds, HMax
Heights == (0..HMax) \cup (IF HMax >= 400 THEN {1023, 1024, 1025, 2047, 2048, 2049, 3000, 4095, 4096, 4097, 4999, 5000} ELSE {})
CONSTANT TallExtra       \* further tall tip heights (beyond 2^22 + 11)
VARIABLES k, x
tvars == <<k, x, vars>>
Exps == {0, 1, 2, 3, 4, 5, 16, 27, 29, 30, 31, 32, 33, 34, 35, 36, 128, 255}
\* mantissa boundaries as <<b2 without sign, b1, b0>>
Mants == {<<0, 0, 0>>, <<0, 0, 1>>, <<0, 0, 255>>, <<0, 1, 0>>, <<0, 255, 255>>, <<1, 0, 0>>, <<127, 255, 255>>, <<0, 128, 0>>,
          <<18, 52, 86>>, <<64, 0, 0>>}
RECURSIVE P2(_)
P2(n) == IF n = 0 THEN 1 ELSE 2 * P2(n - 1)
TallHeights == {P2(e) + d : e \in 1..22, d \in 8..11} \cup TallExtra
\* number of locator entries for a tip at height h > 11: 11 dense entries + genesis + one per doubling step = 11 + ceil(log2(h - 9))
RECURSIVE CeilLog2(_)
CeilLog2(n) == IF n <= 1 THEN 0 ELSE 1 + CeilLog2((n + 1) \div 2)
BitsDomain == {<<e, m[1] + s, m[2], m[3]>> : e \in Exps, m \in Mants, s \in {0, 128}}
TInit == /\ k \in Kinds /\ Empty(TRUE)
         /\ x \in (IF k = "bits" THEN BitsDomain ELSE IF k = "loc" THEN Heights ELSE IF k = "tall" THEN TallHeights ELSE 0..(2 * HMax))
TNext == UNCHANGED tvars
\* SetCompact's overflow / negative flags as the code computes them, against the numeric reading of the specification
CodeWord(bits) == IF BExp(bits) <= 3 THEN SmallTarget(bits) ELSE BMant(bits)
CodeOverflow(bits) == CodeWord(bits) # 0 /\ (BExp(bits) > 34 \/ (CodeWord(bits) > 255 /\ BExp(bits) > 33) \/ (CodeWord(bits) > 65535 /\ BExp(bits) > 32))
CodeNegative(bits) == CodeWord(bits) # 0 /\ BSign(bits)
FlagsAreNumeric == k = "bits" =>
  /\ CodeOverflow(x) = ~NLt(TargetN(x), Two256)
  /\ (CodeNegative(x) \/ CodeOverflow(x) \/ NIsZero(TargetN(x))) = ZeroClass(x)
\* a zero proof only for the zero class: any representable positive target has 2^256 / (t + 1) >= 1
ZeroOnlyForZeroClass == k = "bits" => (ProofOK(x, NZero) = ZeroClass(x))
LocatorHeightsShape == k \in {"loc", "tall"} => LocatorShape(x, LocatorHeights(x))
LocatorIsShort == k \in {"loc", "tall"} => Len(LocatorHeights(x)) <= 12 + 31
\* the locator grows by one entry at every 2^k + 10: there is no fixed small capacity that holds every locator
LocatorLength == k = "tall" /\ x > 11 => Len(LocatorHeights(x)) = 11 + CeilLog2(x - 9)
\* heights at which the harness asks GetAncestor of the tall tip: every locator height, the skip height, neighbours, out of range
TallQueries(h) == {LocatorHeights(h)[i] : i \in 1..Len(LocatorHeights(h))} \cup {SkipHeight(h), h - 1, h \div 2, 1, 0, -1, h + 1}
SkipIsLower == k = "skip" => (x >= 1 => SkipHeight(x) < x) /\ SkipHeight(x) >= 0
EmitRow == IF k = "bits" THEN VFRow([kind |-> "bits", bits |-> x, zero |-> ZeroClass(x), t |-> TargetN(x)])
           ELSE IF k = "loc" THEN VFRow([kind |-> "loc", h |-> x, hs |-> LocatorHeights(x)])
           ELSE IF k = "tall" THEN VFRow([kind |-> "tall", h |-> x, hs |-> LocatorHeights(x), sh |-> SkipHeight(x),
                                          \* GetAncestor(q) of the block at height x on a chain: the block at height q, none out of range
                                          anc |-> {<<q, IF q < 0 \/ q > x THEN -1 ELSE q>> : q \in TallQueries(x)}])
           ELSE VFRow([kind |-> "skip", h |-> x, sh |-> SkipHeight(x)])
====
