---- MODULE Nat256 ----
(***************************************************************************)
(* Exact arithmetic on natural numbers of arbitrary size for TLC (whose    *)
(* integers are 32-bit): a number is a little-endian sequence of base-256  *)
(* digits (index 1 = least significant byte) of any length; trailing zero  *)
(* digits do not matter.  A 256-bit value logged by the harness is the 32  *)
(* bytes of uint256 / arith_uint256 in memory order.                       *)
(* Operations: compare, add, multiply by a small integer (< 2^23, so that  *)
(* 255 * m + carry < 2^31), shift by whole bytes.  This is all the         *)
(* relation  w * (t + 1) <= 2^256 < (w + 1) * (t + 1)  needs, because a    *)
(* compact target is  mantissa * 256^k  with a 23-bit mantissa.            *)
(*                                                                         *)
(* Written with folds (SequencesExt has Java overrides that evaluate them  *)
(* eagerly): TLC passes operator arguments by name and re-evaluates them,  *)
(* so carry chains as RECURSIVE operators blow up.  Idea taken from        *)
(* specs/Pow/Limbs256.tla (another property); this module is independent.  *)
(***************************************************************************)
EXTENDS Integers, Sequences
LOCAL INSTANCE SequencesExt
\* strict let: v is evaluated once, F is applied to the value
Strict(v, F(_)) == FoldLeft(LAMBDA acc, x : F(x), FALSE, <<v>>)

NZero == <<>>
Digit(a, i) == IF i <= Len(a) THEN a[i] ELSE 0
\* number of significant digits
NLen(a) == Strict(a, LAMBDA v : FoldLeft(LAMBDA acc, i : IF v[i] # 0 THEN i ELSE acc, 0, [i \in 1..Len(v) |-> i]))
NIsZero(a) == NLen(a) = 0
MaxI(x, y) == IF x >= y THEN x ELSE y
\* -1, 0, 1: the most significant differing digit decides
NCmp(a, b) == Strict(<<a, b>>, LAMBDA ab :
                FoldLeft(LAMBDA acc, i : IF Digit(ab[1], i) = Digit(ab[2], i) THEN acc ELSE IF Digit(ab[1], i) > Digit(ab[2], i) THEN 1 ELSE -1,
                         0, [i \in 1..MaxI(Len(ab[1]), Len(ab[2])) |-> i]))
NEq(a, b) == NCmp(a, b) = 0
NLe(a, b) == NCmp(a, b) <= 0
NLt(a, b) == NCmp(a, b) < 0
\* a + b
AddStep(acc, s) == [d |-> Append(acc.d, (s + acc.carry) % 256), carry |-> (s + acc.carry) \div 256]
NAdd(a, b) == Strict(<<a, b>>, LAMBDA ab :
                LET r == FoldLeft(AddStep, [d |-> <<>>, carry |-> 0],
                                  [i \in 1..MaxI(Len(ab[1]), Len(ab[2])) |-> Digit(ab[1], i) + Digit(ab[2], i)])
                IN IF r.carry = 0 THEN r.d ELSE Append(r.d, r.carry))
\* a * m for 0 <= m < 2^23
MulStep(acc, x, m) == [d |-> Append(acc.d, (x * m + acc.carry) % 256), carry |-> (x * m + acc.carry) \div 256]
CarryDigits(c) == IF c = 0 THEN <<>> ELSE IF c < 256 THEN <<c>> ELSE IF c < 65536 THEN <<c % 256, c \div 256>>
                  ELSE <<c % 256, (c \div 256) % 256, c \div 65536>>
NMulSmall(a, m) == Strict(<<a, m>>, LAMBDA am :
                     LET r == FoldLeft(LAMBDA acc, x : MulStep(acc, x, am[2]), [d |-> <<>>, carry |-> 0], am[1])
                     IN r.d \o CarryDigits(r.carry))
\* a * 256^k
NShl(a, k) == [i \in 1..k |-> 0] \o a
\* small non-negative integer (< 2^31) as digits
NFromSmall(n) == <<n % 256, (n \div 256) % 256, (n \div 65536) % 256, n \div 16777216>>
NPow256(k) == NShl(<<1>>, k)          \* 256^k; 2^256 = NPow256(32)
====
